package c15

import (
	"bytes"
	"encoding/json"
	"fmt"
	"os"
	"os/exec"
	"path/filepath"
	"strings"
	"sync"
	"time"

	"github.com/hashicorp/hcl/v2/hclsyntax"

	"verif/harness/core"
)

// Peeker protocol recording (hook family "peeker"/"parser" of hclsyntax, build tag verif):
// events are grouped per peeker object; a parse is complete at its "peeker.assert" event.
// Every SampleEvery-th complete parse is kept for validation by TLC (Trace_Peeker.tla); all
// parses are checked against the protocol directly.

type pevent struct {
	Ev string `json:"ev"`
	B  int    `json:"b"`
	N  int    `json:"n"`
}

type peekerRec struct {
	mu          sync.Mutex
	open        map[any][]pevent
	sampled     [][]pevent
	seen        int64
	SampleEvery int64
	MaxSampled  int
	violation   string
	violSeq     []pevent
}

var rec = &peekerRec{open: map[any][]pevent{}, SampleEvery: 400, MaxSampled: 4000}

func b2i(b bool) int {
	if b {
		return 1
	}
	return 0
}

func (r *peekerRec) hook(ev string, obj, ctx, arg any) {
	var e pevent
	switch ev {
	case "peeker.push":
		e = pevent{Ev: "push", B: b2i(arg.(bool))}
	case "peeker.pop":
		e = pevent{Ev: "pop", B: b2i(arg.(bool))}
	case "parser.recovery":
		e = pevent{Ev: "recovery"}
	case "peeker.assert":
		e = pevent{Ev: "assert", N: arg.(int)}
	default:
		return
	}
	r.mu.Lock()
	defer r.mu.Unlock()
	seq := append(r.open[obj], e)
	if e.Ev != "assert" {
		r.open[obj] = seq
		return
	}
	delete(r.open, obj)
	r.seen++
	// direct protocol check on every parse
	if r.violation == "" {
		if m := protocolViolation(seq); m != "" {
			r.violation = m
			r.violSeq = seq
		}
	}
	if r.seen%r.SampleEvery == 0 && len(r.sampled) < r.MaxSampled {
		r.sampled = append(r.sampled, seq)
	}
}

func protocolViolation(seq []pevent) string {
	stack := []int{1}
	for i, e := range seq {
		switch e.Ev {
		case "push":
			stack = append(stack, e.B)
		case "pop":
			if len(stack) <= 1 {
				return fmt.Sprintf("event %d pops the initial element of the newline stack", i)
			}
			if stack[len(stack)-1] != e.B {
				return fmt.Sprintf("event %d pops %d but the matching push was %d", i, e.B, stack[len(stack)-1])
			}
			stack = stack[:len(stack)-1]
		case "assert":
			if e.N != 1 || len(stack) != 1 {
				return fmt.Sprintf("the parse ends with newline stack depth %d (model %d)", e.N, len(stack))
			}
		}
	}
	return ""
}

// StartPeekerRecording installs the hook.
func StartPeekerRecording(sampleEvery int64, maxSampled int) {
	rec = &peekerRec{open: map[any][]pevent{}, SampleEvery: sampleEvery, MaxSampled: maxSampled}
	hclsyntax.VerifHook = rec.hook
}

// FinishPeekerRecording removes the hook, reports protocol violations and lets TLC validate the sample.
func FinishPeekerRecording(c *core.Check) {
	hclsyntax.VerifHook = nil
	rec.mu.Lock()
	defer rec.mu.Unlock()
	c.Extra["peeker_parses_checked"] = rec.seen
	if rec.violation != "" {
		c.Violation("peeker-protocol", "a parse broke the newline-stack protocol: "+rec.violation, map[string]any{"events": rec.violSeq, "kind": "peeker"})
		return
	}
	if len(rec.sampled) == 0 {
		c.Broken("no peeker traces were recorded (hooks not built in?)")
		return
	}
	var buf bytes.Buffer
	n := 0
	for i, seq := range rec.sampled {
		if i > 0 {
			buf.WriteString(`{"ev":"reset","b":0,"n":0}` + "\n")
		}
		for _, e := range seq {
			j, _ := json.Marshal(e)
			buf.Write(j)
			buf.WriteByte('\n')
			n++
		}
	}
	st, err := core.TLCRun{Module: "Trace_Peeker", NoDump: true, Workers: 1, Timeout: 15 * time.Minute,
		Files: map[string][]byte{"trace_peeker.ndjson": buf.Bytes()}}.Stream(1, func(core.State) {})
	c.AddTLC(st)
	if err != nil || st.ErrorKind != "" || !strings.Contains(st.Output, "Model checking completed. No error") {
		c.Broken("TLC rejected the recorded peeker traces although every parse satisfied the protocol check (model drift): %v %s", err, tailOf(st.Output, 500))
		return
	}
	c.Count("traces_validated", int64(len(rec.sampled)))
	c.Extra["peeker_traces_validated_by_TLC"] = len(rec.sampled)
	c.Extra["peeker_events_validated_by_TLC"] = n
	// binding smoke test: an unbalanced trace must be rejected
	bad := `{"ev":"push","b":0,"n":0}` + "\n" + `{"ev":"assert","b":0,"n":2}` + "\n"
	st2, _ := core.TLCRun{Module: "Trace_Peeker", NoDump: true, Workers: 1, Timeout: 5 * time.Minute,
		Files: map[string][]byte{"trace_peeker.ndjson": []byte(bad)}}.Stream(1, func(core.State) {})
	if st2.ErrorKind == "" && strings.Contains(st2.Output, "Model checking completed. No error") {
		c.Broken("binding smoke test failed: TLC accepted an unbalanced peeker trace")
		return
	}
	c.Extra["unbalanced_trace_rejected_by_TLC"] = true
}

func tailOf(s string, n int) string {
	if len(s) > n {
		return s[len(s)-n:]
	}
	return s
}

// RepoTestTraces runs hashicorp/hcl's own test suite, built with the hook tag, with the trace
// recorder of hclsyntax/verif_hook_on.go switched on, and validates every parse the tests perform
// against the newline-stack protocol: directly, and by TLC against Peeker.tla (Trace_Peeker).
func RepoTestTraces(c *core.Check, repo string, pkgs []string) {
	dir := os.Getenv("VERIF_DIR")
	if dir == "" {
		dir = "."
	}
	path := filepath.Join(dir, ".bin", fmt.Sprintf("repo-test-trace-%d.ndjson", os.Getpid()))
	os.Remove(path)
	defer os.Remove(path)
	args := append([]string{"test", "-tags", "verif", "-vet=off", "-count=1"}, pkgs...)
	cmd := exec.Command("go", args...)
	cmd.Dir = repo
	cmd.Env = append(os.Environ(), "HCL_VERIF_TRACE="+path)
	done := make(chan error, 1)
	var out []byte
	go func() {
		var err error
		out, err = cmd.CombinedOutput()
		done <- err
	}()
	select {
	case err := <-done:
		c.Extra["repo_tests_with_hooks_passed"] = err == nil
		if err != nil {
			c.Extra["repo_tests_with_hooks_output_tail"] = tailOf(string(out), 400)
		}
	case <-time.After(15 * time.Minute):
		cmd.Process.Kill()
		c.Broken("the repository's tests (built with -tags verif) did not finish within 15 minutes")
		return
	}
	raw, err := os.ReadFile(path)
	if err != nil || len(raw) == 0 {
		c.Broken("running the repository's tests with HCL_VERIF_TRACE produced no trace (%v): %s", err, tailOf(string(out), 300))
		return
	}
	type line struct {
		Ev  string `json:"ev"`
		O   string `json:"o"`
		Arg string `json:"arg"`
	}
	open := map[string][]pevent{}
	var complete [][]pevent
	events := 0
	for _, ln := range bytes.Split(raw, []byte("\n")) {
		if len(ln) == 0 {
			continue
		}
		var l line
		if json.Unmarshal(ln, &l) != nil {
			continue // a torn line from concurrent writers
		}
		var e pevent
		switch l.Ev {
		case "peeker.push":
			e = pevent{Ev: "push", B: b2i(l.Arg == "true")}
		case "peeker.pop":
			e = pevent{Ev: "pop", B: b2i(l.Arg == "true")}
		case "parser.recovery":
			e = pevent{Ev: "recovery"}
		case "peeker.assert":
			n := 0
			fmt.Sscanf(l.Arg, "%d", &n)
			e = pevent{Ev: "assert", N: n}
		default:
			continue
		}
		events++
		seq := append(open[l.O], e)
		if e.Ev != "assert" {
			open[l.O] = seq
			continue
		}
		delete(open, l.O)
		complete = append(complete, seq)
	}
	c.Extra["repo_test_parses_recorded"] = len(complete)
	c.Extra["repo_test_parser_events"] = events
	c.Extra["repo_test_parses_without_final_assert"] = len(open)
	if len(complete) == 0 {
		c.Broken("the repository's tests recorded no complete parse")
		return
	}
	var buf bytes.Buffer
	for i, seq := range complete {
		if m := protocolViolation(seq); m != "" {
			c.Violation("peeker-protocol/repo-tests", "a parse performed by the repository's own tests broke the newline-stack protocol: "+m, map[string]any{"events": seq, "kind": "peeker"})
			return
		}
		if i > 0 {
			buf.WriteString(`{"ev":"reset","b":0,"n":0}` + "\n")
		}
		for _, e := range seq {
			j, _ := json.Marshal(e)
			buf.Write(j)
			buf.WriteByte('\n')
		}
	}
	st, terr := core.TLCRun{Module: "Trace_Peeker", NoDump: true, Workers: 1, Timeout: 15 * time.Minute,
		Files: map[string][]byte{"trace_peeker.ndjson": buf.Bytes()}}.Stream(1, func(core.State) {})
	c.AddTLC(st)
	if terr != nil || st.ErrorKind != "" || !strings.Contains(st.Output, "Model checking completed. No error") {
		c.Broken("TLC rejected the peeker traces of the repository's tests although every parse satisfied the protocol check (model drift): %v %s", terr, tailOf(st.Output, 500))
		return
	}
	c.Count("traces_validated", int64(len(complete)))
}
