// Package c15: all front ends are total, deterministic and report well-formed diagnostics.
package c15

import (
	stdjson "encoding/json"
	"fmt"
	"io"
	"reflect"
	"strings"
	"time"

	"github.com/hashicorp/hcl/v2"
	"github.com/hashicorp/hcl/v2/hclsyntax"
	"github.com/hashicorp/hcl/v2/hclwrite"
	hcljson "github.com/hashicorp/hcl/v2/json"

	"verif/harness/core"
	"verif/harness/e1"
	"verif/harness/tla"
)

var tokText = map[string]string{
	"DQ": `"`, "BADUTF": "\xff", "NUL": "\x00", "CR": "\r", "BACKTICK": "`", "AMP": "&", "BS": `\`, "NL": "\n",
	"<<EOT NL": "<<EOT\n", "<<-EOT NL": "<<-EOT\n", "NL EOT NL": "\nEOT\n",
}

type Damage struct {
	K string
	P int
	T string
}

func text(t string) string {
	if s, ok := tokText[t]; ok {
		return s
	}
	return t
}

// applyInString inserts text after the (p+1)-th double quote of the joined text.
func applyInString(joined string, ds []Damage) string {
	for _, d := range ds {
		if d.K != "instr" {
			continue
		}
		idx, seen := -1, 0
		for i := 0; i < len(joined); i++ {
			if joined[i] == '"' {
				if seen == d.P {
					idx = i
					break
				}
				seen++
			}
		}
		if idx < 0 {
			idx = strings.IndexByte(joined, '"')
		}
		if idx < 0 {
			joined = joined + "\"" + text(d.T) + "\""
			continue
		}
		joined = joined[:idx+1] + text(d.T) + joined[idx+1:]
	}
	return joined
}

func apply(tokens []string, ds []Damage) []string {
	out := append([]string{}, tokens...)
	for _, d := range ds {
		if d.K == "instr" {
			continue
		}
		if len(out) == 0 {
			out = []string{text(d.T)}
			continue
		}
		p := d.P % len(out)
		switch d.K {
		case "ins":
			out = append(out[:p], append([]string{text(d.T)}, out[p:]...)...)
		case "rep":
			out[p] = text(d.T)
		case "del":
			out = append(out[:p], out[p+1:]...)
		case "trunc":
			out = out[:p]
		}
	}
	return out
}

const watchdog = 20 * time.Second

// Brief reduces the embeddings per vector (quick tier).
var Brief bool

type outcome struct {
	result any
	diags  hcl.Diagnostics
	panic  any
	hung   bool
}

func run(f func() (any, hcl.Diagnostics)) outcome {
	ch := make(chan outcome, 1)
	go func() {
		var o outcome
		defer func() {
			if r := recover(); r != nil {
				o.panic = r
			}
			ch <- o
		}()
		o.result, o.diags = f()
	}()
	select {
	case o := <-ch:
		return o
	case <-time.After(watchdog):
		return outcome{hung: true}
	}
}

func isNil(v any) bool {
	if v == nil {
		return true
	}
	if _, ok := v.([]byte); ok {
		return false // an empty byte slice is a legitimate (empty) output
	}
	rv := reflect.ValueOf(v)
	switch rv.Kind() {
	case reflect.Ptr, reflect.Map, reflect.Slice, reflect.Interface:
		return rv.IsNil()
	}
	return false
}

func diagStrings(ds hcl.Diagnostics) []string {
	var out []string
	for _, d := range ds {
		s := fmt.Sprintf("%d|%s|%s", d.Severity, d.Summary, d.Detail)
		if d.Subject != nil {
			s += "|" + d.Subject.String()
		}
		if d.Context != nil {
			s += "|" + d.Context.String()
		}
		out = append(out, s)
	}
	return out
}

// wellFormed checks severity, summary and in-bounds ranges.
func wellFormed(ds hcl.Diagnostics, srcLen int) string {
	for _, d := range ds {
		if d.Severity != hcl.DiagError && d.Severity != hcl.DiagWarning {
			return fmt.Sprintf("diagnostic %q has no valid severity (%d)", d.Summary, d.Severity)
		}
		if strings.TrimSpace(d.Summary) == "" {
			return fmt.Sprintf("a diagnostic has an empty summary (detail %q)", d.Detail)
		}
		for _, r := range []*hcl.Range{d.Subject, d.Context} {
			if r == nil {
				continue
			}
			if r.Start.Byte < 0 || r.Start.Byte > r.End.Byte || r.End.Byte > srcLen {
				return fmt.Sprintf("diagnostic %q has range bytes %d..%d outside the input of length %d", d.Summary, r.Start.Byte, r.End.Byte, srcLen)
			}
		}
	}
	return ""
}

type entry struct {
	name     string
	fn       func(src []byte) (any, hcl.Diagnostics)
	nilOKErr bool // a nil result is allowed when error diagnostics are present
}

var nativeEntries = []entry{
	{"hclsyntax.ParseConfig", func(s []byte) (any, hcl.Diagnostics) {
		f, d := hclsyntax.ParseConfig(s, "x.hcl", hcl.InitialPos)
		return f, d
	}, false},
	{"hclsyntax.ParseExpression", func(s []byte) (any, hcl.Diagnostics) {
		e, d := hclsyntax.ParseExpression(s, "x.hcl", hcl.InitialPos)
		return e, d
	}, false},
	{"hclsyntax.ParseTemplate", func(s []byte) (any, hcl.Diagnostics) {
		e, d := hclsyntax.ParseTemplate(s, "x.hcl", hcl.InitialPos)
		return e, d
	}, false},
	{"hclsyntax.ParseTraversalAbs", func(s []byte) (any, hcl.Diagnostics) {
		t, d := hclsyntax.ParseTraversalAbs(s, "x.hcl", hcl.InitialPos)
		return t, d
	}, true},
	{"hclsyntax.ParseTraversalPartial", func(s []byte) (any, hcl.Diagnostics) {
		t, d := hclsyntax.ParseTraversalPartial(s, "x.hcl", hcl.InitialPos)
		return t, d
	}, true},
	{"hclwrite.ParseConfig", func(s []byte) (any, hcl.Diagnostics) {
		f, d := hclwrite.ParseConfig(s, "x.hcl", hcl.InitialPos)
		return f, d
	}, true},
	{"hclwrite.Format", func(s []byte) (any, hcl.Diagnostics) { return hclwrite.Format(s), nil }, false},
}

var jsonEntries = []entry{
	{"json.Parse", func(s []byte) (any, hcl.Diagnostics) {
		f, d := hcljson.Parse(s, "x.json")
		return f, d
	}, false},
	{"json.ParseExpression", func(s []byte) (any, hcl.Diagnostics) {
		e, d := hcljson.ParseExpression(s, "x.json")
		return e, d
	}, false},
}

var schema = &hcl.BodySchema{
	Attributes: []hcl.AttributeSchema{{Name: "a"}, {Name: "b", Required: true}},
	Blocks:     []hcl.BlockHeaderSchema{{Type: "blk", LabelNames: []string{"l"}}, {Type: "other"}},
}

// useBody applies schemas to a (possibly partial) body and evaluates what it returns.
func useBody(body hcl.Body, srcLen int, evaluate bool) (string, string) {
	check := func(ds hcl.Diagnostics) string { return wellFormed(ds, srcLen) }
	evalAttrs := func(attrs hcl.Attributes) string {
		if !evaluate {
			// evaluation is only promised for error-free parse results
			return ""
		}
		for _, a := range attrs {
			_, ds := a.Expr.Value(e1.Ctx())
			if m := check(ds); m != "" {
				return m
			}
			_ = a.Expr.Variables()
			_, ds2 := a.Expr.Value(nil)
			if m := check(ds2); m != "" {
				return m
			}
		}
		return ""
	}
	content, ds := body.Content(schema)
	if m := check(ds); m != "" {
		return "diag/Content", m
	}
	if content == nil {
		return "nil/Content", "Content returned nil"
	}
	if m := evalAttrs(content.Attributes); m != "" {
		return "diag/eval", m
	}
	for _, b := range content.Blocks {
		attrs, ds := b.Body.JustAttributes()
		if m := check(ds); m != "" {
			return "diag/JustAttributes", m
		}
		if m := evalAttrs(attrs); m != "" {
			return "diag/eval", m
		}
	}
	pc, remain, ds := body.PartialContent(&hcl.BodySchema{Attributes: []hcl.AttributeSchema{{Name: "a"}}})
	if m := check(ds); m != "" {
		return "diag/PartialContent", m
	}
	if pc == nil || remain == nil {
		return "nil/PartialContent", "PartialContent returned nil"
	}
	_, ds = remain.Content(&hcl.BodySchema{})
	if m := check(ds); m != "" {
		return "diag/Content", m
	}
	attrs, ds := body.JustAttributes()
	if m := check(ds); m != "" {
		return "diag/JustAttributes", m
	}
	if m := evalAttrs(attrs); m != "" {
		return "diag/eval", m
	}
	return "", ""
}

// CheckInput applies the C15 relation to one input for the given entry points.
func CheckInput(c *core.Check, src []byte, entries []entry, vec map[string]any) bool {
	for _, en := range entries {
		c.Count("evaluations", 1)
		o1 := run(func() (any, hcl.Diagnostics) { return en.fn(src) })
		bad := func(kind, what string) bool {
			c.Violation(kind+"/"+en.name, fmt.Sprintf("%s(%q): %s", en.name, src, what), vec)
			return false
		}
		if o1.hung {
			return bad("hang", fmt.Sprintf("did not return within %v", watchdog))
		}
		if o1.panic != nil {
			msg := fmt.Sprint(o1.panic)
			if len(msg) > 70 {
				msg = msg[:70]
			}
			c.Violation("panic/"+en.name+"/"+msg, fmt.Sprintf("%s(%q) panicked: %v", en.name, src, o1.panic), vec)
			return false
		}
		if isNil(o1.result) {
			if !(en.nilOKErr && o1.diags.HasErrors()) {
				return bad("nil-result", fmt.Sprintf("returned a nil result (errors: %v)", o1.diags.HasErrors()))
			}
		}
		if m := wellFormed(o1.diags, len(src)); m != "" {
			return bad("ill-formed-diagnostic", m)
		}
		// an unusable result needs an error diagnostic: a parse that reports no error must not
		// contain the parser's "invalid expression" placeholder
		if !o1.diags.HasErrors() {
			var root hclsyntax.Node
			switch r := o1.result.(type) {
			case hclsyntax.Expression:
				root = r
			case *hcl.File:
				if r != nil {
					if b, ok := r.Body.(*hclsyntax.Body); ok {
						root = b
					}
				}
			}
			if root != nil && !isNil(root) {
				placeholder := false
				ow := run(func() (any, hcl.Diagnostics) {
					hclsyntax.VisitAll(root, func(n hclsyntax.Node) hcl.Diagnostics {
						if _, ok := n.(*hclsyntax.ExprSyntaxError); ok {
							placeholder = true
						}
						return nil
					})
					return 1, nil
				})
				if ow.panic != nil {
					return bad("panic/walk", fmt.Sprint(ow.panic))
				}
				if placeholder {
					return bad("unusable-without-error", "the result contains an invalid-expression placeholder but no error diagnostic was reported")
				}
			}
		}
		// diagnostics with in-bounds ranges can be rendered with their source snippet
		if len(o1.diags) > 0 {
			or := run(func() (any, hcl.Diagnostics) {
				files := map[string]*hcl.File{}
				for _, d := range o1.diags {
					if d.Subject != nil {
						files[d.Subject.Filename] = &hcl.File{Bytes: src}
					}
				}
				w := hcl.NewDiagnosticTextWriter(io.Discard, files, 78, false)
				_ = w.WriteDiagnostics(o1.diags)
				return 1, nil
			})
			if or.hung {
				return bad("hang/text-writer", "rendering the diagnostics did not return")
			}
			if or.panic != nil {
				msg := fmt.Sprint(or.panic)
				if len(msg) > 70 {
					msg = msg[:70]
				}
				c.Violation("panic/text-writer/"+en.name+"/"+msg, fmt.Sprintf("rendering the diagnostics of %s(%q) panicked: %v", en.name, src, or.panic), vec)
				return false
			}
		}
		o2 := run(func() (any, hcl.Diagnostics) { return en.fn(src) })
		if o2.hung || o2.panic != nil {
			return bad("nondeterministic", "second call hung or panicked")
		}
		if fmt.Sprint(diagStrings(o1.diags)) != fmt.Sprint(diagStrings(o2.diags)) {
			return bad("nondeterministic", fmt.Sprintf("diagnostics differ between two calls: %v vs %v", diagStrings(o1.diags), diagStrings(o2.diags)))
		}
		// several error diagnostics: their order must be a function of the input too (it is not when
		// it comes out of a map iteration, which differs only now and then): ask several more times
		if len(o1.diags) >= 2 {
			for k := 0; k < 3; k++ {
				ok := run(func() (any, hcl.Diagnostics) { return en.fn(src) })
				if ok.hung || ok.panic != nil {
					return bad("nondeterministic", "a repeated call hung or panicked")
				}
				if fmt.Sprint(diagStrings(o1.diags)) != fmt.Sprint(diagStrings(ok.diags)) {
					return bad("nondeterministic", fmt.Sprintf("diagnostics differ between two calls: %v vs %v", diagStrings(o1.diags), diagStrings(ok.diags)))
				}
			}
		}
		same := reflect.DeepEqual(o1.result, o2.result)
		if w1, ok := o1.result.(*hclwrite.File); ok {
			// the writer tree keys sets by node pointer; compare what it denotes instead
			w2, _ := o2.result.(*hclwrite.File)
			same = (w1 == nil) == (w2 == nil) && (w1 == nil || string(w1.Bytes()) == string(w2.Bytes()))
		}
		if !same {
			return bad("nondeterministic", "results of two calls are not deep-equal")
		}
		// applying schemas to the (possibly partial) body and evaluating it is panic-free with in-bounds diagnostics
		if f, ok := o1.result.(*hcl.File); ok && f != nil && f.Body != nil {
			var kind, what string
			ob := run(func() (any, hcl.Diagnostics) {
				kind, what = useBody(f.Body, len(src), !o1.diags.HasErrors())
				return 1, nil
			})
			if ob.hung {
				return bad("hang/body-use", "schema application / evaluation did not return")
			}
			if ob.panic != nil {
				msg := fmt.Sprint(ob.panic)
				if len(msg) > 70 {
					msg = msg[:70]
				}
				c.Violation("panic/body-use/"+en.name+"/"+msg, fmt.Sprintf("using the body returned by %s(%q) panicked: %v", en.name, src, ob.panic), vec)
				return false
			}
			if kind != "" {
				return bad(kind, what)
			}
		}
		if e, ok := o1.result.(hcl.Expression); ok && e != nil && !o1.diags.HasErrors() {
			oe := run(func() (any, hcl.Diagnostics) {
				_, ds := e.Value(e1.Ctx())
				_ = e.Variables()
				return 1, ds
			})
			if oe.hung {
				return bad("hang/eval", "evaluation did not return")
			}
			if oe.panic != nil {
				msg := fmt.Sprint(oe.panic)
				if len(msg) > 70 {
					msg = msg[:70]
				}
				c.Violation("panic/eval/"+en.name+"/"+msg, fmt.Sprintf("evaluating the result of %s(%q) panicked: %v", en.name, src, oe.panic), vec)
				return false
			}
			if m := wellFormed(oe.diags, len(src)); m != "" {
				return bad("ill-formed-diagnostic/eval", m)
			}
		}
	}
	return true
}

func NativeEntries() []entry { return nativeEntries }
func JSONEntries() []entry   { return jsonEntries }

func Handle(c *core.Check, st core.State) {
	node := e1.DecodeNode(st.Vars["e"])
	var ds []Damage
	for _, d := range tla.Seq(st.Vars["dmg"]) {
		m := tla.Rec(d)
		ds = append(ds, Damage{K: tla.Str(m["k"]), P: tla.Int(m["p"]), T: tla.Str(m["t"])})
	}
	c.Count("vectors_replayed", 1)
	base := strings.Fields(e1.Render(node, e1.Layout{Mode: 4}))
	dam := apply(base, ds)
	for _, sep := range []string{" ", ""} {
		expr := applyInString(strings.Join(dam, sep), ds)
		orig := strings.Join(base, " ")
		inputs := []string{
			expr,
			"a = " + expr + "\nblk \"l\" {\n  b = " + orig + "\n}\n",
			"blk \"l\" {\n  b = " + expr + "\n}\na = " + orig + "\n",
		}
		if Brief {
			if sep == "" {
				inputs = inputs[:1]
			} else {
				inputs = inputs[1:]
			}
		}
		for _, in := range inputs {
			vec := map[string]any{"state": st.Raw, "source": in, "kind": "native"}
			if !CheckInput(c, []byte(in), nativeEntries, vec) {
				return
			}
		}
		// JSON: damage the token sequence of a document that embeds the expression as a template
		tpl, _ := stdjson.Marshal("${" + orig + "}")
		jbase := []string{"{", `"a"`, ":", string(tpl), ",", `"blk"`, ":", "{", `"l"`, ":", "{", `"b"`, ":", "[", "1", ",", "null", "]", "}", "}", "}"}
		if Brief && sep == "" {
			continue
		}
		jdoc := applyInString(strings.Join(apply(jbase, ds), sep), ds)
		vec := map[string]any{"state": st.Raw, "source": jdoc, "kind": "json"}
		if !CheckInput(c, []byte(jdoc), jsonEntries, vec) {
			return
		}
	}
	if len(ds) > 0 {
		c.Nontrivial(strings.Join(dam, " "))
		c.Sample(map[string]any{"base": strings.Join(base, " "), "damaged": strings.Join(dam, " ")})
	}
}
