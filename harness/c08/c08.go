// Package c08: decoding always yields a value of the specification's implied type.
package c08

import (
	"fmt"
	"strings"

	"github.com/hashicorp/hcl/v2"
	"github.com/hashicorp/hcl/v2/hcldec"
	"github.com/hashicorp/hcl/v2/hclsyntax"
	"github.com/zclconf/go-cty/cty"
	"github.com/zclconf/go-cty/cty/convert"

	"verif/harness/core"
	"verif/harness/dec"
	"verif/harness/e1"
	"verif/harness/tla"
)

func Handle(c *core.Check, st core.State) {
	if tla.Str(st.Vars["phase"]) != "body" {
		return
	}
	var sn *dec.SpecNode
	var items []dec.Item
	if rec, p := core.Guard(func() { sn = dec.DecodeSpec(st.Vars["spec"]); items = dec.DecodeBody(st.Vars["body"]) }); p {
		c.Broken("decode: %v", rec)
		return
	}
	c.Count("vectors_replayed", 1)
	pred := tla.Rec(st.Vars["pred"])
	predErr := tla.Bool(pred["err"])
	predVal, predOK := e1.DecodeValue(pred["v"])
	predOom := tla.Str(tla.Rec(pred["v"])["k"]) == "oom"
	modelIty, ityOK := e1.DecodeType(st.Vars["ity"])
	src := dec.Native(items, "")
	desc := fmt.Sprintf("spec %s on body [%s]", sn.String(), oneLine(src))
	vec := map[string]any{"state": st.Raw, "case": desc}
	f, pd := hclsyntax.ParseConfig([]byte(src), "b.hcl", hcl.InitialPos)
	if pd.HasErrors() {
		c.Broken("generated body does not parse: %q: %s", src, pd.Error())
		return
	}
	var spec hcldec.Spec
	var ity cty.Type
	if rec, p := core.Guard(func() { spec = sn.Build(); ity = hcldec.ImpliedType(spec) }); p {
		c.Violation("panic/ImpliedType/"+sn.K, fmt.Sprintf("%s: building the spec / ImpliedType panicked: %v", desc, rec), vec)
		return
	}
	if ityOK && !ity.Equals(modelIty) {
		c.Violation("implied-type-differs/"+sn.K, fmt.Sprintf("%s: ImpliedType is %s, specification says %s", desc, ity.FriendlyName(), modelIty.FriendlyName()), vec)
		return
	}
	// bodies whose nested block bodies report themselves as unknown (hcldec.UnknownBody, as the
	// dynamic block extension does for an unknown for_each): the result must still have the implied type
	if len(items) > 0 {
		var uval cty.Value
		c.Count("evaluations", 1)
		if rec, p := core.Guard(func() { uval, _ = hcldec.Decode(unknownBlocks{f.Body, ""}, spec, dec.Ctx()) }); p {
			c.Violation("panic/unknown-body/"+culprit(sn), fmt.Sprintf("%s: Decode with unknown block bodies panicked: %v", desc, rec), vec)
			return
		}
		if uval == cty.NilVal || !dec.Conforms(uval.Type(), ity.WithoutOptionalAttributesDeep()) {
			usig := "type-nonconforming/unknown-body/" + typeDiff(uval.Type(), ity.WithoutOptionalAttributesDeep(), "")
			if uval != cty.NilVal && uval.IsKnown() {
				// no block was affected by the unknown bodies: the plain decode's own finding
				usig = "type-nonconforming/" + typeDiff(uval.Type(), ity.WithoutOptionalAttributesDeep(), "")
			}
			c.Violation(usig,
				fmt.Sprintf("%s: with unknown block bodies Decode returned %s of type %s, implied type is %s", desc, e1.Describe(uval), uval.Type().FriendlyName(), ity.FriendlyName()), vec)
			return
		}
	}
	// ... and with the bodies of ONE block type unknown (a dynamic block of that type over an unknown
	// for_each next to static blocks of other types): every child of a top-level object / tuple
	// specification that does not read blocks of that type is exactly what it is without unknown bodies
	if (sn.K == "object" || sn.K == "tuple") && len(items) > 0 {
		types := map[string]bool{}
		for _, b := range f.Body.(*hclsyntax.Body).Blocks {
			types[b.Type] = true
		}
		var full cty.Value
		var fd hcl.Diagnostics
		if len(types) > 0 {
			if _, p := core.Guard(func() { full, fd = hcldec.Decode(f.Body, spec, dec.Ctx()) }); p {
				full = cty.NilVal
			}
		}
		if full != cty.NilVal && !fd.HasErrors() && full.IsKnown() && !full.IsNull() {
			for typ := range types {
				var uval cty.Value
				var ud hcl.Diagnostics
				c.Count("evaluations", 1)
				if rec, p := core.Guard(func() { uval, ud = hcldec.Decode(unknownBlocks{f.Body, typ}, spec, dec.Ctx()) }); p {
					c.Violation("panic/unknown-body/"+culprit(sn), fmt.Sprintf("%s: Decode with unknown %s block bodies panicked: %v", desc, typ, rec), vec)
					return
				}
				if ud.HasErrors() {
					continue
				}
				for i, child := range sn.Sub {
					reads := false
					if _, p := core.Guard(func() {
						for _, bs := range hcldec.ImpliedSchema(child.Build()).Blocks {
							reads = reads || bs.Type == typ
						}
					}); p {
						reads = true
					}
					if reads {
						continue
					}
					var got, want cty.Value
					ok := true
					if _, p := core.Guard(func() {
						if sn.K == "object" {
							got, want = uval.GetAttr(sn.Names[i]), full.GetAttr(sn.Names[i])
						} else {
							got, want = uval.Index(cty.NumberIntVal(int64(i))), full.Index(cty.NumberIntVal(int64(i)))
						}
					}); p {
						ok = false
					}
					if !ok || !got.RawEquals(want) {
						c.Violation("unknown-body-spreads/"+child.K, fmt.Sprintf("%s: with only the bodies of the %q blocks unknown, the part decoded by child %d (%s, which reads no %q block) is %s; without unknown bodies it is %s",
							desc, typ, i, child.K, typ, e1.Describe(got), e1.Describe(want)), vec)
						return
					}
					c.Count("unknown_one_type_children_checked", 1)
				}
			}
		}
	}
	for _, partial := range []bool{false, true} {
		var val cty.Value
		var diags hcl.Diagnostics
		c.Count("evaluations", 1)
		rec, panicked := core.Guard(func() {
			if partial {
				val, _, diags = hcldec.PartialDecode(f.Body, spec, dec.Ctx())
			} else {
				val, diags = hcldec.Decode(f.Body, spec, dec.Ctx())
			}
		})
		how := "Decode"
		if partial {
			how = "PartialDecode"
		}
		if panicked {
			c.Violation("panic/"+culprit(sn), fmt.Sprintf("%s: %s panicked: %v", desc, how, rec), vec)
			return
		}
		if val == cty.NilVal {
			c.Violation("nil-value/"+culprit(sn), fmt.Sprintf("%s: %s returned the nil value", desc, how), vec)
			return
		}
		vt := val.Type()
		if !dec.Conforms(vt, ity.WithoutOptionalAttributesDeep()) {
			sig := "type-nonconforming/" + typeDiff(vt, ity.WithoutOptionalAttributesDeep(), "")
			for _, d := range diags {
				if strings.HasPrefix(d.Summary, "Unconsistent argument types") {
					sig += "/after-unify-failure"
					// the listed finding is about element types that really have no common type; when the
					// values of the blocks DO unify the failure is a different defect
					if unifiable(sn, f.Body) {
						sig += "/but-unifiable"
					}
					break
				}
			}
			c.Violation(sig, fmt.Sprintf("%s: %s returned %s of type %s, implied type is %s (errors: %v)", desc, how, e1.Describe(val), vt.FriendlyName(), ity.FriendlyName(), diags.HasErrors()), vec)
			return
		}
		if partial {
			// extraneous items are not errors in partial mode: only the no-panic/type relation applies
			continue
		}
		if predOom {
			c.Count("pred_oom", 1)
			continue
		}
		if diags.HasErrors() != predErr {
			what := ""
			if diags.HasErrors() {
				what = " (" + diags[0].Summary + ": " + diags[0].Detail + ")"
			}
			c.Violation(fmt.Sprintf("errorness/%s/spec=%v", culprit(sn), predErr), fmt.Sprintf("%s: specification says error=%v, Decode says error=%v%s", desc, predErr, diags.HasErrors(), what), vec)
			return
		}
		// HclValues.tla does not model refinements of unknown values: where the specification says
		// "unknown of type T" an unknown of type T with refinements (RefineValueSpec) is that value
		if !predErr && predOK && !val.RawEquals(predVal) && !unrefined(val).RawEquals(predVal) {
			vsig := "value/" + culprit(sn)
			if d := valueDiff(val, predVal); d != "" {
				vsig = "value/" + d
			}
			c.Violation(vsig, fmt.Sprintf("%s: Decode returned %s, the specification describes %s", desc, e1.Describe(val), e1.Describe(predVal)), vec)
			return
		}
	}
	c.Nontrivial(desc)
	if len(items) >= 2 && len(sn.Sub) > 0 {
		c.Sample(map[string]any{"case": desc, "spec_error": predErr})
	}
}

func oneLine(s string) string {
	out := ""
	for _, r := range s {
		if r == '\n' {
			out += "; "
		} else {
			out += string(r)
		}
	}
	return out
}

// culprit names the spec kinds on the spine of the spec tree (signature component).
func culprit(s *dec.SpecNode) string {
	if len(s.Sub) == 0 {
		return s.K
	}
	return s.K + ">" + culprit(s.Sub[0])
}

// TypeDiff and ValueDiff are the root-cause namers, shared with C18.
func TypeDiff(vt, it cty.Type) string      { return typeDiff(vt, it, "") }
func ValueDiff(got, want cty.Value) string { return valueDiff(got, want) }

// typeDiff describes the first position where vt fails to conform to it:
// the enclosing type kind (only for non-dynamic mismatches), the wanted kind
// and whether the offending type is the dynamic pseudo-type.
func typeDiff(vt, it cty.Type, parent string) string {
	kind := func(t cty.Type) string {
		switch {
		case t == cty.DynamicPseudoType:
			return "dynamic"
		case t.IsPrimitiveType():
			return "primitive"
		case t.IsListType():
			return "list"
		case t.IsSetType():
			return "set"
		case t.IsMapType():
			return "map"
		case t.IsTupleType():
			return "tuple"
		case t.IsObjectType():
			return "object"
		}
		return "other"
	}
	if it == cty.DynamicPseudoType {
		return ""
	}
	mismatch := func() string {
		if vt == cty.DynamicPseudoType {
			return "want=" + kind(it) + ",got=dynamic"
		}
		return parent + ">want=" + kind(it) + ",got=nondynamic"
	}
	if kind(vt) != kind(it) {
		return mismatch()
	}
	switch {
	case it.IsPrimitiveType():
		if !vt.Equals(it) {
			return mismatch()
		}
	case it.IsCollectionType():
		return typeDiff(vt.ElementType(), it.ElementType(), kind(it))
	case it.IsTupleType():
		a, b := vt.TupleElementTypes(), it.TupleElementTypes()
		if len(a) != len(b) {
			return mismatch()
		}
		for i := range b {
			if d := typeDiff(a[i], b[i], "tuple"); d != "" {
				return d
			}
		}
	case it.IsObjectType():
		for n, at := range it.AttributeTypes() {
			if !vt.HasAttribute(n) {
				return mismatch()
			}
			if d := typeDiff(vt.AttributeType(n), at, "object"); d != "" {
				return d
			}
		}
		if len(vt.AttributeTypes()) != len(it.AttributeTypes()) {
			return mismatch()
		}
	}
	return ""
}

// unrefined replaces every unknown part of v by the plain unknown of its type.
func unrefined(v cty.Value) cty.Value {
	out, err := cty.Transform(v, func(_ cty.Path, x cty.Value) (cty.Value, error) {
		if !x.IsKnown() {
			return cty.UnknownVal(x.Type()), nil
		}
		return x, nil
	})
	if err != nil {
		return v
	}
	return out
}

// valueDiff names a recognisable root cause for a value mismatch ("" if none).
func valueDiff(got, want cty.Value) string {
	if got.RawEquals(want) || !got.IsKnown() || !want.IsKnown() || got.IsNull() || want.IsNull() {
		return ""
	}
	gt, wt := got.Type(), want.Type()
	if gt.IsMapType() && wt.IsMapType() && got.LengthInt() == 0 && want.LengthInt() == 0 && !gt.Equals(wt) {
		return "empty-map-element-type"
	}
	if (gt.IsTupleType() && wt.IsTupleType() || gt.IsListType() && wt.IsListType()) && got.LengthInt() == want.LengthInt() {
		g, w := got.AsValueSlice(), want.AsValueSlice()
		for i := range g {
			if d := valueDiff(g[i], w[i]); d != "" {
				return d
			}
		}
	}
	if (gt.IsObjectType() && wt.IsObjectType()) || (gt.IsMapType() && wt.IsMapType() && got.LengthInt() > 0 && want.LengthInt() > 0) {
		g, w := got.AsValueMap(), want.AsValueMap()
		for k, gv := range g {
			if wv, ok := w[k]; ok {
				if d := valueDiff(gv, wv); d != "" {
					return d
				}
			}
		}
	}
	return ""
}

// unknownBlocks wraps a body so that every block it returns has a body that implements
// hcldec.UnknownBody with Unknown() = true (and otherwise behaves like the original).
type unknownBlocks struct {
	hcl.Body
	only string // "" = the bodies of all blocks, otherwise only blocks of this type
}

type unknownBody struct{ hcl.Body }

func (unknownBody) Unknown() bool { return true }

func wrapBlocks(c *hcl.BodyContent, only string) *hcl.BodyContent {
	if c == nil {
		return nil
	}
	out := *c
	out.Blocks = nil
	for _, b := range c.Blocks {
		nb := *b
		if only == "" || b.Type == only {
			nb.Body = unknownBody{b.Body}
		}
		out.Blocks = append(out.Blocks, &nb)
	}
	return &out
}

func (u unknownBlocks) Content(schema *hcl.BodySchema) (*hcl.BodyContent, hcl.Diagnostics) {
	c, d := u.Body.Content(schema)
	return wrapBlocks(c, u.only), d
}

func (u unknownBlocks) PartialContent(schema *hcl.BodySchema) (*hcl.BodyContent, hcl.Body, hcl.Diagnostics) {
	c, rem, d := u.Body.PartialContent(schema)
	return wrapBlocks(c, u.only), unknownBlocks{rem, u.only}, d
}

// unifiable: for a top-level block list / set spec, decode every matching block on its own with
// the nested spec and report whether the resulting types have a common type (go-cty unification).
func unifiable(sn *dec.SpecNode, body hcl.Body) bool {
	if (sn.K != "blocklist" && sn.K != "blockset") || len(sn.Sub) != 1 {
		return false
	}
	ok := false
	func() {
		defer func() { recover() }()
		nested := sn.Sub[0].Build()
		content, _, _ := body.PartialContent(&hcl.BodySchema{Blocks: []hcl.BlockHeaderSchema{{Type: sn.Name}}})
		var tys []cty.Type
		for _, b := range content.Blocks {
			v, d := hcldec.Decode(b.Body, nested, dec.Ctx())
			if d.HasErrors() {
				return
			}
			tys = append(tys, v.Type())
		}
		if len(tys) < 2 {
			return
		}
		t, _ := convert.UnifyUnsafe(tys)
		ok = t != cty.NilType && !t.HasDynamicTypes()
	}()
	return ok
}
