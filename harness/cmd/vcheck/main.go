// vcheck <property> <quick|thorough>  |  vcheck <property> --replay <file>
package main

import (
	"encoding/json"
	"fmt"
	"os"
	"runtime/pprof"

	"verif/harness/core"
	"verif/harness/props"
)

func main() {
	if len(os.Args) < 3 {
		fmt.Println("usage: vcheck <Cxx> <quick|thorough> | vcheck <Cxx> --replay <file>")
		os.Exit(2)
	}
	id := os.Args[1]
	d, ok := props.Registry[id]
	if !ok {
		fmt.Printf("BROKEN property=%s no such check\n", id)
		os.Exit(2)
	}
	if os.Args[2] == "--replay" {
		if len(os.Args) < 4 {
			os.Exit(2)
		}
		b, err := os.ReadFile(os.Args[3])
		if err != nil {
			fmt.Println(err)
			os.Exit(2)
		}
		var rf struct {
			Vector json.RawMessage `json:"vector"`
		}
		if err := json.Unmarshal(b, &rf); err != nil {
			fmt.Println(err)
			os.Exit(2)
		}
		os.Setenv("VERIF_KEEP_REPLAYS", "1")
		c := core.NewCheck(id, "quick")
		c.ReplayMode = true
		d.Replay(c, rf.Vector)
		os.Exit(c.FinishReplay())
	}
	if pf := os.Getenv("VERIF_PPROF"); pf != "" {
		f, _ := os.Create(pf)
		pprof.StartCPUProfile(f)
		defer pprof.StopCPUProfile()
	}
	tier := os.Args[2]
	if tier != "quick" && tier != "thorough" {
		fmt.Println("tier must be quick or thorough")
		os.Exit(2)
	}
	c := core.NewCheck(id, tier)
	d.Run(c)
	rc := c.Finish()
	pprof.StopCPUProfile()
	os.Exit(rc)
}
