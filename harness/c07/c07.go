// Package c07: reported variable references are a complete dependency set.
package c07

import (
	"encoding/json"
	"fmt"
	"sort"
	"strings"

	"github.com/hashicorp/hcl/v2"
	"github.com/hashicorp/hcl/v2/hclsyntax"
	hcljson "github.com/hashicorp/hcl/v2/json"
	"github.com/zclconf/go-cty/cty"

	"verif/harness/core"
	"verif/harness/e1"
)

func roots(ts []hcl.Traversal) []string {
	m := map[string]bool{}
	for _, t := range ts {
		m[t.RootName()] = true
	}
	out := []string{}
	for k := range m {
		out = append(out, k)
	}
	sort.Strings(out)
	return out
}

// boundNames collects the iterator names bound anywhere in the AST.
func boundNames(n *e1.Node, into map[string]bool) {
	if n.K == "for" || n.K == "tfor" {
		into[n.S2] = true
		if n.N%4 != 0 {
			into[e1.KeyVarNames[n.N%4]] = true
		}
	}
	for _, s := range n.Sub {
		boundNames(s, into)
	}
}

func perturbed(full map[string]cty.Value, keep map[string]bool, variant int) map[string]cty.Value {
	out := map[string]cty.Value{}
	for k, v := range full {
		if keep[k] {
			out[k] = v
			continue
		}
		switch variant {
		case 0: // removed
		case 1: // changed value, different type
			if v.Type() == cty.String {
				out[k] = cty.NumberIntVal(424242)
			} else {
				out[k] = cty.StringVal("PERTURBED")
			}
		case 2: // null of the same type
			out[k] = cty.NullVal(v.Type())
		}
	}
	// names that are never in the base scope but may be bound or unknown
	if variant == 1 {
		for _, extra := range []string{"v", "k", "i", "zz"} {
			if !keep[extra] {
				if _, ok := out[extra]; !ok {
					out[extra] = cty.StringVal("EXTRA")
				}
			}
		}
	}
	return out
}

type evalFn func(vars map[string]cty.Value) (cty.Value, hcl.Diagnostics)

func checkSufficiency(c *core.Check, what, src string, v e1.Vector, reported []string, eval evalFn, vec map[string]any) bool {
	keep := map[string]bool{}
	for _, r := range reported {
		keep[r] = true
	}
	full := e1.Scope()
	var v0 cty.Value
	var d0 hcl.Diagnostics
	if rec, p := core.Guard(func() { v0, d0 = eval(full) }); p {
		c.Violation("panic/"+what+"/"+e1.Fam(v.Node), fmt.Sprintf("%s %q: evaluation panicked: %v", what, src, rec), vec)
		return false
	}
	for variant := 0; variant < 3; variant++ {
		var v1 cty.Value
		var d1 hcl.Diagnostics
		sc := perturbed(full, keep, variant)
		if rec, p := core.Guard(func() { v1, d1 = eval(sc) }); p {
			c.Violation("panic/"+what+"/"+e1.Fam(v.Node), fmt.Sprintf("%s %q: evaluation panicked in a perturbed scope: %v", what, src, rec), vec)
			return false
		}
		c.Count("evaluations", 1)
		if !v0.RawEquals(v1) || !e1.SameDiags(d0, d1) {
			names := []string{"pruned to the reported roots", "unreported variables changed", "unreported variables null"}
			c.Violation("insufficient/"+what+"/"+e1.Fam(v.Node),
				fmt.Sprintf("%s %q reports roots %v, but evaluation with %s differs: %s %v vs %s %v", what, src, reported, names[variant],
					e1.Describe(v0), e1.NormDiags(d0), e1.Describe(v1), e1.NormDiags(d1)), vec)
			return false
		}
	}
	return true
}

// Handle checks one E1 vector in native syntax and as a JSON template string.
func Handle(c *core.Check, st core.State) {
	v, err := e1.DecodeVector(st)
	if err != nil {
		c.Broken("%v", err)
		return
	}
	c.Count("vectors_replayed", 1)
	src := e1.Render(v.Node, e1.Layout{})
	vec := map[string]any{"state": st.Raw, "source": src}
	bound := map[string]bool{}
	boundNames(v.Node, bound)
	fv := map[string]bool{}
	for _, x := range v.FV {
		fv[x] = true
	}
	checkReported := func(what string, reported []string) bool {
		for _, r := range reported {
			if bound[r] && !fv[r] {
				c.Violation("bound-name-reported/"+what+"/"+e1.Fam(v.Node), fmt.Sprintf("%s %q reports %q, which is only ever bound by an iterator", what, src, r), vec)
				return false
			}
		}
		// conformance with the specification's FreeVars (completeness is the verdict-relevant half)
		rep := map[string]bool{}
		for _, r := range reported {
			rep[r] = true
		}
		for x := range fv {
			if !rep[x] {
				// not reported although free per the specification: sufficiency check below decides
				c.Count("spec_freevar_unreported", 1)
			}
		}
		return true
	}

	// native
	expr, diags := hclsyntax.ParseExpression([]byte(src), "e.hcl", hcl.InitialPos)
	if diags.HasErrors() {
		c.Broken("generated expression does not parse (C01 owns this): %q: %s", src, diags.Error())
		return
	}
	var rep []string
	if rec, p := core.Guard(func() { rep = roots(expr.Variables()) }); p {
		c.Violation("panic/Variables/"+e1.Fam(v.Node), fmt.Sprintf("Variables() of %q panicked: %v", src, rec), vec)
		return
	}
	ok := checkReported("native", rep)
	if ok {
		ok = checkSufficiency(c, "native", src, v, rep, func(vars map[string]cty.Value) (cty.Value, hcl.Diagnostics) {
			return expr.Value(&hcl.EvalContext{Variables: vars, Functions: e1.Functions()})
		}, vec)
	}

	// JSON: the same expression as a template string, and as an object key template
	if ok && !strings.Contains(src, "\n") {
		js, _ := json.Marshal("${" + src + "}")
		jexpr, jd := hcljson.ParseExpression(js, "e.json")
		if jd.HasErrors() {
			c.Broken("JSON wrapping of %q does not parse: %s", src, jd.Error())
			return
		}
		var jrep []string
		if rec, p := core.Guard(func() { jrep = roots(jexpr.Variables()) }); p {
			c.Violation("panic/Variables-json/"+e1.Fam(v.Node), fmt.Sprintf("json Variables() of %s panicked: %v", js, rec), vec)
			return
		}
		if checkReported("json-string", jrep) {
			ok = checkSufficiency(c, "json-string", string(js), v, jrep, func(vars map[string]cty.Value) (cty.Value, hcl.Diagnostics) {
				return jexpr.Value(&hcl.EvalContext{Variables: vars, Functions: e1.Functions()})
			}, vec)
		}
		// references that occur only inside template directives (no interpolation sequence at all)
		for _, tsrc := range []string{"%{ if " + src + " }yes%{ endif }", "x{y}%{ for q in " + src + " }-%{ endfor }"} {
			if !ok {
				break
			}
			djs, _ := json.Marshal(tsrc)
			dexpr, dd := hcljson.ParseExpression(djs, "d.json")
			if dd.HasErrors() {
				continue
			}
			var drep []string
			if rec, p := core.Guard(func() { drep = roots(dexpr.Variables()) }); p {
				c.Violation("panic/Variables-json/"+e1.Fam(v.Node), fmt.Sprintf("json Variables() of %s panicked: %v", djs, rec), vec)
				return
			}
			ok = checkSufficiency(c, "json-directive", string(djs), v, drep, func(vars map[string]cty.Value) (cty.Value, hcl.Diagnostics) {
				return dexpr.Value(&hcl.EvalContext{Variables: vars, Functions: e1.Functions()})
			}, vec)
		}
		if ok {
			kjs := []byte(`{"p-` + string(js[1:len(js)-1]) + `": ` + `"${n2}"` + `}`)
			kexpr, kd := hcljson.ParseExpression(kjs, "k.json")
			if kd.HasErrors() {
				c.Broken("JSON key wrapping does not parse: %s", kd.Error())
				return
			}
			var krep []string
			if rec, p := core.Guard(func() { krep = roots(kexpr.Variables()) }); p {
				c.Violation("panic/Variables-json/"+e1.Fam(v.Node), fmt.Sprintf("json Variables() of %s panicked: %v", kjs, rec), vec)
				return
			}
			if checkReported("json-key", krep) {
				ok = checkSufficiency(c, "json-key", string(kjs), v, krep, func(vars map[string]cty.Value) (cty.Value, hcl.Diagnostics) {
					return kexpr.Value(&hcl.EvalContext{Variables: vars, Functions: e1.Functions()})
				}, vec)
			}
		}
	}
	if ok && len(rep) > 0 {
		c.Nontrivial(src)
		if len(bound) > 0 {
			c.Sample(map[string]any{"source": src, "reported_roots": rep, "spec_free_vars": v.FV})
		}
	}
}
