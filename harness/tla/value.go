// Package tla parses the textual form of TLA+ values as printed by TLC
// (state dumps, simulation traces) into plain Go values:
//
//	record  [a |-> 1, b |-> "x"]   -> map[string]any
//	tuple   <<1, 2>>               -> []any
//	set     {1, 2}                 -> Set ([]any wrapper)
//	func    (1 :> "a" @@ 2 :> "b") -> Func (list of pairs)
//	string, int, bool              -> string, int, bool
package tla

import (
	"fmt"
	"strconv"
	"strings"
)

type Set []any

type Pair struct{ K, V any }
type Func []Pair

type parser struct {
	s string
	i int
}

func Parse(s string) (v any, err error) {
	p := &parser{s: s}
	defer func() {
		if r := recover(); r != nil {
			err = fmt.Errorf("tla parse error at %d: %v (near %q)", p.i, r, snippet(p.s, p.i))
		}
	}()
	v = p.value()
	p.ws()
	if p.i != len(p.s) {
		panic("trailing input")
	}
	return v, nil
}

func snippet(s string, i int) string {
	a, b := i-20, i+20
	if a < 0 {
		a = 0
	}
	if b > len(s) {
		b = len(s)
	}
	return s[a:b]
}

func (p *parser) ws() {
	for p.i < len(p.s) && (p.s[p.i] == ' ' || p.s[p.i] == '\n' || p.s[p.i] == '\t' || p.s[p.i] == '\r') {
		p.i++
	}
}

func (p *parser) has(tok string) bool {
	p.ws()
	return strings.HasPrefix(p.s[p.i:], tok)
}

func (p *parser) eat(tok string) bool {
	if p.has(tok) {
		p.i += len(tok)
		return true
	}
	return false
}

func (p *parser) must(tok string) {
	if !p.eat(tok) {
		panic("expected " + tok)
	}
}

func (p *parser) value() any {
	p.ws()
	if p.i >= len(p.s) {
		panic("unexpected end")
	}
	c := p.s[p.i]
	switch {
	case c == '"':
		return p.str()
	case c == '[':
		p.i++
		m := map[string]any{}
		if p.eat("]") {
			return m
		}
		for {
			p.ws()
			st := p.i
			for p.i < len(p.s) && (isIdent(p.s[p.i])) {
				p.i++
			}
			name := p.s[st:p.i]
			p.must("|->")
			m[name] = p.value()
			if p.eat(",") {
				continue
			}
			p.must("]")
			return m
		}
	case strings.HasPrefix(p.s[p.i:], "<<"):
		p.i += 2
		out := []any{}
		if p.eat(">>") {
			return out
		}
		for {
			out = append(out, p.value())
			if p.eat(",") {
				continue
			}
			p.must(">>")
			return out
		}
	case c == '{':
		p.i++
		out := Set{}
		if p.eat("}") {
			return out
		}
		for {
			out = append(out, p.value())
			if p.eat(",") {
				continue
			}
			p.must("}")
			return out
		}
	case c == '(':
		p.i++
		f := Func{}
		for {
			k := p.value()
			p.must(":>")
			v := p.value()
			f = append(f, Pair{k, v})
			if p.eat("@@") {
				continue
			}
			p.must(")")
			return f
		}
	case c == '-' || (c >= '0' && c <= '9'):
		st := p.i
		p.i++
		for p.i < len(p.s) && p.s[p.i] >= '0' && p.s[p.i] <= '9' {
			p.i++
		}
		n, err := strconv.Atoi(p.s[st:p.i])
		if err != nil {
			panic(err)
		}
		return n
	case strings.HasPrefix(p.s[p.i:], "TRUE"):
		p.i += 4
		return true
	case strings.HasPrefix(p.s[p.i:], "FALSE"):
		p.i += 5
		return false
	default:
		// model value / identifier
		st := p.i
		for p.i < len(p.s) && isIdent(p.s[p.i]) {
			p.i++
		}
		if st == p.i {
			panic("unexpected character")
		}
		return p.s[st:p.i]
	}
}

func isIdent(c byte) bool {
	return c == '_' || (c >= 'a' && c <= 'z') || (c >= 'A' && c <= 'Z') || (c >= '0' && c <= '9')
}

func (p *parser) str() string {
	p.i++ // opening quote
	var sb strings.Builder
	for {
		if p.i >= len(p.s) {
			panic("unterminated string")
		}
		c := p.s[p.i]
		p.i++
		switch c {
		case '"':
			return sb.String()
		case '\\':
			if p.i >= len(p.s) {
				panic("bad escape")
			}
			e := p.s[p.i]
			p.i++
			switch e {
			case 'n':
				sb.WriteByte('\n')
			case 't':
				sb.WriteByte('\t')
			case 'r':
				sb.WriteByte('\r')
			case 'f':
				sb.WriteByte('\f')
			default:
				sb.WriteByte(e)
			}
		default:
			sb.WriteByte(c)
		}
	}
}

// Helpers for navigating parsed values.

func Rec(v any) map[string]any {
	m, ok := v.(map[string]any)
	if !ok {
		panic(fmt.Sprintf("tla: expected record, got %T %v", v, v))
	}
	return m
}

func Seq(v any) []any {
	switch t := v.(type) {
	case []any:
		return t
	case Set:
		return []any(t)
	case Func:
		// functions with domain 1..n print as tuples; anything else is an error
		out := make([]any, len(t))
		for i, p := range t {
			out[i] = p.V
		}
		return out
	}
	panic(fmt.Sprintf("tla: expected sequence, got %T %v", v, v))
}

func Str(v any) string {
	s, ok := v.(string)
	if !ok {
		panic(fmt.Sprintf("tla: expected string, got %T %v", v, v))
	}
	return s
}

func Int(v any) int {
	s, ok := v.(int)
	if !ok {
		panic(fmt.Sprintf("tla: expected int, got %T %v", v, v))
	}
	return s
}

func Bool(v any) bool {
	s, ok := v.(bool)
	if !ok {
		panic(fmt.Sprintf("tla: expected bool, got %T %v", v, v))
	}
	return s
}

func Strs(v any) []string {
	sq := Seq(v)
	out := make([]string, len(sq))
	for i, x := range sq {
		out[i] = Str(x)
	}
	return out
}

// Format renders a parsed value back to TLA+ syntax (for replay files and
// trace files consumed by TLC).
func Format(v any) string {
	var sb strings.Builder
	format(&sb, v)
	return sb.String()
}

func format(sb *strings.Builder, v any) {
	switch t := v.(type) {
	case string:
		sb.WriteString(strconv.Quote(t))
	case int:
		sb.WriteString(strconv.Itoa(t))
	case bool:
		if t {
			sb.WriteString("TRUE")
		} else {
			sb.WriteString("FALSE")
		}
	case []any:
		sb.WriteString("<<")
		for i, x := range t {
			if i > 0 {
				sb.WriteString(", ")
			}
			format(sb, x)
		}
		sb.WriteString(">>")
	case Set:
		sb.WriteString("{")
		for i, x := range t {
			if i > 0 {
				sb.WriteString(", ")
			}
			format(sb, x)
		}
		sb.WriteString("}")
	case map[string]any:
		keys := make([]string, 0, len(t))
		for k := range t {
			keys = append(keys, k)
		}
		sortStrings(keys)
		sb.WriteString("[")
		for i, k := range keys {
			if i > 0 {
				sb.WriteString(", ")
			}
			sb.WriteString(k)
			sb.WriteString(" |-> ")
			format(sb, t[k])
		}
		sb.WriteString("]")
	default:
		panic(fmt.Sprintf("tla.Format: unsupported %T", v))
	}
}

func sortStrings(a []string) {
	for i := 1; i < len(a); i++ {
		for j := i; j > 0 && a[j] < a[j-1]; j-- {
			a[j], a[j-1] = a[j-1], a[j]
		}
	}
}
