// Package gap turns MC_Gap states (base AST + gap edits at token boundaries) into configuration texts.
package gap

import (
	"strings"

	"github.com/hashicorp/hcl/v2"
	"github.com/hashicorp/hcl/v2/hclsyntax"

	"verif/harness/core"
	"verif/harness/e1"
	"verif/harness/tla"
)

var gapText = map[string]string{
	"TAB": "\t", "NL": "\n", "CRLF": "\r\n", " # c NL": " # c\n", "// c NL": "// c\n", "NL NL": "\n\n",
}

type Edit struct {
	P int
	T string
}

func text(t string) string {
	if s, ok := gapText[t]; ok {
		return s
	}
	return t
}

// Vector is one decoded MC_Gap state.
type Vector struct {
	Node   *e1.Node
	Edits  []Edit
	Spaced bool // the base is rendered with a blank between every pair of tokens (BaseMode "spaced")
}

func Decode(st core.State) Vector {
	v := Vector{Node: e1.DecodeNode(st.Vars["e"])}
	for _, g := range tla.Seq(st.Vars["gaps"]) {
		m := tla.Rec(g)
		v.Edits = append(v.Edits, Edit{P: tla.Int(m["p"]), T: tla.Str(m["t"])})
	}
	return v
}

// applyEdits replaces the material at the given token boundaries of src. Boundary p lies between
// token first+p and token first+p+1 of the LexConfig token sequence (EOF excluded). ok=false when
// an edit addresses a boundary the source does not have.
func applyEdits(src string, first int, edits []Edit) (string, bool) {
	toks, _ := hclsyntax.LexConfig([]byte(src), "x.hcl", hcl.InitialPos)
	if n := len(toks); n > 0 && toks[n-1].Type == hclsyntax.TokenEOF {
		toks = toks[:n-1]
	}
	out := src
	for i := len(edits) - 1; i >= 0; i-- {
		a := first + edits[i].P
		if a+1 >= len(toks) {
			return "", false
		}
		lo, hi := toks[a].Range.End.Byte, toks[a+1].Range.Start.Byte
		if hi < lo {
			return "", false
		}
		out = out[:lo] + text(edits[i].T) + out[hi:]
	}
	return out, true
}

// Sources renders the vector: the expression as a top-level attribute and as an attribute inside a
// block, with the gap edits applied at the boundaries counted from the "=" token.
func (v Vector) Sources() []string {
	x := e1.Render(v.Node, e1.Layout{})
	if v.Spaced {
		x = e1.Render(v.Node, e1.Layout{Mode: 4})
	}
	if strings.Contains(x, "\n") {
		return nil
	}
	var out []string
	// tokens: a = <expr...> NL ...            -> "=" is token 1
	if s, ok := applyEdits("a = "+x+"\nb = 1\n", 1, v.Edits); ok {
		out = append(out, s)
	}
	// tokens: blk { NL a = <expr...> NL } NL -> "=" is token 4
	if s, ok := applyEdits("blk {\n  a = "+x+"\n}\n", 4, v.Edits); ok {
		out = append(out, s)
	}
	return out
}
