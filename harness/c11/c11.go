// Package c11: generated source reads back as the value it was generated from.
package c11

import (
	"fmt"
	"math/rand"
	"strings"

	"github.com/hashicorp/hcl/v2"
	"github.com/hashicorp/hcl/v2/hclsyntax"
	"github.com/hashicorp/hcl/v2/hclwrite"
	"github.com/zclconf/go-cty/cty"
	"github.com/zclconf/go-cty/cty/convert"

	"verif/harness/core"
	"verif/harness/e1"
	"verif/harness/tla"
)

// representatives per character class; the seed picks one per run
var reps = map[string][]string{
	"a": {"a", "x", "Z"}, "b": {"b", "q", "_"},
	"SP": {" "}, "NL": {"\n"}, "CR": {"\r"}, "TAB": {"\t"}, "DQ": {`"`}, "BS": {`\`},
	"DOLLAR": {"$"}, "PCT": {"%"}, "LBRACE": {"{"}, "RBRACE": {"}"},
	"CTRL":   {"\x01", "\x7f", "\u0085", "\u200b", "\x00", "\ufeff"},
	"ASTRAL": {"\U000E0001", "\U0010FFFF", "\U0001F600"},
	"MB":     {"é", "ß", "日", "ж"},
	"COMB":   {"\u0301", "\u0308"},
}

var numbers = []string{"", "0", "1", "-1", "0.5", "0.1", "1e100", "-1e-20", "123456789012345678901234567890",
	"3.14159265358979323846264338327950288", "1e-7", "18446744073709551616", "-0.000001"}

var nullTypes = []cty.Type{cty.NilType, cty.DynamicPseudoType, cty.String, cty.List(cty.String)}

type conv struct {
	rng  *rand.Rand
	pick map[string]string
}

func newConv(seed int64) *conv {
	c := &conv{pick: map[string]string{}}
	r := rand.New(rand.NewSource(seed))
	for cl, rs := range reps {
		c.pick[cl] = rs[r.Intn(len(rs))]
	}
	return c
}

func (cv *conv) str(m map[string]any) string {
	if w := tla.Str(m["kw"]); w != "" || len(tla.Seq(m["cs"])) == 0 {
		return w
	}
	var sb strings.Builder
	for _, c := range tla.Strs(m["cs"]) {
		sb.WriteString(cv.pick[c])
	}
	return sb.String()
}

func (cv *conv) value(v any) (cty.Value, bool) {
	m := tla.Rec(v)
	switch tla.Str(m["k"]) {
	case "str":
		return cty.StringVal(cv.str(m)), true
	case "num":
		return cty.MustParseNumberVal(numbers[tla.Int(m["n"])]), true
	case "bool":
		return cty.BoolVal(tla.Int(m["n"]) == 1), true
	case "null":
		return cty.NullVal(nullTypes[tla.Int(m["n"])]), true
	}
	var els []cty.Value
	for _, e := range tla.Seq(m["e"]) {
		ev, ok := cv.value(e)
		if !ok {
			return cty.NilVal, false
		}
		els = append(els, ev)
	}
	switch tla.Str(m["k"]) {
	case "tup":
		return cty.TupleVal(els), true
	case "list":
		if len(els) == 0 || !cty.CanListVal(els) {
			return cty.NilVal, false
		}
		return cty.ListVal(els), true
	case "set":
		if len(els) == 0 || !cty.CanSetVal(els) {
			return cty.NilVal, false
		}
		return cty.SetVal(els), true
	case "obj", "map":
		mv := map[string]cty.Value{}
		for i, k := range tla.Seq(m["keys"]) {
			ks := cty.StringVal(cv.str(tla.Rec(k))).AsString()
			if _, dup := mv[ks]; dup {
				return cty.NilVal, false
			}
			mv[ks] = els[i]
		}
		if tla.Str(m["k"]) == "obj" {
			return cty.ObjectVal(mv), true
		}
		if !cty.CanMapVal(mv) {
			return cty.NilVal, false
		}
		return cty.MapVal(mv), true
	}
	return cty.NilVal, false
}

func readBack(src []byte, want cty.Value) string {
	expr, diags := hclsyntax.ParseExpression(src, "gen.hcl", hcl.InitialPos)
	if diags.HasErrors() {
		return "does not parse: " + diags.Error()
	}
	got, vd := expr.Value(nil)
	if vd.HasErrors() {
		return "does not evaluate: " + vd.Error()
	}
	cv, err := convert.Convert(got, want.Type())
	if err != nil {
		return fmt.Sprintf("evaluates to %s, which does not convert to the original type %s", e1.Describe(got), want.Type().FriendlyName())
	}
	if !cv.RawEquals(want) {
		return fmt.Sprintf("reads back as %s", e1.Describe(cv))
	}
	return ""
}

func kindOf(v cty.Value) string {
	t := v.Type()
	switch {
	case v.IsNull():
		return "null"
	case t == cty.String:
		return "string"
	case t == cty.Number:
		return "number"
	case t == cty.Bool:
		return "bool"
	case t.IsObjectType():
		return "object"
	case t.IsMapType():
		return "map"
	case t.IsTupleType():
		return "tuple"
	case t.IsListType():
		return "list"
	case t.IsSetType():
		return "set"
	}
	return "other"
}

func Handle(c *core.Check, st core.State) {
	cv := newConv(c.Seed)
	val, ok := cv.value(st.Vars["v"])
	if !ok {
		c.Count("not_constructible", 1)
		return
	}
	c.Count("vectors_replayed", 1)
	vec := map[string]any{"state": st.Raw, "value": e1.Describe(val), "seed": c.Seed}
	kind := kindOf(val)
	// 1. TokensForValue
	var src []byte
	c.Count("evaluations", 1)
	if rec, p := core.Guard(func() { src = hclwrite.TokensForValue(val).Bytes() }); p {
		c.Violation("panic/TokensForValue/"+kind, fmt.Sprintf("TokensForValue(%s) panicked: %v", e1.Describe(val), rec), vec)
		return
	}
	vec["source"] = string(src)
	if m := readBack(src, val); m != "" {
		c.Violation("tokens-for-value/"+kind+"/"+classify(m), fmt.Sprintf("TokensForValue(%s) = %q %s", e1.Describe(val), src, m), vec)
		return
	}
	// 2. SetAttributeValue in a file
	var fsrc []byte
	if rec, p := core.Guard(func() {
		// the body the attribute is written into varies with the vector: empty; loaded with an
		// attribute x to overwrite; x created by renaming another attribute; x renamed away before
		f := hclwrite.NewEmptyFile()
		switch len(src) % 4 {
		case 1:
			f, _ = hclwrite.ParseConfig([]byte("w = 1 # c\nx = 0\n"), "base.hcl", hcl.InitialPos)
		case 2:
			f.Body().SetAttributeValue("w", cty.True)
			f.Body().RenameAttribute("w", "x")
		case 3:
			f.Body().SetAttributeValue("x", cty.False)
			f.Body().RenameAttribute("x", "w")
		}
		f.Body().SetAttributeValue("x", val)
		fsrc = f.Bytes()
	}); p {
		c.Violation("panic/SetAttributeValue/"+kind, fmt.Sprintf("SetAttributeValue(%s) panicked: %v", e1.Describe(val), rec), vec)
		return
	}
	pf, pd := hclsyntax.ParseConfig(fsrc, "gen.hcl", hcl.InitialPos)
	if pd.HasErrors() {
		c.Violation("set-attribute-value/"+kind+"/parse", fmt.Sprintf("file written by SetAttributeValue(%s) = %q does not parse: %s", e1.Describe(val), fsrc, pd.Error()), vec)
		return
	}
	attrs, _ := pf.Body.JustAttributes()
	if a, ok := attrs["x"]; !ok {
		c.Violation("set-attribute-value/"+kind+"/missing", fmt.Sprintf("file %q lacks attribute x", fsrc), vec)
		return
	} else {
		got, gd := a.Expr.Value(nil)
		conv, err := convert.Convert(got, val.Type())
		if gd.HasErrors() || err != nil || !conv.RawEquals(val) {
			c.Violation("set-attribute-value/"+kind+"/value", fmt.Sprintf("SetAttributeValue(%s) wrote %q, which reads back as %s", e1.Describe(val), fsrc, e1.Describe(got)), vec)
			return
		}
	}
	// 3. strings as block labels and as traversal keys
	if val.Type() == cty.String && !val.IsNull() {
		s := val.AsString()
		var bsrc []byte
		var handleLabels []string
		if rec, p := core.Guard(func() {
			f := hclwrite.NewEmptyFile()
			b := f.Body().AppendNewBlock("blk", []string{s, "second"})
			b2 := hclwrite.NewBlock("other", nil)
			b2.SetLabels([]string{s})
			f.Body().AppendBlock(b2)
			handleLabels = append(b.Labels(), b2.Labels()...)
			bsrc = f.Bytes()
		}); p {
			c.Violation("panic/labels", fmt.Sprintf("writing label %q panicked: %v", s, rec), vec)
			return
		}
		bf, bd := hclsyntax.ParseConfig(bsrc, "gen.hcl", hcl.InitialPos)
		if bd.HasErrors() {
			c.Violation("labels/parse", fmt.Sprintf("blocks written with label %q = %q do not parse: %s", s, bsrc, bd.Error()), vec)
			return
		}
		blocks := bf.Body.(*hclsyntax.Body).Blocks
		if len(blocks) != 2 || len(blocks[0].Labels) != 2 || blocks[0].Labels[0] != s || blocks[0].Labels[1] != "second" || len(blocks[1].Labels) != 1 || blocks[1].Labels[0] != s {
			c.Violation("labels/readback", fmt.Sprintf("blocks written with label %q = %q read back with different labels", s, bsrc), vec)
			return
		}
		if len(handleLabels) != 3 || handleLabels[0] != s || handleLabels[2] != s {
			c.Violation("labels/accessor", fmt.Sprintf("Block.Labels() after writing label %q returns %q", s, handleLabels), vec)
			return
		}
		// traversal with the string as index key (and as attribute step if it is an identifier)
		trav := hcl.Traversal{hcl.TraverseRoot{Name: "r"}, hcl.TraverseIndex{Key: val}, hcl.TraverseIndex{Key: cty.NumberIntVal(3)}, hcl.TraverseAttr{Name: "tail"}}
		if plainIdent(s) {
			trav = append(trav, hcl.TraverseAttr{Name: s})
		}
		var tsrc []byte
		if rec, p := core.Guard(func() { tsrc = hclwrite.TokensForTraversal(trav).Bytes() }); p {
			c.Violation("panic/TokensForTraversal", fmt.Sprintf("TokensForTraversal with key %q panicked: %v", s, rec), vec)
			return
		}
		te, td := hclsyntax.ParseExpression(tsrc, "gen.hcl", hcl.InitialPos)
		if td.HasErrors() {
			c.Violation("traversal/parse", fmt.Sprintf("TokensForTraversal with key %q = %q does not parse: %s", s, tsrc, td.Error()), vec)
			return
		}
		got, gd := hcl.AbsTraversalForExpr(te)
		if gd.HasErrors() || len(got) != len(trav) {
			c.Violation("traversal/shape", fmt.Sprintf("TokensForTraversal with key %q = %q does not read back as a traversal of %d steps", s, tsrc, len(trav)), vec)
			return
		}
		for i := range trav {
			same := false
			switch w := trav[i].(type) {
			case hcl.TraverseRoot:
				g, ok := got[i].(hcl.TraverseRoot)
				same = ok && g.Name == w.Name
			case hcl.TraverseAttr:
				g, ok := got[i].(hcl.TraverseAttr)
				same = ok && g.Name == w.Name
			case hcl.TraverseIndex:
				g, ok := got[i].(hcl.TraverseIndex)
				same = ok && g.Key.RawEquals(w.Key)
			}
			if !same {
				c.Violation("traversal/step", fmt.Sprintf("TokensForTraversal with key %q = %q: step %d reads back as %#v", s, tsrc, i, got[i]), vec)
				return
			}
		}
	}
	c.Nontrivial(e1.Describe(val))
	if kind != "string" && kind != "number" {
		c.Sample(map[string]any{"value": e1.Describe(val), "source": string(src)})
	}
}

func classify(m string) string {
	switch {
	case strings.HasPrefix(m, "does not parse"):
		return "parse"
	case strings.HasPrefix(m, "does not evaluate"):
		return "evaluate"
	case strings.HasPrefix(m, "evaluates to"):
		return "type"
	}
	return "value"
}

// plainIdent is a conservative identifier test for attribute steps (ASCII letters,
// digits, underscore and the multi-byte letters used as representatives).
func plainIdent(s string) bool {
	if s == "" {
		return false
	}
	for i, r := range s {
		letter := (r >= 'a' && r <= 'z') || (r >= 'A' && r <= 'Z') || r == '_' || r == 'é' || r == 'ß' || r == '日' || r == 'ж'
		if i == 0 && !letter {
			return false
		}
		if !letter && !(r >= '0' && r <= '9') {
			return false
		}
	}
	return true
}
