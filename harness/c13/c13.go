// Package c13: the JSON syntax accepts exactly JSON and maps literals faithfully.
package c13

import (
	"bytes"
	stdjson "encoding/json"
	"fmt"
	"hash/fnv"
	"io"
	"math/rand"
	"strings"
	"unicode/utf8"

	"github.com/hashicorp/hcl/v2"
	"github.com/hashicorp/hcl/v2/hclsyntax"
	hcljson "github.com/hashicorp/hcl/v2/json"
	"github.com/zclconf/go-cty/cty"

	"verif/harness/core"
	"verif/harness/e1"
	"verif/harness/tla"
)

var reps = map[string][]string{
	"LB": {"{"}, "RB": {"}"}, "LK": {"["}, "RK": {"]"}, "COMMA": {","}, "COLON": {":"}, "DQ": {`"`}, "BS": {`\`},
	"SP":   {" "},
	"NLWS": {"\t", "\n", "\r"},
	// ordinary characters, including ones that matter to grapheme-cluster segmentation (column counting):
	// a combining mark and a zero-width joiner; "prepend" characters, which form one cluster with whatever
	// FOLLOWS them, are a class of their own
	"CH":   {"a", "Z", "é", "😀", "'", "$", "~", "\u0301", "\u200d"},
	"PRE":  {"\u0600", "\U000110BD", "\u06dd"},
	"ESCL": {"n", "t", "r", "b", "f", "/"},
	"U4":   {"u0041", "uD83D", "u00e9", "u0000", "uDE00", "u2028"},
	"U2":   {"u0g", "uZZ"},
	"N0":   {"0"}, "N1": {"1", "7", "9", "9007199254740993", "123456789012345678901234567890", "18446744073709551617"}, "MINUS": {"-"}, "PLUS": {"+"}, "DOT": {"."}, "EXP": {"e", "E"},
	"LIT":    {"true", "false", "null"},
	"CTRL":   {"\x01", "\x1f", "\x00", "\x0b"},
	"BADUTF": {"\xff", "\xc3\x28", "\xed\xa0\x80"},
}

type picker struct{ pick map[string]string }

func newPicker(seed int64) *picker {
	p := &picker{pick: map[string]string{}}
	r := rand.New(rand.NewSource(seed))
	keys := make([]string, 0, len(reps))
	for k := range reps {
		keys = append(keys, k)
	}
	// deterministic order
	for i := 0; i < len(keys); i++ {
		for j := i + 1; j < len(keys); j++ {
			if keys[j] < keys[i] {
				keys[i], keys[j] = keys[j], keys[i]
			}
		}
	}
	for _, k := range keys {
		p.pick[k] = reps[k][r.Intn(len(reps[k]))]
	}
	return p
}

// SourceOf instantiates the class string of an MC_C13 state with the first representative of each class
// (for other checks that only need the bytes).
func SourceOf(st core.State) []byte {
	var sb strings.Builder
	for _, cl := range tla.Strs(st.Vars["s"]) {
		if r := reps[cl]; len(r) > 0 {
			sb.WriteString(r[0])
		}
	}
	return []byte(sb.String())
}

// streaming decode with encoding/json: value and duplicate-name detection
func decode(dec *stdjson.Decoder) (cty.Value, bool, error) {
	t, err := dec.Token()
	if err != nil {
		return cty.NilVal, false, err
	}
	switch tv := t.(type) {
	case stdjson.Delim:
		switch tv {
		case '{':
			m := map[string]cty.Value{}
			dup := false
			for dec.More() {
				kt, err := dec.Token()
				if err != nil {
					return cty.NilVal, false, err
				}
				k := cty.StringVal(kt.(string)).AsString()
				v, d, err := decode(dec)
				if err != nil {
					return cty.NilVal, false, err
				}
				if _, ok := m[k]; ok {
					dup = true
				}
				dup = dup || d
				m[k] = v
			}
			if _, err := dec.Token(); err != nil {
				return cty.NilVal, false, err
			}
			return cty.ObjectVal(m), dup, nil
		case '[':
			var els []cty.Value
			dup := false
			for dec.More() {
				v, d, err := decode(dec)
				if err != nil {
					return cty.NilVal, false, err
				}
				dup = dup || d
				els = append(els, v)
			}
			if _, err := dec.Token(); err != nil {
				return cty.NilVal, false, err
			}
			return cty.TupleVal(els), dup, nil
		}
	case string:
		return cty.StringVal(tv), false, nil
	case stdjson.Number:
		n, err := cty.ParseNumberVal(string(tv))
		if err != nil {
			return cty.NilVal, false, err
		}
		return n, false, nil
	case bool:
		return cty.BoolVal(tv), false, nil
	case nil:
		return cty.NullVal(cty.DynamicPseudoType), false, nil
	}
	return cty.NilVal, false, fmt.Errorf("unexpected token %v", t)
}

func Handle(c *core.Check, st core.State) {
	classes := tla.Strs(st.Vars["s"])
	if len(classes) == 0 {
		return
	}
	mode := tla.Str(tla.Rec(st.Vars["st"])["mode"])
	stack := tla.Seq(tla.Rec(st.Vars["st"])["stack"])
	isKey := tla.Bool(tla.Rec(st.Vars["st"])["key"])
	accept := len(stack) == 0 && !isKey && (mode == "after" || mode == "zero" || mode == "int" || mode == "frac" || mode == "exp")
	// representatives vary per vector (seed + hash of the class string), so that every
	// representative of a class meets every context over the run
	h := fnv.New64a()
	h.Write([]byte(strings.Join(classes, " ")))
	p := newPicker(c.Seed + int64(h.Sum64()%100003))
	hasExp := false
	for _, cl := range classes {
		hasExp = hasExp || cl == "EXP"
	}
	var sb strings.Builder
	hasBad := false
	for _, cl := range classes {
		if cl == "N1" && hasExp && len(p.pick[cl]) > 1 {
			// an exponent with dozens of digits overflows the number representation, where
			// spec.md allows an error; keep exponents small
			sb.WriteString("7")
			continue
		}
		sb.WriteString(p.pick[cl])
		if cl == "BADUTF" {
			hasBad = true
		}
	}
	src := []byte(sb.String())
	c.Count("vectors_replayed", 1)
	c.Count("evaluations", 1)
	vec := map[string]any{"state": st.Raw, "source": string(src), "classes": strings.Join(classes, " "), "seed": c.Seed}
	// calibration of the recogniser against an independent one
	if !hasBad {
		if stdjson.Valid(src) != accept {
			c.Broken("recogniser drift: %q (%s): Json8259 accepts=%v, encoding/json.Valid=%v", src, strings.Join(classes, " "), accept, stdjson.Valid(src))
			return
		}
	}
	var expr hcl.Expression
	var diags hcl.Diagnostics
	if rec, pn := core.Guard(func() { expr, diags = hcljson.ParseExpression(src, "x.json") }); pn {
		c.Violation("panic/ParseExpression", fmt.Sprintf("json.ParseExpression(%q) panicked: %v", src, rec), vec)
		return
	}
	if diags.HasErrors() == accept {
		if accept {
			c.Violation("valid-json-rejected/"+diags[0].Summary, fmt.Sprintf("%q (%s) is a valid JSON text but is rejected: %s", src, strings.Join(classes, " "), diags.Error()), vec)
		} else {
			why := "syntax"
			if hasBad {
				why = "invalid-utf8"
			} else {
				for _, cl := range classes {
					if cl == "CTRL" {
						why = "control-character"
					}
				}
			}
			c.Violation("invalid-json-accepted/"+why, fmt.Sprintf("%q (%s) is not a valid JSON text but is accepted without error", src, strings.Join(classes, " ")), vec)
		}
		return
	}
	// every extension of a dead prefix is rejected too (DeadIsFinal): close the open string and
	// containers, so that the only thing wrong with the document is what killed the prefix
	if mode == "dead" {
		inStr, esc := false, false
		var closers []string
		for _, cl := range classes {
			switch {
			case inStr && esc:
				esc = false
			case inStr && cl == "BS":
				esc = true
			case inStr && cl == "DQ":
				inStr = false
			case inStr:
			case cl == "DQ":
				inStr = true
			case cl == "LB":
				closers = append(closers, "}")
			case cl == "LK":
				closers = append(closers, "]")
			case (cl == "RB" || cl == "RK") && len(closers) > 0:
				closers = closers[:len(closers)-1]
			}
		}
		closed := string(src)
		if esc {
			closed += "n"
		}
		if inStr {
			closed += `"`
		}
		for i := len(closers) - 1; i >= 0; i-- {
			closed += closers[i]
		}
		if closed != string(src) {
			c.Count("evaluations", 1)
			var cd hcl.Diagnostics
			vec2 := map[string]any{"kind": "doc", "source": closed, "classes": strings.Join(classes, " ") + " + closers"}
			if rec, pn := core.Guard(func() { _, cd = hcljson.ParseExpression([]byte(closed), "x.json") }); pn {
				c.Violation("panic/ParseExpression", fmt.Sprintf("json.ParseExpression(%q) panicked: %v", closed, rec), vec2)
				return
			}
			if !cd.HasErrors() {
				why := "syntax"
				if hasBad {
					why = "invalid-utf8"
				}
				c.Violation("invalid-json-accepted/"+why, fmt.Sprintf("%q extends the rejected prefix %q (%s) but is accepted without error", closed, src, strings.Join(classes, " ")), vec2)
				return
			}
		}
	}
	// the file-level entry point
	var fdiags hcl.Diagnostics
	if rec, pn := core.Guard(func() { _, fdiags = hcljson.Parse(src, "x.json") }); pn {
		c.Violation("panic/Parse", fmt.Sprintf("json.Parse(%q) panicked: %v", src, rec), vec)
		return
	}
	if !accept && !fdiags.HasErrors() {
		c.Violation("invalid-json-accepted/file", fmt.Sprintf("%q is not valid JSON but json.Parse accepts it", src), vec)
		return
	}
	root := ""
	for _, cl := range classes {
		if cl != "SP" && cl != "NLWS" {
			root = cl
			break
		}
	}
	if accept && root == "LB" && fdiags.HasErrors() {
		c.Violation("valid-json-rejected/file", fmt.Sprintf("%q is a valid JSON object but json.Parse rejects it: %s", src, fdiags.Error()), vec)
		return
	}
	if !accept {
		return
	}
	// literal mapping
	dec := stdjson.NewDecoder(bytes.NewReader(src))
	dec.UseNumber()
	want, dup, err := decode(dec)
	if err == nil {
		if _, e2 := dec.Token(); e2 != io.EOF {
			err = fmt.Errorf("trailing data")
		}
	}
	if err != nil {
		c.Broken("oracle decoder failed on accepted document %q: %v", src, err)
		return
	}
	var got cty.Value
	var vd hcl.Diagnostics
	if rec, pn := core.Guard(func() { got, vd = expr.Value(nil) }); pn {
		c.Violation("panic/Value", fmt.Sprintf("evaluating %q panicked: %v", src, rec), vec)
		return
	}
	if dup {
		if !vd.HasErrors() {
			c.Violation("duplicate-names-accepted", fmt.Sprintf("%q has duplicate object names but evaluates without error to %s", src, e1.Describe(got)), vec)
		}
		return
	}
	if vd.HasErrors() {
		c.Violation("literal-evaluation-error/"+vd[0].Summary, fmt.Sprintf("%q evaluates with an error in literal-only mode: %s", src, vd.Error()), vec)
		return
	}
	if !got.RawEquals(want) {
		c.Violation("literal-value/"+root, fmt.Sprintf("%q denotes %s but evaluates to %s", src, e1.Describe(want), e1.Describe(got)), vec)
		return
	}
	c.Nontrivial(string(src))
	if len(classes) >= 4 {
		c.Sample(map[string]any{"json": string(src), "classes": strings.Join(classes, " "), "value": e1.Describe(got)})
	}
}

// HandleTemplate: in full-expression mode a JSON string denotes what the native template parser assigns to its content.
func HandleTemplate(c *core.Check, st core.State) {
	v, err := e1.DecodeVector(st)
	if err != nil {
		c.Broken("%v", err)
		return
	}
	c.Count("vectors_replayed", 1)
	x := e1.Render(v.Node, e1.Layout{})
	for _, tsrc := range []string{"${" + x + "}", "pre-${" + x + "}-post", "%{ if true }${" + x + "}%{ endif }",
		"set {a, b} and ${" + x + "}", "{%{ if true }${" + x + "}%{ endif }}", "}{ $ % $${lit} %%{lit} ${" + x + "}"} {
		js, _ := stdjson.Marshal(tsrc)
		vec := map[string]any{"state": st.Raw, "template": tsrc, "json": string(js)}
		c.Count("evaluations", 1)
		jexpr, jd := hcljson.ParseExpression(js, "t.json")
		texpr, td := hclsyntax.ParseTemplate([]byte(tsrc), "t.tmpl", hcl.InitialPos)
		if jd.HasErrors() {
			c.Violation("template/json-rejected", fmt.Sprintf("JSON string %s is rejected: %s", js, jd.Error()), vec)
			return
		}
		var jv, tv cty.Value
		var jvd, tvd hcl.Diagnostics
		if rec, pn := core.Guard(func() { jv, jvd = jexpr.Value(e1.Ctx()) }); pn {
			c.Violation("panic/template", fmt.Sprintf("evaluating JSON string %s panicked: %v", js, rec), vec)
			return
		}
		if td.HasErrors() {
			if !jvd.HasErrors() {
				c.Violation("template/native-rejects", fmt.Sprintf("template %q is rejected natively but the JSON string evaluates without error", tsrc), vec)
				return
			}
			continue
		}
		tv, tvd = texpr.Value(e1.Ctx())
		if jvd.HasErrors() != tvd.HasErrors() || (!jvd.HasErrors() && !jv.RawEquals(tv)) {
			c.Violation("template/differs/"+e1.Fam(v.Node), fmt.Sprintf("JSON string %s evaluates to %s (errors=%v), the native template %q to %s (errors=%v)", js, e1.Describe(jv), jvd.HasErrors(), tsrc, e1.Describe(tv), tvd.HasErrors()), vec)
			return
		}
	}
}

// FixedDocs: documents beyond the exhaustive class strings (extreme numbers, deep nesting, every
// escape form, all whitespace forms). They are judged with the same relation; the recogniser's role is
// played by encoding/json.Valid, which the class-string stage calibrates against Json8259.tla.
func FixedDocs() []string {
	deepA := strings.Repeat("[", 200) + "1" + strings.Repeat("]", 200)
	deepO := strings.Repeat(`{"a":`, 150) + "null" + strings.Repeat("}", 150)
	return []string{
		"1e400", "1E-400", "-0", "-0.0", "0.0000000000000000000000001", "1234567890123456789012345678901234567890",
		"12345678901234567890.12345678901234567890", "1e+2", "1E+02", "-1.5e-3", "0e0", "9007199254740993", "-9223372036854775809",
		deepA, deepO, deepA[:len(deepA)-1], deepO + "}",
		`"\u0041\u00e9\ud83d\ude00\n\r\t\b\f\/\\\""`, `"\ud83d"`, `"\ude00\ud83d"`, `"\u0000"`, `"tab\there"`,
		" \t\n\r[ \t\n\r1 \t\n\r, \t\n\r2 \t\n\r] \t\n\r", `{"a":1,"a":2}`, `[{"k":[{"k":{"k":[]}}]}]`, `{"":""}`, `[[],{},"",0,null,true,false]`,
		`{"a":1,}`, `[1,]`, `[,1]`, `{"a" 1}`, `{'a':1}`, "NaN", "Infinity", "-Infinity", "+1", "01", "1.", ".5", "-", "1e", "1e+", "0x10", "tru", "nul", "True",
		`"unterminated`, "\"raw\ttab\"", "\"raw\nnewline\"", `"bad \q escape"`, `"\u12"`, `"\u12G4"`, "[1] x", "[1][2]", "{}{}", "", " ", "\ufeff1",
		`"${not.a.template}"`, `"%{ if x }y%{ endif }"`, `"$${escaped}"`,
	}
}

// HandleDoc applies the C13 relation to one concrete document.
func HandleDoc(c *core.Check, doc string) {
	src := []byte(doc)
	c.Count("evaluations", 1)
	accept := stdjson.Valid(src) && utf8.Valid(src) // encoding/json tolerates invalid UTF-8, RFC 8259 does not
	if strings.HasPrefix(doc, "\ufeff") {
		return // a leading BOM: either verdict is accepted (RFC 8259 lets parsers ignore it)
	}
	vec := map[string]any{"source": doc, "kind": "doc"}
	var expr hcl.Expression
	var diags hcl.Diagnostics
	if rec, pn := core.Guard(func() { expr, diags = hcljson.ParseExpression(src, "x.json") }); pn {
		c.Violation("panic/ParseExpression", fmt.Sprintf("json.ParseExpression(%q) panicked: %v", abbreviate(doc), rec), vec)
		return
	}
	if diags.HasErrors() == accept {
		if accept {
			// spec.md allows an error for numbers whose exponent leaves the representable range
			if strings.ContainsAny(doc, "eE") && len(doc) < 12 && strings.Contains(strings.ToLower(diags[0].Summary), "number") {
				return
			}
			c.Violation("valid-json-rejected/"+diags[0].Summary, fmt.Sprintf("%q is a valid JSON text but is rejected: %s", abbreviate(doc), diags.Error()), vec)
		} else {
			c.Violation("invalid-json-accepted/doc", fmt.Sprintf("%q is not a valid JSON text but is accepted", abbreviate(doc)), vec)
		}
		return
	}
	if !accept {
		return
	}
	dec := stdjson.NewDecoder(bytes.NewReader(src))
	dec.UseNumber()
	want, dup, err := decode(dec)
	if err != nil {
		c.Broken("oracle decoder failed on %q: %v", abbreviate(doc), err)
		return
	}
	var got cty.Value
	var vd hcl.Diagnostics
	if rec, pn := core.Guard(func() { got, vd = expr.Value(nil) }); pn {
		c.Violation("panic/Value", fmt.Sprintf("evaluating %q panicked: %v", abbreviate(doc), rec), vec)
		return
	}
	if dup {
		if !vd.HasErrors() {
			c.Violation("duplicate-names-accepted", fmt.Sprintf("%q has duplicate names but evaluates without error", abbreviate(doc)), vec)
		}
		return
	}
	if vd.HasErrors() || !got.RawEquals(want) {
		c.Violation("literal-value/doc", fmt.Sprintf("%q denotes %s but evaluates to %s (errors=%v)", abbreviate(doc), abbreviate(e1.Describe(want)), abbreviate(e1.Describe(got)), vd.HasErrors()), vec)
		return
	}
	c.Nontrivial(doc)
}

func abbreviate(s string) string {
	if len(s) > 160 {
		return s[:80] + "..." + s[len(s)-60:]
	}
	return s
}
