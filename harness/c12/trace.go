package c12

import (
	"bytes"
	"encoding/json"
	"fmt"
	"math/rand"
	"strings"
	"time"

	"github.com/hashicorp/hcl/v2"
	"github.com/hashicorp/hcl/v2/hclsyntax"
	"github.com/hashicorp/hcl/v2/hclwrite"

	"verif/harness/core"
)

// Long random histories (trace validation, Trace_Write.tla): the driver calls the real writer
// API, logging each call with its arguments and the projection of the real file afterwards; TLC
// replays the log against HclWriteTree's actions.

type tEvent struct {
	Op     string   `json:"op"`
	Init   string   `json:"init"`
	B      int      `json:"b"`
	Name   string   `json:"name"`
	Name2  string   `json:"name2"`
	VK     string   `json:"vk"`
	VN     int      `json:"vn"`
	Labels []string `json:"labels"`
	H      int      `json:"h"`
	Proj   [][]any  `json:"proj"`
	Items  [][]any  `json:"items"`
}

type driver struct {
	s        *session
	rng      *rand.Rand
	nextID   int
	parent   map[int]int            // block id -> body id, -1 detached
	attrID   map[int]map[string]int // body id -> attr name -> item id
	maxDepth int
}

func (d *driver) depth(b int) int {
	n := 0
	for b != 0 {
		p, ok := d.parent[b]
		if !ok || p == -1 {
			return n + 1
		}
		b = p
		n++
	}
	return n
}

func (d *driver) height(h int) int {
	m := 1
	for id, p := range d.parent {
		if p == h {
			if x := 1 + d.height(id); x > m {
				m = x
			}
		}
	}
	return m
}

func (d *driver) within(b, h int) bool {
	for {
		if b == h {
			return true
		}
		if b == 0 {
			return false
		}
		p, ok := d.parent[b]
		if !ok || p == -1 {
			return false
		}
		b = p
	}
}

func (d *driver) bodies() []int {
	out := []int{0}
	for id := range d.parent {
		out = append(out, id)
	}
	return out
}

var tNames = []string{"a", "b", "c"}
var tTypes = []string{"t", "u"}
var tLabels = [][]string{{}, {"x"}, {"x", "y"}}
var tVals = [][2]any{{"val", 0}, {"val", 1}, {"trav", 0}, {"raw", 0}}

// projection of the attached part of the real file: body id -> item ids, plus item facts
func (d *driver) projection() ([][]any, [][]any, string) {
	src := d.s.f.Bytes()
	pf, diags := hclsyntax.ParseConfig(src, "t.hcl", hcl.InitialPos)
	if diags.HasErrors() {
		return nil, nil, "serialised file does not parse: " + diags.Error()
	}
	idOf := map[*hclwrite.Block]int{}
	for id, h := range d.s.blocks {
		idOf[h] = id
	}
	var proj, items [][]any
	var walk func(bid int, wb *hclwrite.Body, sb *hclsyntax.Body) string
	walk = func(bid int, wb *hclwrite.Body, sb *hclsyntax.Body) string {
		type pos struct {
			byte int
			id   int
		}
		var ps []pos
		for name, a := range sb.Attributes {
			id, ok := d.attrID[bid][name]
			if !ok {
				return fmt.Sprintf("body %d has attribute %q the driver never created", bid, name)
			}
			ps = append(ps, pos{a.SrcRange.Start.Byte, id})
			items = append(items, []any{id, "attr", name, []string{}})
		}
		wblocks := wb.Blocks()
		if len(wblocks) != len(sb.Blocks) {
			return fmt.Sprintf("body %d: Blocks() has %d entries, serialised body %d", bid, len(wblocks), len(sb.Blocks))
		}
		for i, bl := range sb.Blocks {
			id, ok := idOf[wblocks[i]]
			if !ok {
				return fmt.Sprintf("body %d: block %d is not a handle the driver holds", bid, i)
			}
			ps = append(ps, pos{bl.TypeRange.Start.Byte, id})
			ls := append([]string{}, bl.Labels...)
			items = append(items, []any{id, "block", bl.Type, ls})
			if m := walk(id, wblocks[i].Body(), bl.Body); m != "" {
				return m
			}
		}
		for i := 1; i < len(ps); i++ {
			for j := i; j > 0 && ps[j].byte < ps[j-1].byte; j-- {
				ps[j], ps[j-1] = ps[j-1], ps[j]
			}
		}
		ids := []int{}
		for _, p := range ps {
			ids = append(ids, p.id)
		}
		proj = append(proj, []any{bid, ids})
		return ""
	}
	if m := walk(0, d.s.f.Body(), pf.Body.(*hclsyntax.Body)); m != "" {
		return nil, nil, m
	}
	return proj, items, ""
}

// RunTraces executes n random histories of length steps and has TLC validate them.
func RunTraces(c *core.Check, n, steps int) {
	rng := rand.New(rand.NewSource(c.Seed))
	var buf bytes.Buffer
	emit := func(e tEvent) {
		if e.Labels == nil {
			e.Labels = []string{}
		}
		if e.Proj == nil {
			e.Proj = [][]any{}
		}
		if e.Items == nil {
			e.Items = [][]any{}
		}
		j, _ := json.Marshal(e)
		buf.Write(j)
		buf.WriteByte('\n')
	}
	total := 0
	for t := 0; t < n; t++ {
		init := []string{"empty", "parsed", "oneline", "emptyblk"}[t%4]
		s, err := newSession(init)
		if err != nil {
			c.Broken("%v", err)
			return
		}
		d := &driver{s: s, rng: rng, nextID: 4, parent: map[int]int{}, attrID: map[int]map[string]int{0: {}}, maxDepth: 3}
		if init != "empty" {
			d.parent[2] = 0
			d.attrID[0]["a"] = 1
			d.attrID[2] = map[string]int{"b": 3}
			if init == "emptyblk" {
				d.attrID[2] = map[string]int{}
			}
		}
		emit(tEvent{Op: "reset", Init: init})
		var histDesc []string
		for k := 0; k < steps; k++ {
			bodies := d.bodies()
			b := bodies[rng.Intn(len(bodies))]
			if d.attrID[b] == nil {
				d.attrID[b] = map[string]int{}
			}
			var blocks []int
			for id := range d.parent {
				blocks = append(blocks, id)
			}
			e := tEvent{}
			switch op := rng.Intn(12); {
			case op == 10:
				if rng.Intn(3) == 0 {
					e = tEvent{Op: "Clear", B: b}
				} else {
					e = tEvent{Op: "RemoveAttr", B: b, Name: "b"}
				}
			case op == 11:
				e = tEvent{Op: "Decorate", B: b, Name: []string{"newline", "comment"}[rng.Intn(2)]}
			case op <= 2:
				v := tVals[rng.Intn(len(tVals))]
				e = tEvent{Op: "SetAttr", B: b, Name: tNames[rng.Intn(3)], VK: v[0].(string), VN: v[1].(int)}
			case op == 3:
				e = tEvent{Op: "RemoveAttr", B: b, Name: tNames[rng.Intn(3)]}
			case op == 4:
				e = tEvent{Op: "RenameAttr", B: b, Name: tNames[rng.Intn(3)], Name2: tNames[rng.Intn(3)]}
			case op == 5 && d.depth(b) < d.maxDepth:
				e = tEvent{Op: "AppendNewBlock", B: b, Name: tTypes[rng.Intn(2)], Labels: tLabels[rng.Intn(3)], H: d.nextID}
			case op == 6:
				e = tEvent{Op: "NewBlock", Name: tTypes[rng.Intn(2)], Labels: tLabels[rng.Intn(3)], H: d.nextID}
			case op == 7 && len(blocks) > 0:
				h := blocks[rng.Intn(len(blocks))]
				if d.parent[h] == -1 && !d.within(b, h) && d.depth(b)+d.height(h) <= d.maxDepth {
					e = tEvent{Op: "AppendBlock", B: b, H: h}
				} else {
					e = tEvent{Op: "RemoveBlock", B: b, H: h}
				}
			case op == 8 && len(blocks) > 0:
				e = tEvent{Op: "SetType", H: blocks[rng.Intn(len(blocks))], Name: tTypes[rng.Intn(2)]}
			case op == 9 && len(blocks) > 0:
				e = tEvent{Op: "SetLabels", H: blocks[rng.Intn(len(blocks))], Labels: tLabels[rng.Intn(3)]}
			default:
				e = tEvent{Op: "RemoveAttr", B: b, Name: "c"}
			}
			// the exhaustive stage reports the known root cause "append into a body that starts on its
			// brace line"; the long histories steer around it so that they keep exploring
			if avoid, p := func() (bool, bool) {
				var a bool
				_, pn := core.Guard(func() {
					a = s.appendsIntoBraceLine(Op{Op: e.Op, B: e.B, Name: e.Name, H: e.H})
				})
				return a, pn
			}(); avoid && !p {
				e = tEvent{Op: "RemoveAttr", B: b, Name: "c"}
			}
			// bookkeeping the driver needs to name items (ids are allocated like the model's)
			switch e.Op {
			case "SetAttr":
				if _, ok := d.attrID[b][e.Name]; !ok {
					d.attrID[b][e.Name] = d.nextID
					d.nextID++
				}
			case "RemoveAttr":
				delete(d.attrID[b], e.Name)
			case "RenameAttr":
				if id, ok := d.attrID[b][e.Name]; ok {
					if _, clash := d.attrID[b][e.Name2]; !clash {
						delete(d.attrID[b], e.Name)
						d.attrID[b][e.Name2] = id
					}
				}
			case "AppendNewBlock":
				d.parent[e.H] = b
				d.nextID++
			case "NewBlock":
				d.parent[e.H] = -1
				d.nextID++
			case "AppendBlock":
				d.parent[e.H] = b
			case "RemoveBlock":
				if d.parent[e.H] == b {
					d.parent[e.H] = -1
				}
			case "Clear":
				d.attrID[b] = map[string]int{}
				for id, p := range d.parent {
					if p == b {
						d.parent[id] = -1
					}
				}
			}
			o := Op{Op: e.Op, B: e.B, Name: e.Name, Name2: e.Name2, VK: e.VK, VN: e.VN, Labels: e.Labels, H: e.H}
			histDesc = append(histDesc, opString(o))
			vec := map[string]any{"history": init + ": " + strings.Join(histDesc, "; "), "kind": "trace"}
			if rec, p := core.Guard(func() { s.apply(o) }); p {
				c.Violation("panic-in-long-history/"+e.Op, fmt.Sprintf("history [%s] panicked: %v", vec["history"], rec), vec)
				return
			}
			var proj, items [][]any
			var why string
			if rec, p := core.Guard(func() { proj, items, why = d.projection() }); p {
				c.Violation("panic-in-long-history/projection", fmt.Sprintf("after history [%s] the accessors panicked: %v", vec["history"], rec), vec)
				return
			}
			if why != "" {
				c.Violation("long-history/"+e.Op, fmt.Sprintf("after history [%s]: %s", vec["history"], why), vec)
				return
			}
			e.Proj, e.Items = proj, items
			emit(e)
			total++
		}
		c.Count("traces_validated", 1)
		c.Nontrivial(strings.Join(histDesc, ";"))
	}
	c.Count("evaluations", int64(total))
	st, err := core.TLCRun{Module: "MC_Trace_Write", NoDump: true, Workers: 1, Timeout: 20 * time.Minute, HeapGB: 4,
		Files: map[string][]byte{"trace_write.ndjson": buf.Bytes()}}.Stream(1, func(core.State) {})
	c.AddTLC(st)
	if err != nil || st.ErrorKind != "" || !strings.Contains(st.Output, "Model checking completed. No error") {
		// locate the first rejected event: the search depth is the number of accepted lines + 1
		c.Violation("long-history/rejected-by-spec", fmt.Sprintf("TLC rejects the recorded writer histories: the real file after some call is not what HclWriteTree predicts (search depth %d of %d events): %s", st.Depth, total+n, tailOf(st.Output, 400)),
			map[string]any{"trace": buf.String(), "kind": "trace"})
		return
	}
	c.Extra["long_history_events_validated_by_TLC"] = total
}

func tailOf(s string, n int) string {
	if len(s) > n {
		return s[len(s)-n:]
	}
	return s
}

var _ = time.Second
