// Package c12 replays HclWriteTree (TLA+) edit histories into hclwrite.
package c12

import (
	"bytes"
	"fmt"
	"reflect"
	"sort"
	"strings"

	"github.com/hashicorp/hcl/v2"
	"github.com/hashicorp/hcl/v2/hclsyntax"
	"github.com/hashicorp/hcl/v2/hclwrite"
	"github.com/zclconf/go-cty/cty"

	"verif/harness/core"
	"verif/harness/tla"
)

const ParsedSrc = "# lead a\na = 1 # line a\n# lead t\nt \"x\" {\n  # lead b\n  b = 2 # line b\n}\n"

// origChunks: for each original item id, the trimmed source lines that must
// survive (adjacent, in order) as long as the item is untouched and attached.
var origChunks = map[int][]string{
	1: {"# lead a", "a = 1 # line a"},
	2: {"# lead t", "t \"x\" {"},
	3: {"# lead b", "b = 2 # line b"},
}

// Item mirrors the TLA+ item record.
type Item struct {
	K      string
	Name   string
	VK     string
	VN     int
	Labels []string
	Orig   bool
	Parent int
}

type Op struct {
	Op     string
	B      int
	Name   string
	Name2  string
	VK     string
	VN     int
	Labels []string
	H      int
}

type Vector struct {
	Init  string
	Hist  []Op
	Body  map[int][]int
	Items map[int]Item
}

func Decode(st core.State) (v Vector, err error) {
	defer func() {
		if r := recover(); r != nil {
			err = fmt.Errorf("decode: %v", r)
		}
	}()
	v.Init = tla.Str(st.Vars["init"])
	for _, o := range tla.Seq(st.Vars["hist"]) {
		m := tla.Rec(o)
		v.Hist = append(v.Hist, Op{Op: tla.Str(m["op"]), B: tla.Int(m["b"]), Name: tla.Str(m["name"]), Name2: tla.Str(m["name2"]),
			VK: tla.Str(m["vk"]), VN: tla.Int(m["vn"]), Labels: tla.Strs(m["labels"]), H: tla.Int(m["h"])})
	}
	v.Body = map[int][]int{}
	switch b := st.Vars["body"].(type) {
	case tla.Func:
		for _, p := range b {
			ids := []int{}
			for _, x := range tla.Seq(p.V) {
				ids = append(ids, tla.Int(x))
			}
			v.Body[tla.Int(p.K)] = ids
		}
	default:
		panic(fmt.Sprintf("body: unexpected %T", b))
	}
	v.Items = map[int]Item{}
	for i, x := range tla.Seq(st.Vars["item"]) {
		m := tla.Rec(x)
		v.Items[i+1] = Item{K: tla.Str(m["k"]), Name: tla.Str(m["name"]), VK: tla.Str(m["vk"]), VN: tla.Int(m["vn"]),
			Labels: tla.Strs(m["labels"]), Orig: tla.Bool(m["orig"]), Parent: tla.Int(m["parent"])}
	}
	return v, nil
}

// ---- payload table (vk, vn) -> concrete expression ----

var vals = []cty.Value{
	cty.NumberIntVal(5),
	cty.TupleVal([]cty.Value{cty.StringVal("s"), cty.ObjectVal(map[string]cty.Value{"k": cty.True})}),
}

var travs = []hcl.Traversal{
	{hcl.TraverseRoot{Name: "foo"}, hcl.TraverseAttr{Name: "bar"}, hcl.TraverseIndex{Key: cty.NumberIntVal(0)}},
}

func rawToks(n int) hclwrite.Tokens {
	return hclwrite.Tokens{
		{Type: hclsyntax.TokenNumberLit, Bytes: []byte("1")},
		{Type: hclsyntax.TokenPlus, Bytes: []byte("+")},
		{Type: hclsyntax.TokenIdent, Bytes: []byte("v")},
		{Type: hclsyntax.TokenDot, Bytes: []byte(".")},
		{Type: hclsyntax.TokenIdent, Bytes: []byte("x")},
	}
}

// exprMatches decides whether a parsed expression is the one payload (vk,vn) denotes.
func exprMatches(e hclsyntax.Expression, src []byte, vk string, vn int) (bool, string) {
	text := string(e.Range().SliceBytes(src))
	switch vk {
	case "val":
		v, diags := e.Value(nil)
		if diags.HasErrors() {
			return false, "value expr does not evaluate: " + diags.Error()
		}
		if !v.RawEquals(vals[vn]) {
			return false, fmt.Sprintf("value %#v, want %#v", v, vals[vn])
		}
		return true, ""
	case "trav":
		t, diags := hcl.AbsTraversalForExpr(e)
		if diags.HasErrors() {
			return false, "not a traversal: " + text
		}
		want := travs[vn]
		if len(t) != len(want) {
			return false, "traversal length differs: " + text
		}
		for i := range t {
			switch ws := want[i].(type) {
			case hcl.TraverseRoot:
				g, ok := t[i].(hcl.TraverseRoot)
				if !ok || g.Name != ws.Name {
					return false, "traversal step differs: " + text
				}
			case hcl.TraverseAttr:
				g, ok := t[i].(hcl.TraverseAttr)
				if !ok || g.Name != ws.Name {
					return false, "traversal step differs: " + text
				}
			case hcl.TraverseIndex:
				g, ok := t[i].(hcl.TraverseIndex)
				if !ok || !g.Key.RawEquals(ws.Key) {
					return false, "traversal step differs: " + text
				}
			}
		}
		return true, ""
	case "raw":
		if strings.Join(strings.Fields(text), "") != "1+v.x" {
			return false, "raw tokens changed: " + text
		}
		return true, ""
	case "src":
		if strings.TrimSpace(text) != fmt.Sprint(vn) {
			return false, "source expression changed: " + text
		}
		return true, ""
	}
	return false, "unknown payload kind " + vk
}

// ---- replay ----

type session struct {
	f      *hclwrite.File
	blocks map[int]*hclwrite.Block // handles the client retains, by model id
	next   int
}

func (s *session) body(b int) *hclwrite.Body {
	if b == 0 {
		return s.f.Body()
	}
	return s.blocks[b].Body()
}

// the other loaded files of HclWriteTree (same abstract content, blocks written on one line)
const OneLineSrc = "# lead a\na = 1 # line a\n# lead t\nt \"x\" { b = 2 }\n"
const EmptyBlkSrc = "# lead a\na = 1 # line a\n# lead t\nt \"x\" {}\n"

func initSrc(init string) string {
	switch init {
	case "parsed":
		return ParsedSrc
	case "oneline":
		return OneLineSrc
	case "emptyblk":
		return EmptyBlkSrc
	}
	return ""
}

// startsOnBraceLine reports whether the body of the block starts on the line of its opening brace
// (a one-line block, or a body whose tokens were all removed): appending an item to such a body
// is the root cause "append-into-one-line-block".
func startsOnBraceLine(bl *hclwrite.Block) bool {
	toks := bl.BuildTokens(nil)
	for i, t := range toks {
		if t.Type == hclsyntax.TokenOBrace {
			return i+1 < len(toks) && toks[i+1].Type != hclsyntax.TokenNewline
		}
	}
	return false
}

// appendsIntoBraceLine: does the operation add a new item to a block body that starts on its brace line?
func (s *session) appendsIntoBraceLine(o Op) bool {
	if o.B == 0 {
		return false
	}
	bl, ok := s.blocks[o.B]
	if !ok || bl == nil {
		return false
	}
	switch o.Op {
	case "SetAttr":
		if bl.Body().GetAttribute(o.Name) != nil {
			return false
		}
	case "AppendNewBlock", "AppendBlock":
	case "Decorate":
	default:
		return false
	}
	return startsOnBraceLine(bl)
}

func newSession(init string) (*session, error) {
	s := &session{blocks: map[int]*hclwrite.Block{}, next: 4}
	if src := initSrc(init); src != "" {
		f, diags := hclwrite.ParseConfig([]byte(src), "init.hcl", hcl.InitialPos)
		if diags.HasErrors() {
			return nil, fmt.Errorf("initial file does not load: %s", diags.Error())
		}
		s.f = f
		bl := f.Body().Blocks()
		if len(bl) != 1 {
			return nil, fmt.Errorf("initial file: %d blocks", len(bl))
		}
		s.blocks[2] = bl[0]
	} else {
		s.f = hclwrite.NewEmptyFile()
	}
	return s, nil
}

func (s *session) apply(o Op) {
	switch o.Op {
	case "SetAttr":
		b := s.body(o.B)
		var had bool
		_, had = b.Attributes()[o.Name]
		_ = had
		switch o.VK {
		case "val":
			b.SetAttributeValue(o.Name, vals[o.VN])
		case "trav":
			b.SetAttributeTraversal(o.Name, travs[o.VN])
		case "raw":
			b.SetAttributeRaw(o.Name, rawToks(o.VN))
		}
		if !had {
			s.next++
		}
	case "RemoveAttr":
		s.body(o.B).RemoveAttribute(o.Name)
	case "RenameAttr":
		s.body(o.B).RenameAttribute(o.Name, o.Name2)
	case "AppendNewBlock":
		s.blocks[o.H] = s.body(o.B).AppendNewBlock(o.Name, o.Labels)
	case "NewBlock":
		s.blocks[o.H] = hclwrite.NewBlock(o.Name, o.Labels)
	case "AppendBlock":
		s.body(o.B).AppendBlock(s.blocks[o.H])
	case "RemoveBlock":
		s.body(o.B).RemoveBlock(s.blocks[o.H])
	case "SetType":
		s.blocks[o.H].SetType(o.Name)
	case "SetLabels":
		s.blocks[o.H].SetLabels(o.Labels)
	case "Clear":
		s.body(o.B).Clear()
	case "Decorate":
		if o.Name == "newline" {
			s.body(o.B).AppendNewline()
		} else {
			s.body(o.B).AppendUnstructuredTokens(hclwrite.Tokens{
				{Type: hclsyntax.TokenComment, Bytes: []byte("# note\n")},
			})
		}
	default:
		panic("unknown op " + o.Op)
	}
}

// projItem is the projection of the serialised file obtained by re-parsing it.
type projItem struct {
	K      string
	Name   string
	Labels []string
	Expr   hclsyntax.Expression
	Kids   []projItem
}

func project(b *hclsyntax.Body) []projItem {
	type pos struct {
		byte int
		it   projItem
	}
	var ps []pos
	for _, a := range b.Attributes {
		ps = append(ps, pos{a.SrcRange.Start.Byte, projItem{K: "attr", Name: a.Name, Expr: a.Expr}})
	}
	for _, bl := range b.Blocks {
		ps = append(ps, pos{bl.TypeRange.Start.Byte, projItem{K: "block", Name: bl.Type, Labels: append([]string{}, bl.Labels...), Kids: project(bl.Body)}})
	}
	sort.Slice(ps, func(i, j int) bool { return ps[i].byte < ps[j].byte })
	out := make([]projItem, len(ps))
	for i, p := range ps {
		out[i] = p.it
	}
	return out
}

// modelFreeCheck: properties of the real file that need no model: it
// serialises, the result parses, and hclwrite's accessors (through the root
// and through retained handles) agree with what was serialised.
func (s *session) modelFreeCheck() (kind, detail string, src []byte, proj []projItem) {
	src = s.f.Bytes()
	pf, diags := hclsyntax.ParseConfig(src, "out.hcl", hcl.InitialPos)
	if diags.HasErrors() {
		return "serialised-parse-error", diags[0].Summary + ": " + diags[0].Detail, src, nil
	}
	proj = project(pf.Body.(*hclsyntax.Body))
	if k, d := s.accessorsAgree(s.f.Body(), proj, "root"); k != "" {
		return k, d, src, proj
	}
	return "", "", src, proj
}

func labelsEq(a, b []string) bool {
	if len(a) == 0 && len(b) == 0 {
		return true
	}
	return reflect.DeepEqual(a, b)
}

func (s *session) accessorsAgree(b *hclwrite.Body, proj []projItem, path string) (string, string) {
	attrs := b.Attributes()
	var wantAttrs []string
	var wantBlocks []projItem
	for _, it := range proj {
		if it.K == "attr" {
			wantAttrs = append(wantAttrs, it.Name)
		} else {
			wantBlocks = append(wantBlocks, it)
		}
	}
	if len(attrs) != len(wantAttrs) {
		return "accessor-Attributes", fmt.Sprintf("%s: Attributes() has %d entries, serialised body has %v", path, len(attrs), wantAttrs)
	}
	for _, n := range wantAttrs {
		if attrs[n] == nil {
			return "accessor-Attributes", fmt.Sprintf("%s: Attributes() lacks %q", path, n)
		}
		if b.GetAttribute(n) == nil {
			return "accessor-GetAttribute", fmt.Sprintf("%s: GetAttribute(%q) is nil but the attribute is serialised", path, n)
		}
	}
	blocks := b.Blocks()
	if len(blocks) != len(wantBlocks) {
		return "accessor-Blocks", fmt.Sprintf("%s: Blocks() has %d entries, serialised body has %d", path, len(blocks), len(wantBlocks))
	}
	for i, w := range wantBlocks {
		if blocks[i].Type() != w.Name {
			return "accessor-Block.Type", fmt.Sprintf("%s: block %d Type()=%q, serialised %q", path, i, blocks[i].Type(), w.Name)
		}
		if !labelsEq(blocks[i].Labels(), w.Labels) {
			return "accessor-Block.Labels", fmt.Sprintf("%s: block %d Labels()=%q, serialised %q", path, i, blocks[i].Labels(), w.Labels)
		}
		if k, d := s.accessorsAgree(blocks[i].Body(), w.Kids, fmt.Sprintf("%s/%s[%d]", path, w.Name, i)); k != "" {
			return k, d
		}
	}
	return "", ""
}

// modelCheck compares the real file with the model's predicted file.
func (s *session) modelCheck(v Vector, src []byte, proj []projItem) (string, string) {
	var cmp func(b int, proj []projItem, hb *hclwrite.Body, path string) (string, string)
	cmp = func(b int, proj []projItem, hb *hclwrite.Body, path string) (string, string) {
		ids := v.Body[b]
		if len(ids) != len(proj) {
			return "model-items", fmt.Sprintf("%s: model has %d items, file has %d", path, len(ids), len(proj))
		}
		hblocks := hb.Blocks()
		bi := 0
		for j, id := range ids {
			m := v.Items[id]
			p := proj[j]
			if m.K != p.K || m.Name != p.Name {
				return "model-item", fmt.Sprintf("%s item %d: model %s %q, file %s %q", path, j, m.K, m.Name, p.K, p.Name)
			}
			if m.K == "attr" {
				if ok, why := exprMatches(p.Expr, src, m.VK, m.VN); !ok {
					return "model-expr", fmt.Sprintf("%s attr %q: %s", path, m.Name, why)
				}
				if hb.GetAttribute(m.Name) == nil {
					return "accessor-GetAttribute", fmt.Sprintf("%s: GetAttribute(%q) nil", path, m.Name)
				}
			} else {
				if !labelsEq(m.Labels, p.Labels) {
					return "model-labels", fmt.Sprintf("%s block %q: model labels %q, file %q", path, m.Name, m.Labels, p.Labels)
				}
				// handle identity: the block reached by navigation is the retained handle
				if h, ok := s.blocks[id]; ok && (bi >= len(hblocks) || hblocks[bi] != h) {
					return "accessor-handle-identity", fmt.Sprintf("%s: Blocks()[%d] is not the handle retained for block %d", path, bi, id)
				}
				if bi < len(hblocks) {
					if k, d := cmp(id, p.Kids, hblocks[bi].Body(), fmt.Sprintf("%s/%s", path, m.Name)); k != "" {
						return k, d
					}
				}
				bi++
			}
		}
		// absent names read as absent
		for _, n := range []string{"a", "b"} {
			present := false
			for _, id := range ids {
				if v.Items[id].K == "attr" && v.Items[id].Name == n {
					present = true
				}
			}
			if !present && hb.GetAttribute(n) != nil {
				return "accessor-GetAttribute", fmt.Sprintf("%s: GetAttribute(%q) non-nil for an absent attribute", path, n)
			}
		}
		// FirstMatchingBlock agrees with the model's first match
		for _, t := range []string{"t", "u"} {
			for _, ls := range [][]string{{}, {"x"}, {"x", "y"}} {
				want := -1
				for _, id := range ids {
					m := v.Items[id]
					if m.K == "block" && m.Name == t && labelsEq(m.Labels, ls) {
						want = id
						break
					}
				}
				got := hb.FirstMatchingBlock(t, ls)
				if (want == -1) != (got == nil) {
					return "accessor-FirstMatchingBlock", fmt.Sprintf("%s: FirstMatchingBlock(%q,%q) presence differs from model (want id %d)", path, t, ls, want)
				}
				if got != nil {
					if h, ok := s.blocks[want]; ok && h != got {
						return "accessor-FirstMatchingBlock", fmt.Sprintf("%s: FirstMatchingBlock(%q,%q) returned a different block", path, t, ls)
					}
				}
			}
		}
		return "", ""
	}
	if k, d := cmp(0, proj, s.f.Body(), "root"); k != "" {
		return k, d
	}
	// detached handles still answer per the model
	for id, h := range s.blocks {
		m, ok := v.Items[id]
		if !ok || m.K != "block" {
			continue
		}
		if h.Type() != m.Name {
			return "accessor-Block.Type", fmt.Sprintf("handle %d: Type()=%q, model %q", id, h.Type(), m.Name)
		}
		if !labelsEq(h.Labels(), m.Labels) {
			return "accessor-Block.Labels", fmt.Sprintf("handle %d: Labels()=%q, model %q", id, h.Labels(), m.Labels)
		}
	}
	// untouched original items keep their tokens and comments
	var lines []string
	for _, l := range bytes.Split(src, []byte("\n")) {
		lines = append(lines, strings.TrimSpace(string(l)))
	}
	attached := func(id int) bool {
		for n := 0; n < 10; n++ {
			p := v.Items[id].Parent
			if p == 0 {
				return true
			}
			if p == -1 {
				return false
			}
			id = p
		}
		return false
	}
	if v.Init == "parsed" {
		for id, chunk := range origChunks {
			m := v.Items[id]
			if m.K == "none" || !m.Orig || !attached(id) {
				continue
			}
			found := false
			for i := 0; i+len(chunk) <= len(lines); i++ {
				ok := true
				for j := range chunk {
					// a block header keeps its tokens even when the body after the brace changes
					if lines[i+j] != chunk[j] && !(strings.HasSuffix(chunk[j], "{") && strings.HasPrefix(lines[i+j], chunk[j])) {
						ok = false
						break
					}
				}
				if ok {
					found = true
					break
				}
			}
			if !found {
				return "untouched-tokens", fmt.Sprintf("original item %d (%s) was never edited but its lines %q are gone", id, m.Name, chunk)
			}
		}
	}
	return "", ""
}

func opString(o Op) string {
	switch o.Op {
	case "SetAttr":
		return fmt.Sprintf("body(%d).SetAttribute[%s%d](%q)", o.B, o.VK, o.VN, o.Name)
	case "RemoveAttr":
		return fmt.Sprintf("body(%d).RemoveAttribute(%q)", o.B, o.Name)
	case "RenameAttr":
		return fmt.Sprintf("body(%d).RenameAttribute(%q,%q)", o.B, o.Name, o.Name2)
	case "AppendNewBlock":
		return fmt.Sprintf("h%d=body(%d).AppendNewBlock(%q,%q)", o.H, o.B, o.Name, o.Labels)
	case "NewBlock":
		return fmt.Sprintf("h%d=NewBlock(%q,%q)", o.H, o.Name, o.Labels)
	case "AppendBlock":
		return fmt.Sprintf("body(%d).AppendBlock(h%d)", o.B, o.H)
	case "RemoveBlock":
		return fmt.Sprintf("body(%d).RemoveBlock(h%d)", o.B, o.H)
	case "SetType":
		return fmt.Sprintf("h%d.SetType(%q)", o.H, o.Name)
	case "SetLabels":
		return fmt.Sprintf("h%d.SetLabels(%q)", o.H, o.Labels)
	case "Clear":
		return fmt.Sprintf("body(%d).Clear()", o.B)
	case "Decorate":
		return fmt.Sprintf("body(%d).Append[%s]()", o.B, o.Name)
	}
	return o.Op
}

func HistString(v Vector) string {
	var parts []string
	for _, o := range v.Hist {
		parts = append(parts, opString(o))
	}
	return v.Init + ": " + strings.Join(parts, "; ")
}

// Handle replays one vector. Model-free checks run after every step; the
// model comparison runs on the final state (every prefix is a vector of its
// own in the exhaustive dump).
func Handle(c *core.Check, st core.State) {
	v, err := Decode(st)
	if err != nil {
		c.Broken("%v", err)
		return
	}
	c.Count("vectors_replayed", 1)
	c.Count("evaluations", int64(len(v.Hist)))
	s, err := newSession(v.Init)
	if err != nil {
		c.Broken("%v", err)
		return
	}
	report := func(kind, detail string, step int) {
		op := "init"
		if step >= 0 {
			op = v.Hist[step].Op
		}
		c.Violation(kind+"/"+op, fmt.Sprintf("%s after step %d of history [%s]: %s", kind, step+1, HistString(v), detail),
			map[string]any{"state": st.Raw, "history": HistString(v)})
	}
	var src []byte
	var proj []projItem
	tainted := false
	for i, o := range v.Hist {
		if _, p := core.Guard(func() { tainted = tainted || s.appendsIntoBraceLine(o) }); p {
			tainted = false
		}
		if rec, p := core.Guard(func() { s.apply(o) }); p {
			msg := fmt.Sprint(rec)
			if len(msg) > 60 {
				msg = msg[:60]
			}
			report("panic:"+msg, fmt.Sprint(rec), i)
			return
		}
		var kind, detail string
		if rec, p := core.Guard(func() { kind, detail, src, proj = s.modelFreeCheck() }); p {
			report("panic-in-accessors", fmt.Sprint(rec), i)
			return
		}
		if kind == "serialised-parse-error" && tainted {
			// known root cause; the file is unusable from here on
			c.Violation("serialised-parse-error/append-into-one-line-block", fmt.Sprintf("after step %d of history [%s]: %s; serialised file %q", i+1, HistString(v), detail, src),
				map[string]any{"state": st.Raw, "history": HistString(v)})
			return
		}
		if kind != "" {
			report(kind, detail, i)
			return
		}
	}
	if len(v.Hist) == 0 {
		var kind, detail string
		kind, detail, src, proj = s.modelFreeCheck()
		if kind != "" {
			report(kind, detail, -1)
			return
		}
	}
	var kind, detail string
	if rec, p := core.Guard(func() { kind, detail = s.modelCheck(v, src, proj) }); p {
		report("panic-in-accessors", fmt.Sprint(rec), len(v.Hist)-1)
		return
	}
	if kind != "" {
		report(kind, detail, len(v.Hist)-1)
		return
	}
	// non-trivial: the history changed the file or exercised a no-op path on a non-empty file
	if len(v.Hist) > 0 {
		c.Nontrivial(HistString(v))
	}
	if len(v.Hist) >= 2 {
		c.Sample(map[string]any{"history": HistString(v), "serialised": string(src)})
	}
}
