// Package c18: dynamic blocks expand to exactly the blocks they describe.
package c18

import (
	"fmt"
	"sort"
	"strings"

	"github.com/hashicorp/hcl/v2"
	"github.com/hashicorp/hcl/v2/ext/dynblock"
	"github.com/hashicorp/hcl/v2/hcldec"
	"github.com/hashicorp/hcl/v2/hclsyntax"
	"github.com/zclconf/go-cty/cty"

	"verif/harness/c05"
	"verif/harness/c08"
	"verif/harness/core"
	"verif/harness/dec"
	"verif/harness/e1"
	"verif/harness/tla"
)

type DItem struct {
	K      string
	Name   string
	Labels []string
	Val    *e1.Node
	Body   []DItem
	Iter   string
	Each   *e1.Node
	Lab    []*e1.Node
}

func decodeDItems(v any) []DItem {
	var out []DItem
	for _, x := range tla.Seq(v) {
		m := tla.Rec(x)
		it := DItem{K: tla.Str(m["k"]), Name: tla.Str(m["name"]), Labels: tla.Strs(m["labels"]), Iter: tla.Str(m["iter"])}
		switch it.K {
		case "attr":
			it.Val = e1.DecodeNode(m["val"])
		case "block":
			it.Body = decodeDItems(m["body"])
		case "dyn":
			it.Body = decodeDItems(m["body"])
			it.Each = e1.DecodeNode(m["each"])
			for _, l := range tla.Seq(m["lab"]) {
				it.Lab = append(it.Lab, e1.DecodeNode(l))
			}
		}
		out = append(out, it)
	}
	return out
}

func renderDyn(items []DItem, indent string) string {
	var sb strings.Builder
	for _, it := range items {
		switch it.K {
		case "attr":
			fmt.Fprintf(&sb, "%s%s = %s\n", indent, it.Name, e1.Render(it.Val, e1.Layout{}))
		case "block":
			sb.WriteString(indent + it.Name)
			for _, l := range it.Labels {
				fmt.Fprintf(&sb, " %q", l)
			}
			sb.WriteString(" {\n" + renderDyn(it.Body, indent+"  ") + indent + "}\n")
		case "dyn":
			fmt.Fprintf(&sb, "%sdynamic %q {\n%s  for_each = %s\n", indent, it.Name, indent, e1.Render(it.Each, e1.Layout{}))
			if it.Iter != "" {
				fmt.Fprintf(&sb, "%s  iterator = %s\n", indent, it.Iter)
			}
			if len(it.Lab) > 0 {
				var ls []string
				for _, l := range it.Lab {
					ls = append(ls, e1.Render(l, e1.Layout{}))
				}
				fmt.Fprintf(&sb, "%s  labels = [%s]\n", indent, strings.Join(ls, ", "))
			}
			fmt.Fprintf(&sb, "%s  content {\n%s%s  }\n%s}\n", indent, renderDyn(it.Body, indent+"    "), indent, indent)
		}
	}
	return sb.String()
}

func Scope() map[string]cty.Value {
	n := func(i int64) cty.Value { return cty.NumberIntVal(i) }
	return map[string]cty.Value{
		"l":   cty.ListVal([]cty.Value{n(1), n(2)}),
		"ls":  cty.ListVal([]cty.Value{cty.StringVal("a"), cty.StringVal("b")}),
		"m":   cty.MapVal(map[string]cty.Value{"a": cty.StringVal("x"), "b": cty.StringVal("y")}),
		"st":  cty.SetVal([]cty.Value{cty.StringVal("a"), cty.StringVal("b")}),
		"e":   cty.ListValEmpty(cty.String),
		"nul": cty.NullVal(cty.DynamicPseudoType),
		"s":   cty.StringVal("a"),
		"p":   cty.ListVal([]cty.Value{cty.StringVal("g1"), cty.StringVal("g2")}),
		"ll":  cty.ListVal([]cty.Value{cty.ListVal([]cty.Value{n(1)}), cty.ListVal([]cty.Value{n(2), n(3)})}),
	}
}

// forEachVars lists scope variables used directly as a for_each collection of a top-level
// dynamic block whose generated type the spec reads.
func forEachVars(items []DItem) []string {
	set := map[string]bool{}
	for _, it := range items {
		if it.K == "dyn" && it.Each.K == "var" {
			set[it.Each.S] = true
		}
	}
	var out []string
	for k := range set {
		out = append(out, k)
	}
	sort.Strings(out)
	return out
}

func specReads(sn *dec.SpecNode, typ string) bool {
	switch sn.K {
	case "block", "blocklist", "blocktuple", "blockset", "blockmap", "blockobject", "blockattrs":
		return sn.Name == typ
	}
	for _, s := range sn.Sub {
		if specReads(s, typ) {
			return true
		}
	}
	return false
}

// Handle applies the whole C18 relation; HandleVars only the variable-sufficiency part (used by C07).
func Handle(c *core.Check, st core.State)     { handle(c, st, false) }
func HandleVars(c *core.Check, st core.State) { handle(c, st, true) }

func handle(c *core.Check, st core.State, varsOnly bool) {
	var items []DItem
	var sn *dec.SpecNode
	var outItems []dec.Item
	if rec, p := core.Guard(func() {
		items = decodeDItems(st.Vars["body"])
		sn = dec.DecodeSpec(st.Vars["spec"])
		outItems = dec.DecodeBody(tla.Rec(st.Vars["out"])["items"])
	}); p {
		c.Broken("decode: %v", rec)
		return
	}
	c.Count("vectors_replayed", 1)
	om := tla.Rec(st.Vars["out"])
	outOom, outErr := tla.Bool(om["oom"]), tla.Bool(om["err"])
	pred := tla.Rec(st.Vars["pred"])
	predOom := tla.Str(tla.Rec(pred["v"])["k"]) == "oom"
	predErr := tla.Bool(pred["err"])
	predVal, predOK := e1.DecodeValue(pred["v"])

	dynSrc := renderDyn(items, "")
	outSrc := dec.Native(outItems, "")
	desc := fmt.Sprintf("spec %s on body [%s]", sn.String(), strings.ReplaceAll(strings.TrimSpace(dynSrc), "\n", "; "))
	vec := map[string]any{"state": st.Raw, "dynamic_source": dynSrc, "written_out": outSrc, "spec": sn.String()}
	df, dd := hclsyntax.ParseConfig([]byte(dynSrc), "dyn.hcl", hcl.InitialPos)
	if dd.HasErrors() {
		c.Broken("dynamic body does not parse: %q: %s", dynSrc, dd.Error())
		return
	}
	spec := sn.Build()
	ctx := &hcl.EvalContext{Variables: Scope()}
	hasDyn := false
	for _, it := range items {
		hasDyn = hasDyn || it.K == "dyn"
	}

	var v1 cty.Value
	var d1 hcl.Diagnostics
	c.Count("evaluations", 1)
	if rec, p := core.Guard(func() { v1, d1 = hcldec.Decode(dynblock.Expand(df.Body, ctx), spec, ctx) }); p {
		c.Violation("panic/expand", fmt.Sprintf("%s: Decode(Expand(..)) panicked: %v", desc, rec), vec)
		return
	}
	// the two-phase flow of the extension's README: a partial decode first (here of an attribute no
	// body has), analysis calls on the REMAINING body (variables, source range), then the decode of
	// that same remaining body: the same value and error-ness as the direct decode
	if !varsOnly {
		var v3 cty.Value
		var d3 hcl.Diagnostics
		c.Count("evaluations", 1)
		if rec, p := core.Guard(func() {
			first := hcldec.ObjectSpec{"zz": &hcldec.AttrSpec{Name: "zz_unused", Type: cty.DynamicPseudoType}}
			_, remain, _ := hcldec.PartialDecode(dynblock.Expand(df.Body, ctx), first, ctx)
			_ = hcldec.Variables(remain, spec)
			_ = hcldec.SourceRange(remain, spec)
			_, _, _ = hcldec.PartialDecode(remain, spec, ctx)
			v3, d3 = hcldec.Decode(remain, spec, ctx)
		}); p {
			c.Violation("panic/two-phase", fmt.Sprintf("%s: the partial-decode / analyse / decode flow panicked: %v", desc, rec), vec)
			return
		}
		if d3.HasErrors() != d1.HasErrors() || (!d1.HasErrors() && !v3.RawEquals(v1)) {
			c.Violation("two-phase-differs", fmt.Sprintf("%s: decoding the remaining body after analysis calls gives %s (errors=%v), the direct decode gives %s (errors=%v)",
				desc, e1.Describe(v3), d3.HasErrors(), e1.Describe(v1), d1.HasErrors()), vec)
			return
		}
	}
	if !outOom && !varsOnly {
		wf, wd := hclsyntax.ParseConfig([]byte(outSrc), "out.hcl", hcl.InitialPos)
		if wd.HasErrors() {
			c.Broken("written-out body does not parse: %q: %s", outSrc, wd.Error())
			return
		}
		var v2 cty.Value
		var d2 hcl.Diagnostics
		if rec, p := core.Guard(func() { v2, d2 = hcldec.Decode(wf.Body, spec, ctx) }); p {
			c.Count("written_out_panic_skipped", 1)
			_ = rec
			return
		}
		// a dynamic block of a type the spec does not read is a schema violation however many
		// elements its for_each has
		unsupported := false
		for _, it := range items {
			if it.K == "dyn" && !specReads(sn, it.Name) {
				unsupported = true
			}
		}
		wantErr := d2.HasErrors() || outErr || unsupported
		if d1.HasErrors() != wantErr {
			what := ""
			if d1.HasErrors() {
				what = " (" + d1[0].Summary + ": " + d1[0].Detail + ")"
			}
			c.Violation(fmt.Sprintf("errorness/expanded=%v", d1.HasErrors()), fmt.Sprintf("%s: expanded decode errors=%v%s, written-out body [%s] errors=%v (expansion itself erroneous per spec: %v)",
				desc, d1.HasErrors(), what, strings.ReplaceAll(strings.TrimSpace(outSrc), "\n", "; "), d2.HasErrors(), outErr), vec)
			return
		}
		if !wantErr {
			u1, _ := v1.UnmarkDeep()
			u2, _ := v2.UnmarkDeep()
			if !u1.RawEquals(u2) {
				c.Violation("value-differs", fmt.Sprintf("%s: expanded decode gives %s, the written-out body [%s] gives %s", desc, e1.Describe(u1), strings.ReplaceAll(strings.TrimSpace(outSrc), "\n", "; "), e1.Describe(u2)), vec)
				return
			}
			if !predOom && predOK && !predErr && !u1.RawEquals(predVal) {
				dsig := "differs-from-spec"
				if d := c08.ValueDiff(u1, predVal); d != "" {
					dsig += "/" + d // a named root cause shared with C08 (e.g. the element type of an EMPTY two-label map)
				}
				c.Violation(dsig, fmt.Sprintf("%s: expanded decode gives %s, the specification describes %s", desc, e1.Describe(u1), e1.Describe(predVal)), vec)
				return
			}
		}
	}

	// unknown for_each: the result keeps the implied type and the affected part is unknown
	ity := hcldec.ImpliedType(spec)
	for _, x := range forEachVars(items) {
		if varsOnly {
			break
		}
		affected := false
		for _, it := range items {
			if it.K == "dyn" && it.Each.K == "var" && it.Each.S == x && specReads(sn, it.Name) {
				affected = true
			}
		}
		sc := Scope()
		sc[x] = cty.UnknownVal(sc[x].Type())
		uctx := &hcl.EvalContext{Variables: sc}
		var uv cty.Value
		var ud hcl.Diagnostics
		c.Count("evaluations", 1)
		if rec, p := core.Guard(func() { uv, ud = hcldec.Decode(dynblock.Expand(df.Body, uctx), spec, uctx) }); p {
			c.Violation("panic/unknown-for_each", fmt.Sprintf("%s with %s unknown: panicked: %v", desc, x, rec), vec)
			return
		}
		if !dec.Conforms(uv.Type(), ity.WithoutOptionalAttributesDeep()) {
			tsig := "unknown-for_each/type"
			if d := c08.TypeDiff(uv.Type(), ity.WithoutOptionalAttributesDeep()); d != "" {
				tsig += "/" + d
				if uv.IsKnown() && !uv.IsNull() && uv.CanIterateElements() && uv.LengthInt() == 0 {
					tsig += "/empty"
				}
			}
			c.Violation(tsig, fmt.Sprintf("%s with %s unknown: result %s of type %s does not conform to the implied type %s", desc, x, e1.Describe(uv), uv.Type().FriendlyName(), ity.FriendlyName()), vec)
			return
		}
		_ = affected
		if !ud.HasErrors() && !d1.HasErrors() {
			// the result with the collection unknown must soundly approximate the concrete result
			if m := c05.Approx(uv, v1, "result"); m != "" {
				c.Violation("unknown-for_each/unsound", fmt.Sprintf("%s with %s unknown: result %s does not approximate the concrete result %s: %s", desc, x, e1.Describe(uv), e1.Describe(v1), m), vec)
				return
			}
		}
	}

	// for_each with KNOWN length but an unknown element: still one block per element (the first
	// sentence of the property applies: the written-out body has as many blocks), only the parts
	// that depend on the unknown element may be unknown
	for _, x := range forEachVars(items) {
		if varsOnly || d1.HasErrors() {
			break
		}
		sc := Scope()
		orig := sc[x]
		if !(orig.Type().IsListType() || orig.Type().IsTupleType()) || orig.LengthInt() == 0 {
			continue
		}
		els := orig.AsValueSlice()
		if !els[0].Type().IsPrimitiveType() {
			continue // an unknown nested collection makes the nested for_each itself unknown
		}
		els[0] = cty.UnknownVal(els[0].Type())
		if orig.Type().IsListType() {
			sc[x] = cty.ListVal(els)
		} else {
			sc[x] = cty.TupleVal(els)
		}
		pctx := &hcl.EvalContext{Variables: sc}
		var pv cty.Value
		var pd hcl.Diagnostics
		c.Count("evaluations", 1)
		if rec, p := core.Guard(func() { pv, pd = hcldec.Decode(dynblock.Expand(df.Body, pctx), spec, pctx) }); p {
			c.Violation("panic/partly-unknown-for_each", fmt.Sprintf("%s with the first element of %s unknown: panicked: %v", desc, x, rec), vec)
			return
		}
		if pd.HasErrors() {
			continue
		}
		if m := c05.Approx(pv, v1, "result"); m != "" {
			c.Violation("partly-unknown-for_each/unsound", fmt.Sprintf("%s with the first element of %s unknown: result %s does not approximate %s: %s", desc, x, e1.Describe(pv), e1.Describe(v1), m), vec)
			return
		}
		if m := sameShape(pv, v1, "result"); m != "" {
			c.Violation("partly-unknown-for_each/shape", fmt.Sprintf("%s with the first element of %s unknown (its length is known): result %s does not have one block per element like %s: %s", desc, x, e1.Describe(pv), e1.Describe(v1), m), vec)
			return
		}
	}

	// the variables reported for expansion / decoding are sufficient
	if hasDyn {
		var roots []string
		if rec, p := core.Guard(func() {
			set := map[string]bool{}
			for _, t := range dynblock.VariablesHCLDec(df.Body, spec) {
				set[t.RootName()] = true
			}
			for _, t := range dynblock.ExpandVariablesHCLDec(df.Body, spec) {
				if !set[t.RootName()] {
					// expansion variables are a subset of all variables
					set["#expand-only:"+t.RootName()] = true
				}
			}
			for k := range set {
				roots = append(roots, k)
			}
		}); p {
			c.Violation("panic/variables", fmt.Sprintf("%s: VariablesHCLDec panicked: %v", desc, rec), vec)
			return
		}
		sort.Strings(roots)
		pruned := map[string]cty.Value{}
		for _, r := range roots {
			if strings.HasPrefix(r, "#expand-only:") {
				c.Violation("variables/expand-not-subset", fmt.Sprintf("%s: ExpandVariablesHCLDec reports %s which VariablesHCLDec does not", desc, r), vec)
				return
			}
			if v, ok := Scope()[r]; ok {
				pruned[r] = v
			}
		}
		for _, r := range roots {
			for _, itn := range []string{"it", "inner", "o", "x", "y", "z"} {
				if r == itn {
					c.Violation("variables/iterator-reported", fmt.Sprintf("%s: iterator name %q is reported as a variable", desc, r), vec)
					return
				}
			}
		}
		pctx := &hcl.EvalContext{Variables: pruned}
		var pv cty.Value
		var pdg hcl.Diagnostics
		c.Count("evaluations", 1)
		if rec, p := core.Guard(func() { pv, pdg = hcldec.Decode(dynblock.Expand(df.Body, pctx), spec, pctx) }); p {
			c.Violation("panic/pruned-scope", fmt.Sprintf("%s: decode in the pruned scope %v panicked: %v", desc, roots, rec), vec)
			return
		}
		if !pv.RawEquals(v1) || !e1.SameDiags(pdg, d1) {
			c.Violation("variables/insufficient", fmt.Sprintf("%s: reported roots %v; full scope gives %s %v, pruned scope gives %s %v", desc, roots, e1.Describe(v1), e1.NormDiags(d1), e1.Describe(pv), e1.NormDiags(pdg)), vec)
			return
		}
	}
	if !hasDyn {
		// a body without dynamic blocks: hcldec.Variables and the dynblock walker must agree and be sufficient
		var a, b []string
		for _, t := range hcldec.Variables(df.Body, spec) {
			a = append(a, t.RootName())
		}
		for _, t := range dynblock.VariablesHCLDec(df.Body, spec) {
			b = append(b, t.RootName())
		}
		sort.Strings(a)
		sort.Strings(b)
		if fmt.Sprint(a) != fmt.Sprint(b) {
			c.Violation("variables/static-walkers-differ", fmt.Sprintf("%s: hcldec.Variables reports %v, dynblock.VariablesHCLDec reports %v", desc, a, b), vec)
			return
		}
	}
	if hasDyn {
		c.Nontrivial(desc)
		if len(items) >= 2 {
			c.Sample(map[string]any{"spec": sn.String(), "dynamic_source": dynSrc, "written_out": outSrc})
		}
	}
}

// sameShape: wherever the concrete result is a tuple, list, map or object, the result computed with
// an unknown ELEMENT (known length) must be known and have the same length / keys; primitive leaves
// and sets may be unknown.
func sameShape(u, c cty.Value, path string) string {
	u, _ = u.Unmark()
	c, _ = c.Unmark()
	ct := c.Type()
	if c.IsNull() || !c.IsKnown() {
		return ""
	}
	if !(ct.IsTupleType() || ct.IsListType() || ct.IsMapType() || ct.IsObjectType()) {
		return ""
	}
	if !u.IsKnown() {
		return path + " is unknown although the number of generated blocks is known"
	}
	if u.IsNull() {
		return path + " is null"
	}
	ut := u.Type()
	if !(ut.IsTupleType() || ut.IsListType() || ut.IsMapType() || ut.IsObjectType()) {
		return path + " has a different kind"
	}
	if ut.IsObjectType() != ct.IsObjectType() {
		return ""
	}
	if u.LengthInt() != c.LengthInt() {
		return fmt.Sprintf("%s has %d elements instead of %d", path, u.LengthInt(), c.LengthInt())
	}
	if ct.IsObjectType() {
		for name := range ct.AttributeTypes() {
			if !ut.HasAttribute(name) {
				return path + " lacks attribute " + name
			}
			if m := sameShape(u.GetAttr(name), c.GetAttr(name), path+"."+name); m != "" {
				return m
			}
		}
		return ""
	}
	it := c.ElementIterator()
	for it.Next() {
		k, cv := it.Element()
		if !u.HasIndex(k).True() {
			return fmt.Sprintf("%s lacks key %s", path, e1.Describe(k))
		}
		if m := sameShape(u.Index(k), cv, path+"["+e1.Describe(k)+"]"); m != "" {
			return m
		}
	}
	return ""
}
