// Package c10: loading a file into the hclwrite tree and saving it loses nothing.
package c10

import (
	"bytes"
	"fmt"
	"sort"
	"strings"

	"github.com/hashicorp/hcl/v2"
	"github.com/hashicorp/hcl/v2/hclsyntax"
	"github.com/hashicorp/hcl/v2/hclwrite"

	"verif/harness/c09"
	"verif/harness/core"
	"verif/harness/e1"
)

func compareBody(wb *hclwrite.Body, sb *hclsyntax.Body, src []byte, path string) string {
	wattrs := wb.Attributes()
	var wn, sn []string
	for n := range wattrs {
		wn = append(wn, n)
	}
	for n := range sb.Attributes {
		sn = append(sn, n)
	}
	sort.Strings(wn)
	sort.Strings(sn)
	if fmt.Sprint(wn) != fmt.Sprint(sn) {
		return fmt.Sprintf("%s: tree exposes attributes %v, source has %v", path, wn, sn)
	}
	for _, n := range sn {
		wa := wattrs[n]
		if wb.GetAttribute(n) == nil {
			return fmt.Sprintf("%s: GetAttribute(%q) is nil", path, n)
		}
		// every variable reference of the source is exposed, in source order
		want := sb.Attributes[n].Expr.Variables()
		got := wa.Expr().Variables()
		if len(got) != len(want) {
			return fmt.Sprintf("%s attribute %q: tree exposes %d variable references, the expression has %d", path, n, len(got), len(want))
		}
		for i := range want {
			ws := strings.Join(strings.Fields(string(want[i].SourceRange().SliceBytes(src))), "")
			gs := strings.Join(strings.Fields(string(got[i].BuildTokens(nil).Bytes())), "")
			if ws != gs {
				return fmt.Sprintf("%s attribute %q: variable reference %d is %q in the tree, %q in the source", path, n, i, gs, ws)
			}
		}
		// the expression's tokens are the source's
		es := strings.Join(strings.Fields(string(sb.Attributes[n].Expr.Range().SliceBytes(src))), "")
		eg := strings.Join(strings.Fields(string(wa.Expr().BuildTokens(nil).Bytes())), "")
		if es != eg && !strings.Contains(es, "\"") && !strings.Contains(es, "/*") && !strings.Contains(es, "#") {
			return fmt.Sprintf("%s attribute %q: expression tokens %q in the tree, %q in the source", path, n, eg, es)
		}
	}
	wblocks := wb.Blocks()
	if len(wblocks) != len(sb.Blocks) {
		return fmt.Sprintf("%s: tree exposes %d blocks, source has %d", path, len(wblocks), len(sb.Blocks))
	}
	for i, sbl := range sb.Blocks {
		w := wblocks[i]
		if w.Type() != sbl.Type {
			return fmt.Sprintf("%s: block %d has type %q in the tree, %q in the source", path, i, w.Type(), sbl.Type)
		}
		wl := w.Labels()
		if len(wl) != len(sbl.Labels) {
			return fmt.Sprintf("%s: block %d has labels %q in the tree, %q in the source", path, i, wl, sbl.Labels)
		}
		for j := range wl {
			if wl[j] != sbl.Labels[j] {
				return fmt.Sprintf("%s: block %d has labels %q in the tree, %q in the source", path, i, wl, sbl.Labels)
			}
		}
		if m := compareBody(w.Body(), sbl.Body, src, fmt.Sprintf("%s/%s[%d]", path, sbl.Type, i)); m != "" {
			return m
		}
	}
	return ""
}

// CheckSource applies the C10 relation to one configuration text.
func CheckSource(c *core.Check, src string, vec map[string]any) bool {
	sf, d0 := hclsyntax.ParseConfig([]byte(src), "x.hcl", hcl.InitialPos)
	if d0.HasErrors() {
		return false
	}
	c.Count("evaluations", 1)
	var wf *hclwrite.File
	var wd hcl.Diagnostics
	if rec, p := core.Guard(func() { wf, wd = hclwrite.ParseConfig([]byte(src), "x.hcl", hcl.InitialPos) }); p {
		c.Violation("panic/ParseConfig", fmt.Sprintf("hclwrite.ParseConfig(%q) panicked: %v", src, rec), vec)
		return true
	}
	if wd.HasErrors() || wf == nil {
		c.Violation("load-fails", fmt.Sprintf("hclwrite.ParseConfig(%q) fails on an error-free configuration: %s", src, wd.Error()), vec)
		return true
	}
	var out []byte
	if rec, p := core.Guard(func() { out = wf.Bytes() }); p {
		c.Violation("panic/Bytes", fmt.Sprintf("File.Bytes() after loading %q panicked: %v", src, rec), vec)
		return true
	}
	t0, _ := c09.Lex([]byte(src))
	t1, _ := c09.Lex(out)
	same := len(t0) == len(t1)
	if same {
		for i := range t0 {
			if t0[i] != t1[i] {
				same = false
				break
			}
		}
	}
	if !same {
		// name the source tokens around the first difference
		i := 0
		for i < len(t0) && i < len(t1) && t0[i] == t1[i] {
			i++
		}
		lo, hi := i, i+2
		var parts []string
		for j := lo; j <= hi && j < len(t0); j++ {
			parts = append(parts, t0[j].T.String())
		}
		c.Violation("tokens-lost/"+strings.Join(parts, "·"), fmt.Sprintf("loading %q and saving gives %q: token sequence differs", src, out), vec)
		return true
	}
	if want := hclwrite.Format([]byte(src)); !bytes.Equal(out, want) {
		c.Violation("bytes-differ-from-format", fmt.Sprintf("loading %q and saving gives %q, Format gives %q", src, out, want), vec)
		return true
	}
	var m string
	if rec, p := core.Guard(func() { m = compareBody(wf.Body(), sf.Body.(*hclsyntax.Body), []byte(src), "root") }); p {
		c.Violation("panic/accessors", fmt.Sprintf("tree accessors after loading %q panicked: %v", src, rec), vec)
		return true
	}
	if m != "" {
		kind := "tree-differs"
		if strings.Contains(m, "variable reference") {
			kind = "variables-differ"
		} else if strings.Contains(m, "labels") {
			kind = "labels-differ"
		}
		c.Violation(kind, fmt.Sprintf("loading %q: %s", src, m), vec)
		return true
	}
	return true
}

func HandleE1(c *core.Check, st core.State) {
	v, err := e1.DecodeVector(st)
	if err != nil {
		c.Broken("%v", err)
		return
	}
	c.Count("vectors_replayed", 1)
	for _, src := range c09.Configs(v.Node) {
		vec := map[string]any{"state": st.Raw, "source": src, "kind": "e1"}
		if !CheckSource(c, src, vec) {
			c.Broken("generated configuration does not parse (C01 owns this): %q", src)
			return
		}
	}
	c.Nontrivial(e1.Render(v.Node, e1.Layout{}))
	if v.Last != "leaf" && len(v.FV) > 0 {
		c.Sample(map[string]any{"source": c09.Configs(v.Node)[0], "variables": v.FV})
	}
}
