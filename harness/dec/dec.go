// Package dec binds HclDec.tla to hcldec: spec trees, bodies, renderings.
package dec

import (
	"fmt"
	"strings"

	"github.com/hashicorp/hcl/v2"
	"github.com/hashicorp/hcl/v2/hcldec"
	"github.com/zclconf/go-cty/cty"
	"github.com/zclconf/go-cty/cty/function"

	"verif/harness/e1"
	"verif/harness/tla"
)

type SpecNode struct {
	K     string
	Name  string
	Ty    cty.Type
	Flag  bool
	N, M  int
	Names []string
	Sub   []*SpecNode
}

func DecodeSpec(v any) *SpecNode {
	m := tla.Rec(v)
	ty, _ := e1.DecodeType(m["ty"])
	s := &SpecNode{K: tla.Str(m["k"]), Name: tla.Str(m["name"]), Ty: ty, Flag: tla.Bool(m["flag"]), N: tla.Int(m["n"]), M: tla.Int(m["m"]), Names: tla.Strs(m["names"])}
	for _, x := range tla.Seq(m["sub"]) {
		s.Sub = append(s.Sub, DecodeSpec(x))
	}
	return s
}

var LitVals = []cty.Value{cty.NilVal, cty.NumberIntVal(7), cty.StringVal("dflt")}

var wrapFunc = function.New(&function.Spec{
	Params: []function.Parameter{{Name: "v", Type: cty.DynamicPseudoType, AllowNull: true, AllowUnknown: true, AllowDynamicType: true, AllowMarked: true}},
	Type:   func(args []cty.Value) (cty.Type, error) { return cty.Tuple([]cty.Type{args[0].Type()}), nil },
	Impl: func(args []cty.Value, retType cty.Type) (cty.Value, error) {
		return cty.TupleVal([]cty.Value{args[0]}), nil
	},
})

func labelNames(n int) []string { return []string{"k1", "k2", "k3", "k4"}[:n] }

// Build constructs the real hcldec.Spec.
func (s *SpecNode) Build() hcldec.Spec {
	switch s.K {
	case "attr":
		return &hcldec.AttrSpec{Name: s.Name, Type: s.Ty, Required: s.Flag}
	case "literal":
		return &hcldec.LiteralSpec{Value: LitVals[s.N]}
	case "label":
		return &hcldec.BlockLabelSpec{Index: s.N, Name: fmt.Sprintf("l%d", s.N)}
	case "block":
		return &hcldec.BlockSpec{TypeName: s.Name, Nested: s.Sub[0].Build(), Required: s.Flag}
	case "blocklist":
		return &hcldec.BlockListSpec{TypeName: s.Name, Nested: s.Sub[0].Build(), MinItems: s.N, MaxItems: s.M}
	case "blocktuple":
		return &hcldec.BlockTupleSpec{TypeName: s.Name, Nested: s.Sub[0].Build(), MinItems: s.N, MaxItems: s.M}
	case "blockset":
		return &hcldec.BlockSetSpec{TypeName: s.Name, Nested: s.Sub[0].Build(), MinItems: s.N, MaxItems: s.M}
	case "blockmap":
		return &hcldec.BlockMapSpec{TypeName: s.Name, LabelNames: labelNames(s.N), Nested: s.Sub[0].Build()}
	case "blockobject":
		return &hcldec.BlockObjectSpec{TypeName: s.Name, LabelNames: labelNames(s.N), Nested: s.Sub[0].Build()}
	case "blockattrs":
		return &hcldec.BlockAttrsSpec{TypeName: s.Name, ElementType: s.Ty, Required: s.Flag}
	case "default":
		return &hcldec.DefaultSpec{Primary: s.Sub[0].Build(), Default: s.Sub[1].Build()}
	case "object":
		m := hcldec.ObjectSpec{}
		for i, n := range s.Names {
			m[n] = s.Sub[i].Build()
		}
		return m
	case "tuple":
		t := hcldec.TupleSpec{}
		for _, x := range s.Sub {
			t = append(t, x.Build())
		}
		return t
	case "transform":
		return &hcldec.TransformFuncSpec{Wrapped: s.Sub[0].Build(), Func: wrapFunc}
	case "validate":
		return &hcldec.ValidateSpec{Wrapped: s.Sub[0].Build(), Func: func(v cty.Value) hcl.Diagnostics {
			u, _ := v.Unmark()
			if u.IsKnown() && !u.IsNull() && u.Type() == cty.Number && u.RawEquals(cty.NumberIntVal(13)) {
				return hcl.Diagnostics{{Severity: hcl.DiagError, Summary: "Unlucky", Detail: "The number thirteen is not accepted."}}
			}
			return nil
		}}
	case "refine":
		return &hcldec.RefineValueSpec{Wrapped: s.Sub[0].Build(), Refine: func(b *cty.RefinementBuilder) *cty.RefinementBuilder { return b.NotNull() }}
	}
	panic("unknown spec kind " + s.K)
}

func (s *SpecNode) String() string {
	var sub []string
	for _, x := range s.Sub {
		sub = append(sub, x.String())
	}
	switch s.K {
	case "attr":
		r := ""
		if s.Flag {
			r = "!"
		}
		return fmt.Sprintf("attr(%s%s:%s)", s.Name, r, s.Ty.FriendlyName())
	case "literal":
		return fmt.Sprintf("lit(%d)", s.N)
	case "label":
		return fmt.Sprintf("label(%d)", s.N)
	case "blockattrs":
		return fmt.Sprintf("blockattrs(%s:%s,req=%v)", s.Name, s.Ty.FriendlyName(), s.Flag)
	case "block":
		return fmt.Sprintf("block(%s,req=%v,%s)", s.Name, s.Flag, sub[0])
	case "blocklist", "blocktuple", "blockset":
		return fmt.Sprintf("%s(%s,%d..%d,%s)", s.K, s.Name, s.N, s.M, sub[0])
	case "blockmap", "blockobject":
		return fmt.Sprintf("%s(%s,%d labels,%s)", s.K, s.Name, s.N, sub[0])
	case "object":
		var fs []string
		for i, n := range s.Names {
			fs = append(fs, n+"="+sub[i])
		}
		return "object{" + strings.Join(fs, ",") + "}"
	}
	return s.K + "(" + strings.Join(sub, ",") + ")"
}

// ---- bodies ----

type Item struct {
	K      string
	Name   string
	Labels []string
	Val    *e1.Node
	Body   []Item
}

func DecodeBody(v any) []Item {
	var out []Item
	for _, x := range tla.Seq(v) {
		m := tla.Rec(x)
		it := Item{K: tla.Str(m["k"]), Name: tla.Str(m["name"]), Labels: tla.Strs(m["labels"])}
		if it.K == "attr" {
			it.Val = e1.DecodeNode(m["val"])
		} else {
			it.Body = DecodeBody(m["body"])
		}
		out = append(out, it)
	}
	return out
}

func Native(items []Item, indent string) string {
	var sb strings.Builder
	for _, it := range items {
		if it.K == "attr" {
			fmt.Fprintf(&sb, "%s%s = %s\n", indent, it.Name, e1.Render(it.Val, e1.Layout{}))
			continue
		}
		sb.WriteString(indent + it.Name)
		for _, l := range it.Labels {
			fmt.Fprintf(&sb, " %q", l)
		}
		sb.WriteString(" {\n")
		sb.WriteString(Native(it.Body, indent+"  "))
		sb.WriteString(indent + "}\n")
	}
	return sb.String()
}

// PrintDoc prints a JsonEnc.tla document tree (nodes [k, s, sub, x]) as JSON text.
func PrintDoc(v any) string {
	m := tla.Rec(v)
	switch tla.Str(m["k"]) {
	case "expr":
		return jsonExpr(e1.DecodeNode(m["x"]))
	case "str":
		return fmt.Sprintf("%q", tla.Str(m["s"]))
	case "arr":
		var xs []string
		for _, e := range tla.Seq(m["sub"]) {
			xs = append(xs, PrintDoc(e))
		}
		return "[" + strings.Join(xs, ", ") + "]"
	case "obj":
		var ps []string
		for _, e := range tla.Seq(m["sub"]) {
			pm := tla.Rec(e)
			ps = append(ps, fmt.Sprintf("%q: %s", tla.Str(pm["s"]), PrintDoc(tla.Seq(pm["sub"])[0])))
		}
		return "{" + strings.Join(ps, ", ") + "}"
	}
	panic("unknown document node " + tla.Str(m["k"]))
}

// Ctx is the evaluation context of decoded bodies (MC_Dec!EmptyEnv).
func Ctx() *hcl.EvalContext {
	return &hcl.EvalContext{Variables: map[string]cty.Value{
		"n1": cty.NumberIntVal(1), "u": cty.UnknownVal(cty.Number), "d": cty.DynamicVal, "nn": cty.NullVal(cty.String),
	}}
}

func jsonExpr(n *e1.Node) string {
	switch n.K {
	case "var":
		return fmt.Sprintf("%q", "${"+n.S+"}")
	case "num":
		if n.N%2 == 0 {
			return fmt.Sprint(n.N / 2)
		}
		return fmt.Sprintf("%d.5", n.N/2)
	case "bool":
		if n.N == 1 {
			return "true"
		}
		return "false"
	case "null":
		return "null"
	case "tuple":
		var xs []string
		for _, s := range n.Sub {
			xs = append(xs, jsonExpr(s))
		}
		return "[" + strings.Join(xs, ", ") + "]"
	case "tpl":
		s := ""
		for _, p := range n.Sub {
			s += p.S
		}
		// bodies are decoded with an evaluation context, so JSON strings are templates: literal
		// introducers are written escaped, as in the native syntax
		s = strings.NewReplacer("${", "$${", "%{", "%%{").Replace(s)
		return fmt.Sprintf("%q", s)
	case "object":
		var ms []string
		for i := 0; i+1 < len(n.Sub); i += 2 {
			k := n.Sub[i]
			name := k.S
			if k.K == "tpl" {
				name = ""
				for _, p := range k.Sub {
					name += p.S
				}
			}
			ms = append(ms, fmt.Sprintf("%q: %s", name, jsonExpr(n.Sub[i+1])))
		}
		return "{" + strings.Join(ms, ", ") + "}"
	}
	panic("jsonExpr: unsupported literal " + n.K)
}

// JSON renders the body in one of several admissible encodings (json/spec.md):
//
//	0: one property per item, duplicate names where needed
//	1: blocks of one type grouped as an array of bodies under one property
//	2: like 1, and the whole body as an array of single-property objects
//	3: labelled blocks merged into one nested label object per type, plus "//" comment properties
//	4: like 0 (source order kept), the top-level body as an array of single-property objects
func JSON(items []Item, variant int) string { return jsonBody(items, variant, true) }

func jsonBody(items []Item, variant int, top bool) string {
	blockBody := func(it Item) string {
		b := jsonBody(it.Body, variant, false)
		for i := len(it.Labels) - 1; i >= 0; i-- {
			b = fmt.Sprintf("{%q: %s}", it.Labels[i], b)
		}
		return b
	}
	var props []string
	switch variant {
	case 0, 4:
		for _, it := range items {
			if it.K == "attr" {
				props = append(props, fmt.Sprintf("%q: %s", it.Name, jsonExpr(it.Val)))
			} else {
				props = append(props, fmt.Sprintf("%q: %s", it.Name, blockBody(it)))
			}
		}
		if variant == 4 && top {
			for i := range props {
				props[i] = "{" + props[i] + "}"
			}
			return "[" + strings.Join(props, ", ") + "]"
		}
	case 1, 2:
		done := map[string]bool{}
		for _, it := range items {
			if it.K == "attr" {
				props = append(props, fmt.Sprintf("%q: %s", it.Name, jsonExpr(it.Val)))
				continue
			}
			if done[it.Name] {
				continue
			}
			done[it.Name] = true
			var bodies []string
			for _, other := range items {
				if other.K == "block" && other.Name == it.Name {
					bodies = append(bodies, blockBody(other))
				}
			}
			props = append(props, fmt.Sprintf("%q: [%s]", it.Name, strings.Join(bodies, ", ")))
		}
		// only a file's top-level body (and label levels) may be an array of objects:
		// an array in block-body position means several blocks
		if variant == 2 && top {
			// array-of-objects form, with "//" comment properties both as an element of their
			// own and next to real properties
			for i := range props {
				if i%2 == 0 {
					props[i] = `{"//": "comment", ` + props[i] + "}"
				} else {
					props[i] = "{" + props[i] + "}"
				}
			}
			props = append([]string{`{"//": ["a", "comment", "object"]}`}, props...)
			return "[" + strings.Join(props, ", ") + "]"
		}
		if variant == 2 {
			props = append(props, `"//": "comment in a nested body"`)
		}
	case 3:
		props = append(props, `"//": "a comment property"`)
		done := map[string]bool{}
		for _, it := range items {
			if it.K == "attr" {
				props = append(props, fmt.Sprintf("%q: %s", it.Name, jsonExpr(it.Val)))
				continue
			}
			if done[it.Name] {
				continue
			}
			done[it.Name] = true
			// merge by first label where all blocks of the type have labels and first labels are distinct
			var same []Item
			for _, other := range items {
				if other.K == "block" && other.Name == it.Name {
					same = append(same, other)
				}
			}
			// nested label objects: blocks sharing a label prefix share the nested object.
			// Only possible when all blocks of the type have the same label count and no two are identical.
			mergeable := len(same) > 0
			seenL := map[string]bool{}
			for _, b := range same {
				if len(b.Labels) == 0 || len(b.Labels) != len(same[0].Labels) || seenL[strings.Join(b.Labels, "\x00")] {
					mergeable = false
				}
				seenL[strings.Join(b.Labels, "\x00")] = true
			}
			if mergeable {
				var nest func(bs []Item, depth int) string
				nest = func(bs []Item, depth int) string {
					if depth == len(bs[0].Labels) {
						return jsonBody(bs[0].Body, variant, false)
					}
					var order []string
					groups := map[string][]Item{}
					for _, b := range bs {
						l := b.Labels[depth]
						if _, ok := groups[l]; !ok {
							order = append(order, l)
						}
						groups[l] = append(groups[l], b)
					}
					var entries []string
					for _, l := range order {
						entries = append(entries, fmt.Sprintf("%q: %s", l, nest(groups[l], depth+1)))
					}
					return "{" + strings.Join(entries, ", ") + "}"
				}
				// grouping by label changes the global order of blocks of this type unless equal
				// labels are adjacent; only use the merged form when the order is preserved
				ordered := true
				var flat func(bs []Item, depth int, out *[]string)
				flat = func(bs []Item, depth int, out *[]string) {
					if depth == len(bs[0].Labels) {
						*out = append(*out, strings.Join(bs[0].Labels, "/"))
						return
					}
					var order []string
					groups := map[string][]Item{}
					for _, b := range bs {
						l := b.Labels[depth]
						if _, ok := groups[l]; !ok {
							order = append(order, l)
						}
						groups[l] = append(groups[l], b)
					}
					for _, l := range order {
						flat(groups[l], depth+1, out)
					}
				}
				var got []string
				flat(same, 0, &got)
				for i, b := range same {
					if got[i] != strings.Join(b.Labels, "/") {
						ordered = false
					}
				}
				if ordered {
					props = append(props, fmt.Sprintf("%q: %s", it.Name, nest(same, 0)))
					continue
				}
			}
			{
				var bodies []string
				for _, b := range same {
					bodies = append(bodies, blockBody(b))
				}
				props = append(props, fmt.Sprintf("%q: [%s]", it.Name, strings.Join(bodies, ", ")))
			}
		}
	}
	return "{" + strings.Join(props, ", ") + "}"
}

// Conforms implements the C08 type relation on cty types: equal outside dynamic positions.
func Conforms(vt, it cty.Type) bool {
	if it == cty.DynamicPseudoType {
		return true
	}
	switch {
	case it.IsPrimitiveType():
		return vt.Equals(it)
	case it.IsListType():
		return vt.IsListType() && Conforms(vt.ElementType(), it.ElementType())
	case it.IsSetType():
		return vt.IsSetType() && Conforms(vt.ElementType(), it.ElementType())
	case it.IsMapType():
		return vt.IsMapType() && Conforms(vt.ElementType(), it.ElementType())
	case it.IsTupleType():
		if !vt.IsTupleType() || len(vt.TupleElementTypes()) != len(it.TupleElementTypes()) {
			return false
		}
		for i, et := range it.TupleElementTypes() {
			if !Conforms(vt.TupleElementTypes()[i], et) {
				return false
			}
		}
		return true
	case it.IsObjectType():
		if !vt.IsObjectType() || len(vt.AttributeTypes()) != len(it.AttributeTypes()) {
			return false
		}
		for n, at := range it.AttributeTypes() {
			if !vt.HasAttribute(n) || !Conforms(vt.AttributeType(n), at) {
				return false
			}
		}
		return true
	}
	return vt.Equals(it)
}
