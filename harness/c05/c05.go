// Package c05: evaluation with unknown values soundly approximates every concrete evaluation.
package c05

import (
	"fmt"

	"github.com/hashicorp/hcl/v2"
	"github.com/hashicorp/hcl/v2/hclsyntax"
	"github.com/zclconf/go-cty/cty"
	"github.com/zclconf/go-cty/cty/convert"
	"github.com/zclconf/go-cty/cty/function"

	"verif/harness/core"
	"verif/harness/e1"
)

// abstractions of one concrete value: typed unknown, dynamic, refined unknowns
// that the concrete value (and the listed alternates that satisfy them) inhabit.
type abstraction struct {
	name string
	val  cty.Value
	// admits reports whether a concrete instantiation is inside the abstraction
	admits func(c cty.Value) bool
}

func abstractions(v cty.Value) []abstraction {
	t := v.Type()
	any := func(c cty.Value) bool { return true }
	out := []abstraction{
		{"unknown", cty.UnknownVal(t), any},
		{"dynamic", cty.DynamicVal, any},
	}
	if t == cty.DynamicPseudoType {
		return out[1:]
	}
	notNull := func(c cty.Value) bool { return !c.IsNull() }
	out = append(out, abstraction{"notnull", cty.UnknownVal(t).RefineNotNull(), notNull})
	if v.IsNull() {
		return out[:2]
	}
	switch {
	case t == cty.String:
		s := v.AsString()
		if len(s) > 0 {
			p := s[:1]
			out = append(out, abstraction{"prefix", cty.UnknownVal(t).Refine().NotNull().StringPrefix(p).NewValue(),
				func(c cty.Value) bool { return !c.IsNull() && len(c.AsString()) >= 1 && c.AsString()[:1] == p }})
		}
	case t == cty.Number:
		lo := v.Subtract(cty.NumberIntVal(1))
		hi := v.Add(cty.NumberIntVal(1))
		out = append(out, abstraction{"bounds", cty.UnknownVal(t).Refine().NotNull().NumberRangeLowerBound(lo, true).NumberRangeUpperBound(hi, true).NewValue(),
			func(c cty.Value) bool {
				return !c.IsNull() && c.GreaterThanOrEqualTo(lo).True() && c.LessThanOrEqualTo(hi).True()
			}})
		// exclusive bounds that coincide with neighbouring scope values (n1 = 1, n2 = 2, ...)
		out = append(out, abstraction{"bounds-exclusive", cty.UnknownVal(t).Refine().NotNull().NumberRangeLowerBound(lo, false).NumberRangeUpperBound(hi, false).NewValue(),
			func(c cty.Value) bool {
				return !c.IsNull() && c.GreaterThan(lo).True() && c.LessThan(hi).True()
			}})
		out = append(out, abstraction{"lower-exclusive", cty.UnknownVal(t).Refine().NotNull().NumberRangeLowerBound(lo, false).NewValue(),
			func(c cty.Value) bool { return !c.IsNull() && c.GreaterThan(lo).True() }})
		out = append(out, abstraction{"upper-exclusive", cty.UnknownVal(t).Refine().NotNull().NumberRangeUpperBound(hi, false).NewValue(),
			func(c cty.Value) bool { return !c.IsNull() && c.LessThan(hi).True() }})
	case t.IsCollectionType():
		n := v.LengthInt()
		out = append(out, abstraction{"length", cty.UnknownVal(t).Refine().NotNull().CollectionLengthLowerBound(n).CollectionLengthUpperBound(n + 1).NewValue(),
			func(c cty.Value) bool { return !c.IsNull() && c.LengthInt() >= n && c.LengthInt() <= n+1 }})
	}
	return out
}

// approx reports "" when the abstract result soundly approximates the concrete one.
// Approx is the soundness relation of C05: "" when abs soundly approximates conc.
func Approx(abs, conc cty.Value, path string) string { return approx(abs, conc, path) }

func approx(abs, conc cty.Value, path string) string {
	abs, _ = abs.Unmark()
	conc, _ = conc.Unmark()
	if !abs.IsKnown() {
		at := abs.Type()
		if at != cty.DynamicPseudoType {
			if errs := conc.Type().TestConformance(at); len(errs) > 0 {
				return fmt.Sprintf("%s: abstract result is unknown %s but the concrete result has type %s", path, at.FriendlyName(), conc.Type().FriendlyName())
			}
			infinite := conc.Type() == cty.Number && conc.IsKnown() && !conc.IsNull() && conc.AsBigFloat().IsInf()
			if infinite {
				// cty's number ranges are open at the infinities; an infinite result only has to respect not-null
				return ""
			}
			if !at.HasDynamicTypes() {
				inc := abs.Range().Includes(conc)
				if inc.IsKnown() && inc.False() {
					return fmt.Sprintf("%s: abstract result %#v carries a refinement the concrete result %#v violates", path, abs, conc)
				}
			}
		}
		return ""
	}
	ct := conc.Type()
	av := abs
	if !abs.Type().Equals(ct) {
		conv, err := convert.Convert(abs, ct)
		if err != nil {
			return fmt.Sprintf("%s: abstract result of type %s cannot be converted to the concrete result's type %s", path, abs.Type().FriendlyName(), ct.FriendlyName())
		}
		av = conv
	}
	if av.IsNull() || conc.IsNull() {
		if av.IsNull() != conc.IsNull() {
			return fmt.Sprintf("%s: abstract result %#v vs concrete %#v (nullness differs)", path, av, conc)
		}
		return ""
	}
	if !av.IsKnown() {
		return approx(av, conc, path)
	}
	switch {
	case ct.IsPrimitiveType():
		if !av.RawEquals(conc) {
			return fmt.Sprintf("%s: known abstract result %#v differs from the concrete result %#v", path, av, conc)
		}
	case ct.IsSetType():
		if av.IsWhollyKnown() {
			if !av.RawEquals(conc) {
				return fmt.Sprintf("%s: known abstract set %#v differs from the concrete %#v", path, av, conc)
			}
		}
	case ct.IsListType() || ct.IsTupleType() || ct.IsMapType() || ct.IsObjectType():
		if av.LengthInt() != conc.LengthInt() {
			return fmt.Sprintf("%s: abstract result has %d elements, concrete has %d", path, av.LengthInt(), conc.LengthInt())
		}
		it := av.ElementIterator()
		for it.Next() {
			k, ev := it.Element()
			if ct.IsObjectType() {
				if !conc.Type().HasAttribute(k.AsString()) {
					return fmt.Sprintf("%s: attribute %q missing in concrete result", path, k.AsString())
				}
				if m := approx(ev, conc.GetAttr(k.AsString()), path+"."+k.AsString()); m != "" {
					return m
				}
				continue
			}
			if !conc.HasIndex(k).True() {
				return fmt.Sprintf("%s: key %#v missing in concrete result", path, k)
			}
			if m := approx(ev, conc.Index(k), fmt.Sprintf("%s[%s]", path, e1.Describe(k))); m != "" {
				return m
			}
		}
	}
	return ""
}

func Handle(c *core.Check, st core.State) {
	v, err := e1.DecodeVector(st)
	if err != nil {
		c.Broken("%v", err)
		return
	}
	c.Count("vectors_replayed", 1)
	src := e1.Render(v.Node, e1.Layout{})
	vec := map[string]any{"state": st.Raw, "source": src}
	expr, diags := hclsyntax.ParseExpression([]byte(src), "e.hcl", hcl.InitialPos)
	if diags.HasErrors() {
		c.Broken("generated expression does not parse (C01 owns this): %q: %s", src, diags.Error())
		return
	}
	funcs := e1.Functions()
	eval := func(vars map[string]cty.Value) (val cty.Value, ds hcl.Diagnostics, pan any) {
		pan, _ = core.Guard(func() { val, ds = expr.Value(&hcl.EvalContext{Variables: vars, Functions: funcs}) })
		return
	}
	base := e1.Scope()
	// converse direction: no unknowns in, no unknowns out
	v0, d0, pan := eval(base)
	c.Count("evaluations", 1)
	if pan != nil {
		c.Violation("panic/"+e1.Fam(v.Node), fmt.Sprintf("%q panicked: %v", src, pan), vec)
		return
	}
	if !d0.HasErrors() && !v0.IsWhollyKnown() {
		c.Violation("unknown-from-known/"+e1.Fam(v.Node), fmt.Sprintf("%q evaluates without error in a wholly-known scope to %s, which is not wholly known", src, e1.Describe(v0)), vec)
		return
	}
	alts := e1.Alternates()
	scopeVars := []string{}
	for _, x := range v.FV {
		if _, ok := base[x]; ok {
			scopeVars = append(scopeVars, x)
		}
	}
	if len(scopeVars) == 0 {
		return
	}
	nontrivial := false
	// every non-empty subset of the free scope variables (at most 3 in generated ASTs; cap at 3)
	if len(scopeVars) > 3 {
		scopeVars = scopeVars[:3]
	}
	for mask := 1; mask < 1<<len(scopeVars); mask++ {
		var sub []string
		for i, x := range scopeVars {
			if mask&(1<<i) != 0 {
				sub = append(sub, x)
			}
		}
		// the abstraction kind is varied on each variable of the subset in turn (lead), the others use the typed unknown
		for li := range sub {
			lead := sub[li]
			for _, ab := range abstractions(base[lead]) {
				if li > 0 && (ab.name == "unknown") {
					continue // the all-typed-unknown combination was covered with the first lead
				}
				absScope := map[string]cty.Value{}
				for k, val := range base {
					absScope[k] = val
				}
				for _, x := range sub {
					absScope[x] = cty.UnknownVal(base[x].Type())
				}
				absScope[lead] = ab.val
				av, ad, pan := eval(absScope)
				c.Count("evaluations", 1)
				if pan != nil {
					c.Violation("panic/"+e1.Fam(v.Node), fmt.Sprintf("%q panicked with %v abstracted (%s: %s): %v", src, sub, lead, ab.name, pan), vec)
					return
				}
				if ad.HasErrors() {
					c.Count("abstract_error_skipped", 1)
					continue
				}
				// concrete instantiations: the base value and its alternates, for each abstracted variable
				insts := []map[string]cty.Value{{}}
				for _, x := range sub {
					// the base value, a null of its type (an unknown that is not refined as non-null may
					// turn out to be null), then the alternates
					cands := []cty.Value{base[x]}
					if !base[x].IsNull() {
						cands = append(cands, cty.NullVal(base[x].Type()))
					}
					cands = append(cands, alts[x]...)
					var next []map[string]cty.Value
					for _, m := range insts {
						for ci, cv := range cands {
							if x == lead && !ab.admits(cv) {
								continue
							}
							if len(sub) > 1 && ci > 3 {
								break
							}
							nm := map[string]cty.Value{}
							for k, vv := range m {
								nm[k] = vv
							}
							nm[x] = cv
							next = append(next, nm)
						}
					}
					insts = next
				}
				for _, inst := range insts {
					cs := map[string]cty.Value{}
					for k, val := range base {
						cs[k] = val
					}
					for k, val := range inst {
						cs[k] = val
					}
					cv, cd, pan := eval(cs)
					c.Count("evaluations", 1)
					if pan != nil {
						c.Violation("panic/"+e1.Fam(v.Node), fmt.Sprintf("%q panicked with %v: %v", src, inst, pan), vec)
						return
					}
					if cd.HasErrors() {
						continue
					}
					if m := approx(av, cv, "result"); m != "" {
						kindSig := "value"
						if !av.IsKnown() {
							kindSig = "unknown"
						}
						// localise to the smallest sub-expression that is itself unsound under the same scopes
						small, smallExtra := e1.Localise(v.Node, func(sub *e1.Node, extra map[string]cty.Value) bool {
							se, sd := hclsyntax.ParseExpression([]byte(e1.Render(sub, e1.Layout{})), "sub.hcl", hcl.InitialPos)
							if sd.HasErrors() {
								return false
							}
							a, ad := se.Value(&hcl.EvalContext{Variables: e1.With(absScope, extra), Functions: funcs})
							cc, cd := se.Value(&hcl.EvalContext{Variables: e1.With(cs, extra), Functions: funcs})
							return !ad.HasErrors() && !cd.HasErrors() && approx(a, cc, "result") != ""
						}, func(sub *e1.Node, extra map[string]cty.Value) (cty.Value, bool) {
							se, sd := hclsyntax.ParseExpression([]byte(e1.Render(sub, e1.Layout{})), "sub.hcl", hcl.InitialPos)
							if sd.HasErrors() {
								return cty.NilVal, false
							}
							val, vd := se.Value(&hcl.EvalContext{Variables: e1.With(cs, extra), Functions: funcs})
							return val, !vd.HasErrors()
						})
						sig := "unsound/" + kindSig + "/" + e1.Fam(small)
						if (small.K == "bin" && (small.S == "==" || small.S == "!=")) && equalityNestedDynamic(small, absScope, funcs) {
							// root cause in go-cty: Value.Equals answers False for a known value whose type
							// has dynamic parts against an unknown value of a different (but conformable) type
							sig = "unsound/equality/known-nested-dynamic-vs-unknown"
						}
						if tryCanOptimistic(small, e1.With(absScope, smallExtra), e1.With(cs, smallExtra), funcs) {
							sig = "unsound/try-can/argument-fails-only-concretely"
						}
						if condDynamicArm(v.Node, absScope, funcs) || condArmTypeShift(v.Node, absScope, cs, funcs) ||
							condDynamicArm(small, e1.With(absScope, smallExtra), funcs) || condArmTypeShift(small, e1.With(absScope, smallExtra), e1.With(cs, smallExtra), funcs) {
							// root cause: a conditional with one dynamically-typed arm returns the other
							// arm without converting it to the type the two arms will unify to
							sig = "unsound/cond-dynamic-arm"
						}
						if c.Violation(sig,
							fmt.Sprintf("%q with %v abstracted (%s=%s): abstract result %s, but with %s the concrete result is %s — %s (smallest unsound sub-expression: %q)",
								src, sub, lead, e1.Describe(ab.val), e1.Describe(av), descInst(inst), e1.Describe(cv), m, e1.Render(small, e1.Layout{})), vec) {
							continue // a listed finding: keep exploring the remaining instantiations
						}
						return
					}
					nontrivial = true
				}
			}
		}
	}
	if nontrivial {
		c.Nontrivial(src)
		if len(scopeVars) > 1 {
			c.Sample(map[string]any{"source": src, "abstracted_subsets_of": scopeVars})
		}
	}
}

func descInst(m map[string]cty.Value) string {
	s := ""
	for k, v := range m {
		s += k + "=" + e1.Describe(v) + " "
	}
	return s
}

// condDynamicArm reports whether the AST contains a conditional (evaluable in
// the top-level scope) one of whose arms is of the dynamic pseudo-type under
// the abstract scope while the other arm is not.
// equalityNestedDynamic: under the abstract scope one operand of ==/!= is known with a type that
// has dynamic parts and the other is unknown.
func equalityNestedDynamic(n *e1.Node, absScope map[string]cty.Value, funcs map[string]function.Function) bool {
	var vals [2]cty.Value
	for i := 0; i < 2; i++ {
		se, sd := hclsyntax.ParseExpression([]byte(e1.Render(n.Sub[i], e1.Layout{})), "op.hcl", hcl.InitialPos)
		if sd.HasErrors() {
			return false
		}
		ok := true
		func() {
			defer func() {
				if recover() != nil {
					ok = false
				}
			}()
			vals[i], _ = se.Value(&hcl.EvalContext{Variables: absScope, Functions: funcs})
		}()
		if !ok {
			return false
		}
	}
	for i := 0; i < 2; i++ {
		a, b := vals[i], vals[1-i]
		if a.IsKnown() && !a.IsNull() && a.Type() != cty.DynamicPseudoType && a.Type().HasDynamicTypes() && !b.IsKnown() {
			return true
		}
	}
	return false
}

// condArmTypeShift: some conditional has an arm whose type differs between the abstract and the
// concrete scope with a dynamic part (or an error placeholder) on one side, so the type the two
// arms unify to differs between the two evaluations (same root cause as condDynamicArm).
func condArmTypeShift(n *e1.Node, absScope, concScope map[string]cty.Value, funcs map[string]function.Function) bool {
	found := false
	evalIn := func(sub *e1.Node, extra map[string]cty.Value) (cty.Value, bool) {
		se, sd := hclsyntax.ParseExpression([]byte(e1.Render(sub, e1.Layout{})), "sub.hcl", hcl.InitialPos)
		if sd.HasErrors() {
			return cty.NilVal, false
		}
		val, vd := se.Value(&hcl.EvalContext{Variables: e1.With(concScope, extra), Functions: funcs})
		return val, !vd.HasErrors()
	}
	e1.WalkBound(n, nil, evalIn, func(n *e1.Node, extra map[string]cty.Value) {
		if found || n.K != "cond" {
			return
		}
		for i := 1; i <= 2; i++ {
			se, sd := hclsyntax.ParseExpression([]byte(e1.Render(n.Sub[i], e1.Layout{})), "arm.hcl", hcl.InitialPos)
			if sd.HasErrors() {
				continue
			}
			func() {
				defer func() { recover() }()
				a, _ := se.Value(&hcl.EvalContext{Variables: e1.With(absScope, extra), Functions: funcs})
				cc, _ := se.Value(&hcl.EvalContext{Variables: e1.With(concScope, extra), Functions: funcs})
				if !a.Type().Equals(cc.Type()) && (a.Type().HasDynamicTypes() || cc.Type().HasDynamicTypes()) {
					found = true
				}
			}()
		}
	})
	return found
}

// tryCanOptimistic: an argument of try / can evaluates without error under the abstract scope but
// fails under the concrete one (an unknown operand is converted optimistically, the concrete value
// does not convert), and the abstract result is nevertheless wholly known (e.g. through the
// short-circuit of a logical operator), so try / can commit to an answer.
func tryCanOptimistic(n *e1.Node, absScope, concScope map[string]cty.Value, funcs map[string]function.Function) bool {
	if n.K != "call" || (n.S != "try" && n.S != "can") {
		return false
	}
	for _, arg := range n.Sub {
		se, sd := hclsyntax.ParseExpression([]byte(e1.Render(arg, e1.Layout{})), "arg.hcl", hcl.InitialPos)
		if sd.HasErrors() {
			continue
		}
		hit := false
		func() {
			defer func() { recover() }()
			_, ad := se.Value(&hcl.EvalContext{Variables: absScope, Functions: funcs})
			_, cd := se.Value(&hcl.EvalContext{Variables: concScope, Functions: funcs})
			hit = !ad.HasErrors() && cd.HasErrors()
		}()
		if hit {
			return true
		}
	}
	return false
}

func condDynamicArm(n *e1.Node, absScope map[string]cty.Value, funcs map[string]function.Function) bool {
	found := false
	var walk func(n *e1.Node)
	walk = func(n *e1.Node) {
		if found {
			return
		}
		if n.K == "cond" {
			var tys [2]cty.Type
			ok := true
			for i := 0; i < 2; i++ {
				se, sd := hclsyntax.ParseExpression([]byte(e1.Render(n.Sub[i+1], e1.Layout{})), "arm.hcl", hcl.InitialPos)
				if sd.HasErrors() {
					ok = false
					break
				}
				func() {
					defer func() {
						if recover() != nil {
							ok = false
						}
					}()
					val, _ := se.Value(&hcl.EvalContext{Variables: absScope, Functions: funcs})
					tys[i] = val.Type()
				}()
			}
			if ok && (tys[0] == cty.DynamicPseudoType) != (tys[1] == cty.DynamicPseudoType) {
				found = true
				return
			}
		}
		for _, ch := range e1.EvaluableChildren(n) {
			walk(ch)
		}
	}
	walk(n)
	return found
}
