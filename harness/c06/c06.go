// Package c06: value marks propagate to everything they influence (expressions).
package c06

import (
	"encoding/json"
	"fmt"
	"github.com/hashicorp/hcl/v2/ext/dynblock"
	"github.com/hashicorp/hcl/v2/hcldec"
	"sort"
	"strings"

	"github.com/hashicorp/hcl/v2"
	"github.com/hashicorp/hcl/v2/hclsyntax"
	hcljson "github.com/hashicorp/hcl/v2/json"
	"github.com/zclconf/go-cty/cty"
	"github.com/zclconf/go-cty/cty/convert"

	"verif/harness/core"
	"verif/harness/e1"
)

const Mark = "secret"

// HasMark reports whether v carries Mark anywhere in its structure.
func HasMark(v cty.Value) bool {
	_, pvm := v.UnmarkDeepWithPaths()
	for _, p := range pvm {
		if _, ok := p.Marks[Mark]; ok {
			return true
		}
	}
	return false
}

// nestedPair returns two values of v's type whose first element carries the
// mark and differs in content; ok=false when v has no element to mark.
func nestedPair(v cty.Value) (a, b cty.Value, ok bool) {
	t := v.Type()
	if v.IsNull() || !v.IsKnown() {
		return
	}
	alt := func(x cty.Value) (cty.Value, bool) {
		switch x.Type() {
		case cty.Number:
			return x.Add(cty.NumberIntVal(1)), true
		case cty.String:
			return cty.StringVal(x.AsString() + "b"), true
		case cty.Bool:
			return x.Not(), true
		}
		if x.Type().IsObjectType() {
			m := x.AsValueMap()
			keys := make([]string, 0, len(m))
			for k := range m {
				keys = append(keys, k)
			}
			sort.Strings(keys)
			for _, k := range keys {
				if m[k].Type() == cty.Number {
					m[k] = m[k].Add(cty.NumberIntVal(1))
					return cty.ObjectVal(m), true
				}
			}
		}
		return cty.NilVal, false
	}
	switch {
	case t.IsListType() || t.IsTupleType() || t.IsSetType():
		els := v.AsValueSlice()
		if len(els) == 0 {
			return
		}
		e2, okk := alt(els[0])
		if !okk {
			return
		}
		as := append([]cty.Value{els[0].Mark(Mark)}, els[1:]...)
		bs := append([]cty.Value{e2.Mark(Mark)}, els[1:]...)
		switch {
		case t.IsListType():
			return cty.ListVal(as), cty.ListVal(bs), true
		case t.IsSetType():
			return cty.SetVal(as), cty.SetVal(bs), true
		}
		return cty.TupleVal(as), cty.TupleVal(bs), true
	case t.IsMapType() || t.IsObjectType():
		m := v.AsValueMap()
		if len(m) == 0 {
			return
		}
		keys := make([]string, 0, len(m))
		for k := range m {
			keys = append(keys, k)
		}
		sort.Strings(keys)
		k := keys[0]
		e2, okk := alt(m[k])
		if !okk {
			return
		}
		ma := map[string]cty.Value{}
		mb := map[string]cty.Value{}
		for kk, vv := range m {
			ma[kk], mb[kk] = vv, vv
		}
		ma[k] = m[k].Mark(Mark)
		mb[k] = e2.Mark(Mark)
		if t.IsMapType() {
			return cty.MapVal(ma), cty.MapVal(mb), true
		}
		return cty.ObjectVal(ma), cty.ObjectVal(mb), true
	}
	return
}

type pair struct {
	how  string
	a, b cty.Value
}

func Handle(c *core.Check, st core.State) {
	v, err := e1.DecodeVector(st)
	if err != nil {
		c.Broken("%v", err)
		return
	}
	c.Count("vectors_replayed", 1)
	src := e1.Render(v.Node, e1.Layout{})
	vec := map[string]any{"state": st.Raw, "source": src}
	expr, diags := hclsyntax.ParseExpression([]byte(src), "e.hcl", hcl.InitialPos)
	if diags.HasErrors() {
		c.Broken("generated expression does not parse (C01 owns this): %q: %s", src, diags.Error())
		return
	}
	funcs := e1.Functions()
	base := e1.Scope()
	alts := e1.Alternates()
	nontrivial := false
	// the JSON syntax's own evaluation paths: the expression as a (template) object KEY, bare and
	// with a literal prefix (the value paths of JSON strings are the native template evaluator)
	var jforms []hcl.Expression
	var jsrcs []string
	if !strings.Contains(src, "<<") {
		inner, _ := json.Marshal("${" + src + "}")
		for _, js := range []string{`{` + string(inner) + `: 1}`, `{"p-` + string(inner[1:len(inner)-1]) + `": 1}`} {
			if je, jd := hcljson.ParseExpression([]byte(js), "k.json"); !jd.HasErrors() {
				jforms = append(jforms, je)
				jsrcs = append(jsrcs, js)
			}
		}
	}
	for _, x := range v.FV {
		bv, ok := base[x]
		if !ok {
			continue
		}
		var pairs []pair
		for i, av := range alts[x] {
			if i >= 3 {
				break
			}
			pairs = append(pairs, pair{"top-level", bv.Mark(Mark), av.Mark(Mark)})
		}
		if a, b, ok := nestedPair(bv); ok {
			pairs = append(pairs, pair{"nested", a, b})
		}
		// scope variants: the model scope, and the model scope with ANOTHER variable of the expression
		// unknown (what is known about the result must not depend on the marked content either,
		// unless the result is marked); the second kind with the first content pair only
		type variant struct {
			unk   string
			scope map[string]cty.Value
		}
		variants := []variant{{"", e1.Scope()}}
		for _, y := range v.FV {
			if by, ok := base[y]; ok && y != x && len(variants) < 3 {
				sc := e1.Scope()
				sc[y] = cty.UnknownVal(by.Type())
				variants = append(variants, variant{y, sc})
			}
		}
		for _, vr := range variants {
			base := vr.scope
			unkNote := ""
			if vr.unk != "" {
				unkNote = " with " + vr.unk + " unknown"
			}
			vec := vec
			if vr.unk != "" {
				vec = map[string]any{"state": st.Raw, "source": src, "unknown": vr.unk}
			}
			for pi, p := range pairs {
				if vr.unk != "" && pi > 0 {
					break
				}
				var r [2]cty.Value
				var d [2]hcl.Diagnostics
				panicked := false
				for i, mv := range []cty.Value{p.a, p.b} {
					sc := map[string]cty.Value{}
					for k, val := range base {
						sc[k] = val
					}
					sc[x] = mv
					c.Count("evaluations", 1)
					if rec, pn := core.Guard(func() { r[i], d[i] = expr.Value(&hcl.EvalContext{Variables: sc, Functions: funcs}) }); pn {
						c.Violation("panic/"+e1.Fam(v.Node), fmt.Sprintf("%q panicked with %s = %s (%s mark): %v", src, x, e1.Describe(mv), p.how, rec), vec)
						panicked = true
						break
					}
				}
				if panicked {
					return
				}
				for ji, je := range jforms {
					var jr [2]cty.Value
					var jd [2]hcl.Diagnostics
					for i, mv := range []cty.Value{p.a, p.b} {
						sc := map[string]cty.Value{}
						for k, val := range base {
							sc[k] = val
						}
						sc[x] = mv
						c.Count("evaluations", 1)
						if rec, pn := core.Guard(func() { jr[i], jd[i] = je.Value(&hcl.EvalContext{Variables: sc, Functions: funcs}) }); pn {
							c.Violation("panic/json-object-key", fmt.Sprintf("JSON expression %s panicked with %s = %s (%s mark): %v", jsrcs[ji], x, e1.Describe(mv), p.how, rec),
								map[string]any{"state": st.Raw, "source": src, "json": jsrcs[ji]})
							return
						}
					}
					if jd[0].HasErrors() || jd[1].HasErrors() {
						continue
					}
					j0, _ := jr[0].UnmarkDeep()
					j1, _ := jr[1].UnmarkDeep()
					// (when the key expression itself already launders the mark natively, that root cause is
					// reported, or listed, under its own name below)
					nativeLaunders := false
					if !d[0].HasErrors() && !d[1].HasErrors() {
						n0, _ := r[0].UnmarkDeep()
						n1, _ := r[1].UnmarkDeep()
						nativeLaunders = !n0.RawEquals(n1) && (!HasMark(r[0]) || !HasMark(r[1]))
					}
					if !j0.RawEquals(j1) && (!HasMark(jr[0]) || !HasMark(jr[1])) && !nativeLaunders {
						if !c.Violation("mark-lost/json-object-key", fmt.Sprintf("JSON expression %s: with %s = %s the result is %s, with %s = %s it is %s; the result depends on the marked variable but does not carry its mark",
							jsrcs[ji], x, e1.Describe(p.a), e1.Describe(jr[0]), x, e1.Describe(p.b), e1.Describe(jr[1])), map[string]any{"state": st.Raw, "source": src, "json": jsrcs[ji]}) {
							return
						}
					}
				}
				if d[0].HasErrors() || d[1].HasErrors() {
					continue
				}
				u0, _ := r[0].UnmarkDeep()
				u1, _ := r[1].UnmarkDeep()
				if u0.RawEquals(u1) {
					continue
				}
				nontrivial = true
				if !HasMark(r[0]) || !HasMark(r[1]) {
					sc0 := map[string]cty.Value{}
					sc1 := map[string]cty.Value{}
					for k, val := range base {
						sc0[k], sc1[k] = val, val
					}
					sc0[x], sc1[x] = p.a, p.b
					evalIn := func(sub *e1.Node, extra map[string]cty.Value) (cty.Value, bool) {
						se, sd := hclsyntax.ParseExpression([]byte(e1.Render(sub, e1.Layout{})), "sub.hcl", hcl.InitialPos)
						if sd.HasErrors() {
							return cty.NilVal, false
						}
						val, vd := se.Value(&hcl.EvalContext{Variables: e1.With(sc0, extra), Functions: funcs})
						return val, !vd.HasErrors()
					}
					small, extra := e1.Localise(v.Node, func(sub *e1.Node, extra map[string]cty.Value) bool {
						se, sd := hclsyntax.ParseExpression([]byte(e1.Render(sub, e1.Layout{})), "sub.hcl", hcl.InitialPos)
						if sd.HasErrors() {
							return false
						}
						a, ad := se.Value(&hcl.EvalContext{Variables: e1.With(sc0, extra), Functions: funcs})
						b, bd := se.Value(&hcl.EvalContext{Variables: e1.With(sc1, extra), Functions: funcs})
						if ad.HasErrors() || bd.HasErrors() {
							return false
						}
						ua, _ := a.UnmarkDeep()
						ub, _ := b.UnmarkDeep()
						return !ua.RawEquals(ub) && (!HasMark(a) || !HasMark(b))
					}, evalIn)
					site := e1.Fam(small)
					if len(small.Sub) > 0 && (small.K == "index" || small.K == "attr" || small.K == "legacy" || small.K == "splat") {
						if cv, ok := evalIn(small.Sub[0], extra); ok {
							site += "(" + cv.Type().FriendlyName() + ")"
						}
					}
					if small.K == "call" && (small.S == "try" || small.S == "can") {
						// root cause: which argument of try / can succeeds depends on the marked content, and
						// a failed argument leaves no value whose marks could be carried over
						for _, arg := range small.Sub {
							se, sd := hclsyntax.ParseExpression([]byte(e1.Render(arg, e1.Layout{})), "arg.hcl", hcl.InitialPos)
							if sd.HasErrors() {
								continue
							}
							_, d0 := se.Value(&hcl.EvalContext{Variables: e1.With(sc0, extra), Functions: funcs})
							_, d1 := se.Value(&hcl.EvalContext{Variables: e1.With(sc1, extra), Functions: funcs})
							if d0.HasErrors() != d1.HasErrors() {
								site = "call:" + small.S + "/failed-argument"
								break
							}
						}
					}
					if small.K == "cond" {
						// root cause: the arm that is not selected fails for one of the two contents; its
						// diagnostics are dropped but its placeholder still takes part in typing the result
						for _, arm := range small.Sub[1:] {
							se, sd := hclsyntax.ParseExpression([]byte(e1.Render(arm, e1.Layout{})), "arm.hcl", hcl.InitialPos)
							if sd.HasErrors() {
								continue
							}
							a0, d0 := se.Value(&hcl.EvalContext{Variables: e1.With(sc0, extra), Functions: funcs})
							a1, d1 := se.Value(&hcl.EvalContext{Variables: e1.With(sc1, extra), Functions: funcs})
							if d0.HasErrors() != d1.HasErrors() || (d0.HasErrors() && d1.HasErrors() && !a0.Type().Equals(a1.Type())) {
								site = "cond/unselected-arm-error"
							}
						}
						// root cause: the two results are the same value of different TYPES, and the type was
						// unified with an arm whose (nested) marks are not collected: only top-level marks of
						// the arms are combined into the result
						// (judged on the results of the localised conditional itself, not on the results of
						// the expression around it: `[b ? null : [...]]` wraps the two nulls in a tuple)
						if site == "cond" {
							w0, w1 := u0, u1
							if se, sd := hclsyntax.ParseExpression([]byte(e1.Render(small, e1.Layout{})), "cond.hcl", hcl.InitialPos); !sd.HasErrors() {
								s0, d0 := se.Value(&hcl.EvalContext{Variables: e1.With(sc0, extra), Functions: funcs})
								s1, d1 := se.Value(&hcl.EvalContext{Variables: e1.With(sc1, extra), Functions: funcs})
								if !d0.HasErrors() && !d1.HasErrors() {
									w0, _ = s0.UnmarkDeep()
									w1, _ = s1.UnmarkDeep()
								}
							}
							if c1, err := convert.Convert(w1, w0.Type()); (err == nil && c1.RawEquals(w0)) || (w0.IsNull() && w1.IsNull()) {
								site = "cond/result-type-from-marked-arm"
							}
						}
					}
					sig := "mark-lost/" + p.how + "/" + site
					if strings.HasSuffix(site, "/failed-argument") || site == "cond/unselected-arm-error" || site == "cond/result-type-from-marked-arm" {
						sig = "mark-lost/" + site // a named root cause, wherever the mark sits
					}
					if vr.unk != "" && !strings.HasPrefix(sig, "mark-lost/cond/") && !strings.HasSuffix(sig, "/failed-argument") {
						// a scope with an unknown variable: sites are named apart from the known-scope ones
						sig = "mark-lost/unknown-scope/" + site
					}
					if !c.Violation(sig,
						fmt.Sprintf("%q%s: with %s = %s the result is %s, with %s = %s it is %s; the result depends on the marked variable but does not carry its mark (smallest laundering sub-expression: %q)",
							src, unkNote, x, e1.Describe(p.a), e1.Describe(r[0]), x, e1.Describe(p.b), e1.Describe(r[1]), e1.Render(small, e1.Layout{})), vec) {
						return
					}
				}
			}
		}
	}
	if nontrivial {
		c.Nontrivial(src)
		c.Sample(map[string]any{"source": src, "marked_candidates": v.FV})
	}
}

// ---- bodies: decoding and dynamic block expansion must not launder marks ----

type bodyCase struct {
	name string
	src  func(x string) string
	spec hcldec.Spec
	dyn  bool
}

var dynT = cty.DynamicPseudoType

var bodyCases = []bodyCase{
	{"attr", func(x string) string { return "a = " + x + "\n" }, &hcldec.AttrSpec{Name: "a", Type: dynT}, false},
	{"attr-in-block", func(x string) string { return "blk {\n  a = " + x + "\n}\n" },
		&hcldec.BlockSpec{TypeName: "blk", Nested: &hcldec.AttrSpec{Name: "a", Type: dynT}}, false},
	{"blockattrs", func(x string) string { return "blk {\n  k = " + x + "\n  j = 1\n}\n" }, &hcldec.BlockAttrsSpec{TypeName: "blk", ElementType: dynT}, false},
	{"default", func(x string) string { return "a = " + x + "\n" },
		&hcldec.DefaultSpec{Primary: &hcldec.AttrSpec{Name: "a", Type: dynT}, Default: &hcldec.LiteralSpec{Value: cty.StringVal("dflt")}}, false},
	{"dynamic-for_each/list", func(x string) string {
		return "dynamic \"blk\" {\n  for_each = " + x + "\n  content {\n    k = blk.value\n  }\n}\n"
	}, &hcldec.BlockListSpec{TypeName: "blk", Nested: &hcldec.AttrSpec{Name: "k", Type: dynT}}, true},
	{"dynamic-for_each/tuple", func(x string) string {
		return "dynamic \"blk\" {\n  for_each = " + x + "\n  content {\n    k = blk.key\n  }\n}\n"
	}, &hcldec.BlockTupleSpec{TypeName: "blk", Nested: &hcldec.AttrSpec{Name: "k", Type: dynT}}, true},
	{"dynamic-for_each/single", func(x string) string {
		return "dynamic \"blk\" {\n  for_each = " + x + "\n  content {\n    k = 1\n  }\n}\n"
	}, &hcldec.BlockSpec{TypeName: "blk", Nested: &hcldec.AttrSpec{Name: "k", Type: dynT}}, true},
	{"dynamic-for_each/map", func(x string) string {
		return "dynamic \"blk\" {\n  for_each = " + x + "\n  labels = [\"l${blk.key}\"]\n  content {\n    k = 1\n  }\n}\n"
	}, &hcldec.BlockMapSpec{TypeName: "blk", LabelNames: []string{"n"}, Nested: &hcldec.AttrSpec{Name: "k", Type: cty.Number}}, true},
	{"dynamic-nested-static", func(x string) string {
		return "dynamic \"blk\" {\n  for_each = " + x + "\n  content {\n    inner {\n      k = blk.value\n    }\n  }\n}\n"
	}, &hcldec.BlockTupleSpec{TypeName: "blk", Nested: &hcldec.BlockSpec{TypeName: "inner", Nested: &hcldec.AttrSpec{Name: "k", Type: dynT}}}, true},
	{"dynamic-content-uses-var", func(x string) string {
		return "dynamic \"blk\" {\n  for_each = [1, 2]\n  content {\n    k = " + x + "\n  }\n}\n"
	}, &hcldec.BlockTupleSpec{TypeName: "blk", Nested: &hcldec.AttrSpec{Name: "k", Type: dynT}}, true},
}

// HandleBodies applies the mark relation to hcldec.Decode of bodies built around the expression.
func HandleBodies(c *core.Check, st core.State) {
	v, err := e1.DecodeVector(st)
	if err != nil {
		c.Broken("%v", err)
		return
	}
	c.Count("vectors_replayed", 1)
	x := e1.Render(v.Node, e1.Layout{})
	if strings.Contains(x, "\n") {
		x = "(" + x + ")"
	}
	funcs := e1.Functions()
	base := e1.Scope()
	alts := e1.Alternates()
	for _, bc := range bodyCases {
		src := bc.src(x)
		f, pd := hclsyntax.ParseConfig([]byte(src), "b.hcl", hcl.InitialPos)
		if pd.HasErrors() {
			continue
		}
		decode := func(vars map[string]cty.Value) (val cty.Value, ds hcl.Diagnostics, pan any) {
			ctx := &hcl.EvalContext{Variables: vars, Functions: funcs}
			pan, _ = core.Guard(func() {
				body := f.Body
				if bc.dyn {
					body = dynblock.Expand(body, ctx)
				}
				val, ds = hcldec.Decode(body, bc.spec, ctx)
			})
			return
		}
		for _, name := range v.FV {
			bv, ok := base[name]
			if !ok {
				continue
			}
			var pairs []pair
			for i, av := range alts[name] {
				if i >= 3 {
					break
				}
				pairs = append(pairs, pair{"top-level", bv.Mark(Mark), av.Mark(Mark)})
			}
			if a, b, ok := nestedPair(bv); ok {
				pairs = append(pairs, pair{"nested", a, b})
			}
			for _, p := range pairs {
				var r [2]cty.Value
				var d [2]hcl.Diagnostics
				for i, mv := range []cty.Value{p.a, p.b} {
					sc := e1.With(base, map[string]cty.Value{name: mv})
					c.Count("evaluations", 1)
					var pan any
					r[i], d[i], pan = decode(sc)
					if pan != nil {
						msg := fmt.Sprint(pan)
						if len(msg) > 60 {
							msg = msg[:60]
						}
						c.Violation("panic/body/"+bc.name+"/"+msg, fmt.Sprintf("decoding %q (%s) with %s = %s panicked: %v", src, bc.name, name, e1.Describe(mv), pan),
							map[string]any{"state": st.Raw, "source": src, "case": bc.name, "kind": "body"})
						return
					}
				}
				if d[0].HasErrors() || d[1].HasErrors() {
					continue
				}
				u0, _ := r[0].UnmarkDeep()
				u1, _ := r[1].UnmarkDeep()
				if u0.RawEquals(u1) {
					continue
				}
				c.Nontrivial(bc.name + ":" + x)
				if !HasMark(r[0]) || !HasMark(r[1]) {
					// if the bare expression itself launders the mark this is the expression-level finding, not the body's
					se, _ := hclsyntax.ParseExpression([]byte(x), "x.hcl", hcl.InitialPos)
					ev0, ed0 := se.Value(&hcl.EvalContext{Variables: e1.With(base, map[string]cty.Value{name: p.a}), Functions: funcs})
					ev1, ed1 := se.Value(&hcl.EvalContext{Variables: e1.With(base, map[string]cty.Value{name: p.b}), Functions: funcs})
					if !ed0.HasErrors() && !ed1.HasErrors() {
						w0, _ := ev0.UnmarkDeep()
						w1, _ := ev1.UnmarkDeep()
						if !w0.RawEquals(w1) && (!HasMark(ev0) || !HasMark(ev1)) {
							continue // owned by the expression stage (localised there)
						}
					}
					// ... also when only a sub-expression launders (the whole may carry the mark through a sibling)
					{
						sc0 := e1.With(base, map[string]cty.Value{name: p.a})
						sc1 := e1.With(base, map[string]cty.Value{name: p.b})
						launders := func(sub *e1.Node, extra map[string]cty.Value) bool {
							se, sd := hclsyntax.ParseExpression([]byte(e1.Render(sub, e1.Layout{})), "sub.hcl", hcl.InitialPos)
							if sd.HasErrors() {
								return false
							}
							a, ad := se.Value(&hcl.EvalContext{Variables: e1.With(sc0, extra), Functions: funcs})
							b, bd := se.Value(&hcl.EvalContext{Variables: e1.With(sc1, extra), Functions: funcs})
							if ad.HasErrors() || bd.HasErrors() {
								return false
							}
							ua, _ := a.UnmarkDeep()
							ub, _ := b.UnmarkDeep()
							return !ua.RawEquals(ub) && (!HasMark(a) || !HasMark(b))
						}
						evalIn := func(sub *e1.Node, extra map[string]cty.Value) (cty.Value, bool) {
							se, sd := hclsyntax.ParseExpression([]byte(e1.Render(sub, e1.Layout{})), "sub.hcl", hcl.InitialPos)
							if sd.HasErrors() {
								return cty.NilVal, false
							}
							val, vd := se.Value(&hcl.EvalContext{Variables: e1.With(sc0, extra), Functions: funcs})
							return val, !vd.HasErrors()
						}
						if small, extra := e1.Localise(v.Node, launders, evalIn); small != v.Node && launders(small, extra) {
							continue
						}
					}
					sig := "mark-lost/body/" + p.how + "/" + bc.name
					if bc.dyn && strings.HasPrefix(bc.name, "dynamic-for_each") || bc.name == "dynamic-nested-static" {
						// root cause: a marked for_each collection with NO elements generates no block that could carry the mark
						ua, _ := p.a.Unmark()
						ub, _ := p.b.Unmark()
						ev := func(m cty.Value) bool {
							se2, _ := hclsyntax.ParseExpression([]byte(x), "x.hcl", hcl.InitialPos)
							fv, fd := se2.Value(&hcl.EvalContext{Variables: e1.With(base, map[string]cty.Value{name: m}), Functions: funcs})
							fv, _ = fv.Unmark()
							return !fd.HasErrors() && fv.IsKnown() && !fv.IsNull() && fv.CanIterateElements() && fv.LengthInt() == 0
						}
						_, _ = ua, ub
						if ev(p.a) || ev(p.b) {
							sig = "mark-lost/body/dynamic-for_each-empty"
						}
					}
					if !c.Violation(sig,
						fmt.Sprintf("decoding %q (%s): with %s = %s the result is %s, with %s = %s it is %s; the decoded value depends on the marked variable but does not carry its mark",
							src, bc.name, name, e1.Describe(p.a), e1.Describe(r[0]), name, e1.Describe(p.b), e1.Describe(r[1])),
						map[string]any{"state": st.Raw, "source": src, "case": bc.name, "kind": "body"}) {
						return
					}
				}
			}
		}
	}
}
