package props

import (
	"encoding/json"

	"verif/harness/c03"
	"verif/harness/core"
)

func init() {
	register(&Def{ID: "C03", Run: runC03, Replay: func(c *core.Check, v json.RawMessage) { replayRaw(c, v, c03.Handle) }})
}

func runC03(c *core.Check) {
	c.Rule = "every MC_Dec (spec, body) pair that is JSON-expressible under the spec (HclDec!JsonExpressible) x 4 JSON encodings (duplicate property names in item order; blocks grouped as arrays of bodies; whole body as array of objects; labels merged into nested label objects plus // comment properties): hcldec.Decode of native and JSON forms give the same error-ness and RawEquals values, and Body.Content under the implied schema gives the same attributes, literal values and per-type label sequences. Non-trivial = distinct (spec, body) with at least one item"
	c.Assumes = []string{"a body is only compared when every block of a requested type carries the requested number of labels (JSON derives label structure from the schema)", "diagnostic texts differ by design; only error-ness is compared"}
	for _, consts := range decConfigs(c) {
		streamTLC(c, core.TLCRun{Module: "MC_Dec", Parts: 4, Consts: consts, Timeout: minutes(25), KeepVars: []string{"phase", "jsonok", "spec", "body"}},
			func(st core.State) { c03.Handle(c, st) })
	}
}
