package props

import (
	"encoding/json"

	"verif/harness/c03"
	"verif/harness/core"
)

func init() {
	register(&Def{ID: "C03", Run: runC03, Replay: func(c *core.Check, v json.RawMessage) {
		var k struct {
			Encoding string `json:"encoding"`
		}
		json.Unmarshal(v, &k)
		if k.Encoding != "" {
			replayRaw(c, v, c03.HandleEnc)
		} else {
			replayRaw(c, v, c03.Handle)
		}
	}})
}

func runC03(c *core.Check) {
	c.Rule = "every MC_Dec (spec, body) pair that is JSON-expressible under the spec (HclDec!JsonExpressible) x 5 fixed JSON encodings (duplicate property names in item order; blocks grouped as arrays of bodies; whole body as array of objects; labels merged into nested label objects plus // comment properties; one object per item), and (MC_JsonEnc) 12 specs x bodies of <= 2 items x EVERY encoding JsonEnc.tla admits (body object / array of objects; blocks as repeated properties / arrays / merged label objects; arrays at type or innermost label level; comment properties): hcldec.Decode of native and JSON forms give the same error-ness and RawEquals values, and Body.Content under the implied schema gives the same attributes, literal values and per-type label sequences, and for order-keeping encodings the same block sequence across types. Non-trivial = distinct (spec, body) with at least one item"
	c.Assumes = []string{"a body is only compared when every block of a requested type carries the requested number of labels (JSON derives label structure from the schema)", "diagnostic texts differ by design; only error-ness is compared"}
	cfgs := decConfigs(c)
	if c.Tier != "thorough" && len(cfgs) > 3 {
		cfgs = cfgs[:3] // the depth-2 x two-item stage belongs to C08's quick tier; here it is thorough only
	}
	for _, consts := range cfgs {
		streamTLC(c, core.TLCRun{Module: "MC_Dec", Parts: 4, Consts: consts, Timeout: minutes(25), KeepVars: []string{"phase", "jsonok", "spec", "body"}},
			func(st core.State) { c03.Handle(c, st) })
	}
	// every admissible encoding (JsonEnc.tla) of small bodies under a family of specs that covers
	// every block-reading spec kind
	// (3 items is 4 M+ encodings and does not finish; the thorough tier deepens the MC_Dec stage instead)
	items := "2"
	c.Extra["jsonenc_MaxItems"] = items
	streamTLC(c, core.TLCRun{Module: "MC_JsonEnc", Parts: 4, Consts: map[string]string{"MaxItems": items}, Timeout: minutes(25), KeepVars: []string{"phase", "spec", "body", "ch", "doc"}},
		func(st core.State) { c03.HandleEnc(c, st) })
}
