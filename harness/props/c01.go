package props

import (
	"encoding/json"

	"verif/harness/c01"
	"verif/harness/core"
)

func init() {
	register(&Def{ID: "C01", Run: runC01, Replay: func(c *core.Check, v json.RawMessage) {
		replayRaw(c, v, func(c *core.Check, st core.State) { c01.Handle(c, st, []int{0, 1, 2, 3, 4, 5, 6, 7}) })
	}})
}

func runC01(c *core.Check) {
	c.Rule = "every AST reachable by <= MaxD grammar productions (one TLC action per production, siblings from typed pools) over the 17-variable scope; each rendered in 8 layouts (canonical, wide spaces, newlines inside brackets, inline comments, a space between every pair of tokens, newline-separated object items with trailing commas, line comments inside brackets, alternative number spellings), parsed and evaluated by hclsyntax and compared with the specification's Eval; non-trivial = distinct source text whose specification value is not out-of-model"
	c.Assumes = []string{
		"numbers are half-integers, strings come from a finite representative set; results outside the model's universe (oom) are executed for panic-freedom only",
		"value layer (conversion/unification) follows go-cty where spec.md is silent (named deviations in spec/DEVIATIONS.md)",
	}
	consts := map[string]string{"MaxD": "2", "Level2": "\"core\""}
	if c.Tier == "thorough" {
		consts = map[string]string{"MaxD": "2", "Level2": "\"all\""}
	}
	c.Extra["constants"] = consts
	streamTLC(c, core.TLCRun{Module: "MC_E1", Parts: 4, Consts: consts, Timeout: minutes(25)},
		func(st core.State) { c01.Handle(c, st, []int{0, 1, 2, 3, 4, 5, 6, 7}) })
	// heredoc and flush-heredoc templates (canonical layout only: their line structure is the layout)
	hd := "1"
	if c.Tier == "thorough" {
		hd = "2"
	}
	streamTLC(c, core.TLCRun{Module: "MC_E1", Parts: 4, Consts: map[string]string{"MaxD": hd, "Level2": "\"heredoc\""}, Timeout: minutes(25)},
		func(st core.State) { c01.Handle(c, st, []int{0}) })
	// deep and bushy ASTs (several non-trivial operands, nesting up to MaxD) from random walks of MC_E1Deep
	deepE1(c, true, func(st core.State) { c01.Handle(c, st, []int{0, 2}) })
}
