package props

import (
	"encoding/json"

	"verif/harness/c16"
	"verif/harness/core"
)

func init() {
	register(&Def{ID: "C16", Run: runC16, Replay: func(c *core.Check, v json.RawMessage) { replayRaw(c, v, c16.Handle) }})
}

func runC16(c *core.Check) {
	c.Rule = "every value of the GoHcl.tla struct family reachable in <= MaxSteps field assignments (strings from a 15-entry table of escape-relevant strings and awkward map keys: empty, spaces, quotes, newline, ${ and %{ sequences, combining marks, backslash, for, null, non-identifiers, the JSON comment name //; nil/non-nil pointers; maps and slices up to MaxSeq; labelled repeated blocks by value and by pointer, two nesting levels with two labels): EncodeIntoBody -> bytes -> ParseConfig -> DecodeBody reproduces the value, and the equivalent JSON document decodes (hclsimple) to the same value; plus every MC_Dec body decoded into each struct type without panic. Non-trivial = distinct encoded source"
	c.Assumes = []string{"equality modulo nil-vs-empty slices/maps and NFC normalisation of strings (HCL cannot represent the difference)"}
	cfgs := []map[string]string{{"NStr": "15", "MaxSeq": "2", "MaxSteps": "2"}}
	if c.Tier == "thorough" {
		// three assignments over the first seven strings (14 strings x 3 steps is 25 M+ values)
		cfgs = append(cfgs, map[string]string{"NStr": "7", "MaxSeq": "2", "MaxSteps": "3"})
	}
	c.Extra["constants"] = cfgs
	for _, consts := range cfgs {
		streamTLC(c, core.TLCRun{Module: "MC_C16", Consts: consts, Timeout: minutes(40), KeepVars: []string{"val"}}, func(st core.State) { c16.Handle(c, st) })
	}
	streamTLC(c, core.TLCRun{Module: "MC_Dec", Parts: 4, Consts: map[string]string{"MaxSpecD": "0", "MaxItems": "2"}, Timeout: minutes(20), KeepVars: []string{"phase", "body"}},
		func(st core.State) { c16.HandleArbitrary(c, st) })
}
