package props

import (
	"encoding/json"

	"verif/harness/c18"
	"verif/harness/core"
)

func init() {
	register(&Def{ID: "C18", Run: runC18, Replay: func(c *core.Check, v json.RawMessage) { replayRaw(c, v, c18.Handle) }})
}

func runC18(c *core.Check) {
	c.Rule = "every body of <= MaxItems items drawn from static blocks/attributes and dynamic-block templates (for_each over tuple/list/set/map/object/empty/null/non-iterable, default and custom iterators, labels from the iterator, nested static and dynamic content referring to outer iterators, shadowing) x 8 decoding specs: Decode(Expand(body)) vs Decode(written-out body computed by DynBlock.tla) (error-ness, values), vs the model's value; unknown for_each keeps the implied type with an unknown result; VariablesHCLDec roots are sufficient and contain no iterator names. Non-trivial = distinct (spec, body) containing a dynamic block"
	c.Assumes = []string{"attribute values inside generated blocks are primitives (so that the written-out literal has the same type)", "marks are stripped before comparing (C06 owns mark propagation)"}
	cfgs := []map[string]string{{"MaxItems": "2", "NestMode": "\"flat\""}, {"MaxItems": "1", "NestMode": "\"nested\""}}
	if c.Tier == "thorough" {
		cfgs = []map[string]string{{"MaxItems": "2", "NestMode": "\"nested\""}, {"MaxItems": "3", "NestMode": "\"mix\""}}
	}
	c.Extra["constants"] = cfgs
	for _, consts := range cfgs {
		streamTLC(c, core.TLCRun{Module: "MC_C18", Consts: consts, Timeout: minutes(40)}, func(st core.State) { c18.Handle(c, st) })
	}
}
