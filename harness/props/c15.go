package props

import (
	"encoding/json"
	"os"

	"verif/harness/c02"
	"verif/harness/tla"

	"verif/harness/c13"
	"verif/harness/c14"
	"verif/harness/c15"
	"verif/harness/core"
)

func init() {
	register(&Def{ID: "C15", Run: runC15, Replay: func(c *core.Check, v json.RawMessage) {
		var k struct {
			Source string `json:"source"`
			Kind   string `json:"kind"`
		}
		json.Unmarshal(v, &k)
		vec := map[string]any{"source": k.Source, "kind": k.Kind}
		if k.Kind == "json" {
			c15.CheckInput(c, []byte(k.Source), c15.JSONEntries(), vec)
		} else {
			c15.CheckInput(c, []byte(k.Source), c15.NativeEntries(), vec)
		}
	}})
}

func runC15(c *core.Check) {
	c.Rule = "every base program (MC_E1 ASTs: quick 146 representatives of every production, thorough all depth-1 ASTs) x every sequence of <= MaxK damages (insert/replace with one of 47 damage tokens: brackets, quotes, template introducers and closers, heredoc markers, keywords, operators, invalid UTF-8, NUL, CR, backtick; delete; truncate; 12 positions), joined with and without spaces, embedded as bare expression, as attribute in a file with a block, and into a JSON document: all 9 entry points return within the watchdog, do not panic, return a non-nil result (or error diagnostics), give deep-equal results and equal diagnostics on a second call, and only well-formed diagnostics with in-bounds ranges; the partial body can be processed with schemas and evaluated without panic; every native parse obeys the peeker protocol of Peeker.tla (checked on all parses through hooks, a sample validated by TLC). Non-trivial = distinct damaged token sequence"
	c.Assumes = []string{"watchdog 20 s per call", "determinism = reflect.DeepEqual of results and equality of diagnostic texts and ranges"}
	consts := map[string]string{"MaxK": "1", "BaseMode": "\"few\"", "MaxPos": "9"}
	c15.Brief = c.Tier == "quick"
	if c.Tier == "thorough" {
		consts = map[string]string{"MaxK": "1", "BaseMode": "\"mid\"", "MaxPos": "7"}
	}
	c.Extra["constants"] = consts
	// the peeker protocol (Peeker.tla) is model-checked, every parse below is checked against it through the
	// build-tag hooks, and a sample of the recorded event sequences is validated by TLC (Trace_Peeker.tla)
	pst, perr := core.TLCRun{Module: "MC_Peeker", NoDump: true, Timeout: minutes(5)}.Stream(1, func(core.State) {})
	c.AddTLC(pst)
	if perr != nil || pst.ErrorKind != "" {
		c.Broken("Peeker.tla does not satisfy its invariants: %v %s", perr, pst.ErrorMsg)
		return
	}
	if c.Tier == "thorough" {
		// the same invariants for behaviours of any length: machine-checked proofs (TLAPS)
		n, out, err := core.RunTLAPM("PeekerProofs", minutes(10))
		if err != nil {
			c.Broken("tlapm could not check spec/proofs/PeekerProofs.tla: %v %s", err, out)
			return
		}
		c.Extra["tlaps_obligations_proved_PeekerProofs"] = n
	}
	sample := int64(400)
	if c.Tier == "thorough" {
		sample = 4000
	}
	c15.StartPeekerRecording(sample, 5000)
	streamTLC(c, core.TLCRun{Module: "MC_C15", Parts: 4, Consts: consts, Timeout: minutes(60), KeepVars: []string{"e", "dmg"}},
		func(st core.State) { c15.Handle(c, st) })
	if c.Tier == "thorough" {
		// pairs of damages (small alphabet, 4 positions) on the productions of one leaf
		two := map[string]string{"MaxK": "2", "BaseMode": "\"tiny\"", "MaxPos": "2"}
		c.Extra["constants_pairs"] = two
		streamTLC(c, core.TLCRun{Module: "MC_C15", Parts: 4, Consts: two, Timeout: minutes(60), KeepVars: []string{"e", "dmg"}},
			func(st core.State) { c15.Handle(c, st) })
	}
	// every short byte-class string of the JSON recogniser (MC_C13) and of the lexer position machine
	// (MC_C14) through the entry points of its syntax: totality and well-formed diagnostics on inputs
	// that are not near any valid program
	shortJ, shortN := "4", "3"
	if c.Tier == "thorough" {
		shortJ, shortN = "5", "4"
	}
	{
		r := core.TLCRun{Module: "MC_C13", Consts: map[string]string{"MaxN": shortJ}, Timeout: minutes(30), KeepVars: []string{"s"}}
		r.ConstSubst = map[string]string{"Alphabet": "Full"}
		streamTLC(c, r, func(st core.State) {
			src := c13.SourceOf(st)
			c.Count("vectors_replayed", 1)
			c15.CheckInput(c, src, c15.JSONEntries(), map[string]any{"state": st.Raw, "source": string(src), "kind": "json"})
		})
		r2 := core.TLCRun{Module: "MC_C14", Consts: map[string]string{"MaxN": shortN, "StartKind": "\"initial\""}, Timeout: minutes(30), KeepVars: []string{"s"}}
		r2.ConstSubst = map[string]string{"Alphabet": "Core"}
		streamTLC(c, r2, func(st core.State) {
			src := c14.SourceOf(st)
			c.Count("vectors_replayed", 1)
			c15.CheckInput(c, src, c15.NativeEntries(), map[string]any{"state": st.Raw, "source": string(src), "kind": "native"})
		})
	}
	// bodies of up to four items from the structural layout machine (canonical layout), INCLUDING the
	// rejected ones: two and more names defined twice, at the top level and inside blocks (several
	// diagnostics whose order must not depend on anything but the input)
	{
		r := core.TLCRun{Module: "MC_C02", Cfg: "MC_C02_plain.cfg", Consts: map[string]string{"MaxItems": "4", "MaxL": "0", "LabelMode": "\"few\""}, Timeout: minutes(30), KeepVars: []string{"closed", "out", "tree", "cost"}}
		r.ConstSubst = map[string]string{"Values": "MCValuesFew"}
		streamTLC(c, r, func(st core.State) {
			if !tla.Bool(st.Vars["closed"]) {
				return
			}
			src := []byte(c02.Source(st))
			c.Count("vectors_replayed", 1)
			c15.CheckInput(c, src, c15.NativeEntries(), map[string]any{"state": st.Raw, "source": string(src), "kind": "native"})
		})
	}
	c15.FinishPeekerRecording(c)
	// the same protocol on every parse the repository's own tests perform (their syntax-error tables
	// are the fault-heavy inputs the maintainers care about): the suite is built with the hook tag and
	// run with the recorder of hclsyntax/verif_hook_on.go switched on
	pkgs := []string{"./hclsyntax/", "./hclwrite/"}
	if c.Tier == "thorough" {
		pkgs = []string{"./..."}
	}
	repo := os.Getenv("VERIF_REPO") // set only by tools/triage.sh
	if repo == "" {
		repo = "/repo"
	}
	c15.RepoTestTraces(c, repo, pkgs)
}
