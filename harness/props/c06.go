package props

import (
	"encoding/json"

	"verif/harness/c06"
	"verif/harness/core"
)

func init() {
	register(&Def{ID: "C06", Run: runC06, Replay: func(c *core.Check, v json.RawMessage) { replayRaw(c, v, c06.Handle) }})
}

func runC06(c *core.Check) {
	c.Rule = "every MC_E1 AST x each free scope variable x (top-level mark with up to 3 same-typed alternate contents; mark nested on the first element with that element's content changed): both evaluations error-free and results different after UnmarkDeep => both results carry the mark. The same relation for hcldec.Decode of 10 body shapes built around the expression (attributes, BlockAttrs, defaults, dynamic blocks over list/tuple/map/single block, nested static blocks). Non-trivial = distinct source where some pair changed the result"
	c.Assumes = []string{"pairs where either evaluation reports an error are outside the statement"}
	streamTLC(c, core.TLCRun{Module: "MC_E1", NoPred: true, Parts: 4, Consts: e1Consts(c), Timeout: minutes(25), KeepVars: []string{"e", "fv", "last"}},
		func(st core.State) { c06.Handle(c, st) })
	deepE1(c, false, func(st core.State) { c06.Handle(c, st) })
	// decodable bodies: the expression as attribute value, BlockAttrs value, default primary, dynamic for_each
	// (list, tuple, single block, map with labels), content of generated and nested static blocks
	bc := map[string]string{"MaxD": "1", "Level2": "\"core\""}
	if c.Tier == "thorough" {
		bc = map[string]string{"MaxD": "2", "Level2": "\"core\""}
	}
	streamTLC(c, core.TLCRun{Module: "MC_E1", NoPred: true, Parts: 4, Consts: bc, Timeout: minutes(30), KeepVars: []string{"e", "fv", "last"}},
		func(st core.State) { c06.HandleBodies(c, st) })
}
