package props

import (
	"encoding/json"

	"verif/harness/c06"
	"verif/harness/core"
)

func init() {
	register(&Def{ID: "C06", Run: runC06, Replay: func(c *core.Check, v json.RawMessage) { replayRaw(c, v, c06.Handle) }})
}

func runC06(c *core.Check) {
	c.Rule = "every MC_E1 AST x each free scope variable x (top-level mark with up to 3 same-typed alternate contents; mark nested on the first element with that element's content changed): both evaluations error-free and results different after UnmarkDeep => both results carry the mark. Non-trivial = distinct source where some pair changed the result"
	c.Assumes = []string{"pairs where either evaluation reports an error are outside the statement"}
	streamTLC(c, core.TLCRun{Module: "MC_E1", Consts: e1Consts(c), Timeout: minutes(25), KeepVars: []string{"e", "fv", "last"}},
		func(st core.State) { c06.Handle(c, st) })
}
