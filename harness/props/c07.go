package props

import (
	"encoding/json"

	"verif/harness/c07"
	"verif/harness/core"
)

func init() {
	register(&Def{ID: "C07", Run: runC07, Replay: func(c *core.Check, v json.RawMessage) { replayRaw(c, v, c07.Handle) }})
}

func e1Consts(c *core.Check) map[string]string {
	consts := map[string]string{"MaxD": "2", "Level2": "\"core\""}
	if c.Tier == "thorough" {
		consts = map[string]string{"MaxD": "2", "Level2": "\"all\""}
	}
	c.Extra["constants"] = consts
	return consts
}

func runC07(c *core.Check) {
	c.Rule = "every MC_E1 AST (native text, JSON template string, JSON object-key template): Variables() roots R; evaluation in the full scope, in the scope pruned to R, and with all unreported variables changed / nulled must give identical value and diagnostics; iterator names must not be reported. Non-trivial = distinct source with at least one reported root"
	c.Assumes = []string{"diagnostics are compared by severity, summary, detail and subject with the scope-dependent 'Did you mean' hint removed"}
	streamTLC(c, core.TLCRun{Module: "MC_E1", Consts: e1Consts(c), Timeout: minutes(25), KeepVars: []string{"e", "fv", "last"}},
		func(st core.State) { c07.Handle(c, st) })
}
