package props

import (
	"encoding/json"

	"verif/harness/c07"
	"verif/harness/c18"
	"verif/harness/core"
)

func init() {
	register(&Def{ID: "C07", Run: runC07, Replay: func(c *core.Check, v json.RawMessage) { replayRaw(c, v, c07.Handle) }})
}

func e1Consts(c *core.Check) map[string]string {
	consts := map[string]string{"MaxD": "2", "Level2": "\"core\""}
	if c.Tier == "thorough" {
		consts = map[string]string{"MaxD": "2", "Level2": "\"all\""}
	}
	c.Extra["constants"] = consts
	return consts
}

func runC07(c *core.Check) {
	c.Rule = "every MC_E1 AST (native text, JSON template string, JSON object-key template): Variables() roots R; evaluation in the full scope, in the scope pruned to R, and with all unreported variables changed / nulled must give identical value and diagnostics; iterator names must not be reported; plus every MC_C18 body (static and dynamic blocks, nested iterators, a global named like an iterator) under 9 hcldec specs: decoding in the scope pruned to VariablesHCLDec roots is identical, ExpandVariablesHCLDec is a subset, iterator names are not reported, hcldec.Variables agrees on static bodies. Non-trivial = distinct source with at least one reported root"
	c.Assumes = []string{"diagnostics are compared by severity, summary, detail and subject with the scope-dependent 'Did you mean' hint removed"}
	streamTLC(c, core.TLCRun{Module: "MC_E1", Parts: 4, Consts: e1Consts(c), Timeout: minutes(25), KeepVars: []string{"e", "fv", "last"}},
		func(st core.State) { c07.Handle(c, st) })
	deepE1(c, true, func(st core.State) { c07.Handle(c, st) })
	// bodies under hcldec specs and bodies with dynamic blocks: hcldec.Variables, dynblock.VariablesHCLDec,
	// dynblock.ExpandVariablesHCLDec (MC_C18 bodies; only the variable relation of the C18 replayer)
	dynConsts := map[string]string{"MaxItems": "1", "NestMode": "\"nested\""}
	if c.Tier == "thorough" {
		dynConsts = map[string]string{"MaxItems": "2", "NestMode": "\"nested\""}
	}
	streamTLC(c, core.TLCRun{Module: "MC_C18", Consts: dynConsts, Timeout: minutes(40)}, func(st core.State) { c18.HandleVars(c, st) })
}
