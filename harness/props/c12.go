package props

import (
	"encoding/json"

	"verif/harness/c12"
	"verif/harness/core"
)

func init() {
	register(&Def{ID: "C12", Run: runC12, Replay: func(c *core.Check, v json.RawMessage) { replayRaw(c, v, c12.Handle) }})
}

func runC12(c *core.Check) {
	c.Rule = "every history (sequence of writer API calls) of length <= MaxH from the empty file and three loaded files (multi-line block with comments, one-line block, empty one-line block) is one vector (operations: set by value / traversal / raw tokens, remove, rename, append new / detached block, remove block, set type, set labels, Clear, AppendNewline, AppendUnstructuredTokens); plus 15 x 40 calls (quick) / 600 x 80 calls (thorough) random histories (names a,b,c; nesting 3) executed by a driver and validated by TLC against HclWriteTree (trace validation); non-trivial = non-empty history, distinct by its call sequence"
	c.Assumes = []string{
		"names {a,b}, block types {t,u}, label lists {[],[x],[x,y]}, 4 expression payloads (2 values, traversal, raw tokens); nesting depth <= 2",
		"AppendBlock is only called with detached blocks (documented precondition)",
	}
	c.Extra["MaxH"] = "3 from every initial file"
	streamTLC(c, core.TLCRun{Module: "MC_C12", Consts: map[string]string{"MaxH": "3"}, Timeout: minutes(25)},
		func(st core.State) { c12.Handle(c, st) })
	// (length 4 from one initial file is 14 M histories and does not finish in 40 minutes on a loaded
	// machine; the thorough tier deepens the trace-validated random histories instead)
	// long random histories on the real tree, validated by TLC against the same actions (Trace_Write.tla)
	if c.Tier == "thorough" {
		c12.RunTraces(c, 600, 80)
	} else {
		c12.RunTraces(c, 15, 40)
	}
}
