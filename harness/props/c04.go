package props

import (
	"encoding/json"

	"verif/harness/c04"
	"verif/harness/core"
)

func init() {
	register(&Def{ID: "C04", Run: runC04, Replay: func(c *core.Check, v json.RawMessage) { replayRaw(c, v, c04.Handle) }})
}

func runC04(c *core.Check) {
	c.Rule = "every body of <= MaxItems items (attributes a,b; blocks p,q with 0..1 labels) x every disjoint split of every well-formed schema into 2..MaxParts parts (required flags, label counts): chain of PartialContent + final Content vs one Content with the union schema, on native, JSON, merged (native+JSON halves) and dynamic-block-expanded renderings of the same items; compared with each other by the laws and with the model step by step. Non-trivial = distinct (body, split) with at least one item"
	c.Assumes = []string{"the JSON rendering is only used when every block's label count matches (JSON derives label structure from the schema)", "diagnostics are classified by summary into missing/extra/labels and compared as sets of (kind, name)"}
	consts := map[string]string{"MaxItems": "3", "MaxParts": "2"}
	if c.Tier == "thorough" {
		consts = map[string]string{"MaxItems": "4", "MaxParts": "3"}
	}
	c.Extra["constants"] = consts
	streamTLC(c, core.TLCRun{Module: "MC_C04", Consts: consts, Timeout: minutes(25)}, func(st core.State) { c04.Handle(c, st) })
}
