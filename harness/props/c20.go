package props

import (
	"encoding/json"

	"verif/harness/c20"
	"verif/harness/core"
)

func init() {
	register(&Def{ID: "C20", Run: runC20, Replay: func(c *core.Check, v json.RawMessage) {
		var k struct {
			Kind string `json:"kind"`
		}
		json.Unmarshal(v, &k)
		if k.Kind == "e1" {
			replayRaw(c, v, c20.HandleE1)
		} else {
			replayRaw(c, v, c20.Handle)
		}
	}})
}

func runC20(c *core.Check) {
	c.Rule = "(1) MC_C20 traversals: every root x step sequence (attr, string/number index, legacy index) up to MaxSteps in 3 layouts (plain, parenthesised, newlines between steps) and as a JSON template: AbsTraversalForExpr.TraverseAbs vs Value, ParseTraversalAbs vs expression parser, all vs the specification's fold; (2) MC_C20 types: every type up to depth MaxTD: TypeString parses back (native and JSON) to the identical type; (3) every MC_E1 AST: static traversal/list/map/call views vs evaluation. Non-trivial = distinct traversal / type text"
	c.Assumes = []string{"keywords true/false/null have a static traversal view by design and are excluded from the traversal-vs-evaluation comparison (spec's stated exception)"}
	consts := map[string]string{"MaxSteps": "3", "MaxTD": "2"}
	if c.Tier == "thorough" {
		consts = map[string]string{"MaxSteps": "4", "MaxTD": "3"}
	}
	c.Extra["constants"] = consts
	streamTLC(c, core.TLCRun{Module: "MC_C20", Consts: consts, Timeout: minutes(20)}, func(st core.State) { c20.Handle(c, st) })
	e1c := map[string]string{"MaxD": "1", "Level2": "\"core\""}
	if c.Tier == "thorough" {
		e1c = map[string]string{"MaxD": "2", "Level2": "\"core\""}
	}
	streamTLC(c, core.TLCRun{Module: "MC_E1", NoPred: true, Parts: 4, Consts: e1c, Timeout: minutes(20), KeepVars: []string{"e", "fv", "last"}},
		func(st core.State) { c20.HandleE1(c, st) })
}
