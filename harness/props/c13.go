package props

import (
	"encoding/json"

	"verif/harness/c13"
	"verif/harness/core"
)

func init() {
	register(&Def{ID: "C13", Run: runC13, Replay: func(c *core.Check, v json.RawMessage) {
		var k struct {
			Template string `json:"template"`
			Kind     string `json:"kind"`
			Source   string `json:"source"`
		}
		json.Unmarshal(v, &k)
		if k.Kind == "doc" {
			c13.HandleDoc(c, k.Source)
		} else if k.Template != "" {
			replayRaw(c, v, c13.HandleTemplate)
		} else {
			replayRaw(c, v, c13.Handle)
		}
	}})
}

func runC13(c *core.Check) {
	c.Rule = "(1) every byte-class string of length <= MaxN over the 22 classes of Json8259.tla (dead prefixes pruned), instantiated with seeded concrete bytes: the JSON front end reports an error iff the TLA+ pushdown recogniser rejects; accepted documents evaluate in literal-only mode to the value an independent decoder (encoding/json, exact numbers) assigns, duplicate names are evaluation errors; (2) every MC_E1 expression inside three template texts: the JSON string evaluates like the native template. Non-trivial = distinct accepted document"
	c.Assumes = []string{"the recogniser is calibrated on every vector against encoding/json.Valid (disagreement = exit 2), except for invalid UTF-8, which encoding/json tolerates", "lone surrogate escapes denote U+FFFD as in every JSON library"}
	n := "5"
	if c.Tier == "thorough" {
		n = "6"
	}
	c.Extra["MaxN"] = n
	r := core.TLCRun{Module: "MC_C13", Consts: map[string]string{"MaxN": n}, Timeout: minutes(30)}
	r.ConstSubst = map[string]string{"Alphabet": "Full"}
	streamTLC(c, r, func(st core.State) { c13.Handle(c, st) })
	for _, doc := range c13.FixedDocs() {
		c13.HandleDoc(c, doc)
	}
	e1c := map[string]string{"MaxD": "1", "Level2": "\"core\""}
	if c.Tier == "thorough" {
		e1c = map[string]string{"MaxD": "2", "Level2": "\"core\""}
	}
	streamTLC(c, core.TLCRun{Module: "MC_E1", NoPred: true, Parts: 4, Consts: e1c, Timeout: minutes(30), KeepVars: []string{"e", "fv", "last"}},
		func(st core.State) { c13.HandleTemplate(c, st) })
}
