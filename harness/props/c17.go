package props

import (
	"encoding/json"

	"verif/harness/c17"
	"verif/harness/core"
)

func init() {
	register(&Def{ID: "C17", Run: runC17, Replay: func(c *core.Check, v json.RawMessage) {
		// concurrency findings are reproduced by re-running the check (schedules are in the replay file for inspection)
		c17.Run(c)
	}})
}

func runC17(c *core.Check) {
	c.Rule = "SplatConc.tla (3 goroutines, nested splat with 2 outer x 1 inner items) is model-checked exhaustively for ReadOwn/NoLeak (and must violate ReadOwn when two goroutines share a context); thorough: TLAPS proves that every read returns the own value of the reader for any number of goroutines with distinct contexts (spec/proofs/SplatConcProofs.tla, 154 obligations); N behaviours from TLC simulation are forced onto real goroutines through the pre-lock hook gate; M free-running runs with seeded yields are recorded through the under-lock hooks; all recorded event sequences are validated by TLC against SplatConc (Trace_Splat.tla); 16 goroutines decode shared native/JSON/dynblock-expanded bodies concurrently; built with -race. Verdict: every concurrent result equals the result computed alone, every symbol read returns the reader's own value, no race report. Non-trivial = distinct interleaving"
	c.Assumes = []string{"interleavings of the lock-protected map operations; data races inside an operation are the race detector's job", "each goroutine has its own EvalContext (shared parents allowed), as the statement requires"}
	// model-level exhaustive checks
	st, err := core.TLCRun{Module: "MC_C17", NoDump: true, Timeout: minutes(10)}.Stream(1, func(core.State) {})
	c.AddTLC(st)
	if err != nil || st.ErrorKind != "" {
		c.Broken("SplatConc does not satisfy ReadOwn/NoLeak with distinct contexts: %v %s", err, st.ErrorMsg)
		return
	}
	st2, _ := core.TLCRun{Module: "MC_C17", Cfg: "MC_C17_shared.cfg", NoDump: true, Timeout: minutes(10)}.Stream(1, func(core.State) {})
	if st2.ErrorKind != "invariant" {
		c.Broken("the shared-context configuration must violate ReadOwn (non-vacuity witness) but TLC says %q", st2.ErrorKind)
		return
	}
	c.Extra["shared_context_config_violates_ReadOwn"] = true
	if c.Tier == "thorough" {
		// the bound of the model-checked configuration removed: TLAPS proof that every read returns the
		// reader's own value for any number of goroutines with distinct contexts and any splat sizes
		n, out, err := core.RunTLAPM("SplatConcProofs", minutes(15))
		if err != nil {
			c.Broken("tlapm could not check spec/proofs/SplatConcProofs.tla: %v %s", err, out)
			return
		}
		c.Extra["tlaps_obligations_proved_SplatConcProofs"] = n
	}
	c17.Run(c)
}
