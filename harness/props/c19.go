package props

import (
	"encoding/json"

	"verif/harness/c19"
	"verif/harness/core"
)

func init() {
	register(&Def{ID: "C19", Run: runC19, Replay: func(c *core.Check, v json.RawMessage) { replayRaw(c, v, c19.Handle) }})
}

func runC19(c *core.Check) {
	c.Rule = "every MC_E1 AST evaluated in two scopes whose values are canaries (high-entropy strings, numbers, map keys) carried only inside marked values (marks at top level / on elements); every diagnostic's summary, detail and text-writer rendering (width 0 and 78, with source snippet and variable summary) is searched for the canaries; the same for hcldec.Decode of bodies whose attribute / for_each / label is the expression, under 13 specs (attribute types that make conversions fail deep inside marked values, BlockAttrsSpec, dynamic blocks, duplicate map keys). Non-trivial = distinct source whose evaluation produced at least one diagnostic"
	c.Assumes = []string{"the source text never contains a canary, so snippets cannot cause false positives", "messages of the application function fail() are not canary-bearing"}
	streamTLC(c, core.TLCRun{Module: "MC_E1", NoPred: true, Parts: 4, Consts: e1Consts(c), Timeout: minutes(25), KeepVars: []string{"e", "fv", "last"}},
		func(st core.State) { c19.Handle(c, st) })
	deepE1(c, false, func(st core.State) { c19.Handle(c, st) })
	// bodies: the expression as an attribute value / for_each / label under 13 hcldec specs (conversion and
	// decoding error paths of hcldec and dynblock)
	bc := map[string]string{"MaxD": "1", "Level2": "\"core\""}
	if c.Tier == "thorough" {
		bc = map[string]string{"MaxD": "2", "Level2": "\"core\""}
	}
	streamTLC(c, core.TLCRun{Module: "MC_E1", NoPred: true, Parts: 4, Consts: bc, Timeout: minutes(30), KeepVars: []string{"e", "fv", "last"}},
		func(st core.State) { c19.HandleBodies(c, st) })
}
