package props

import (
	"encoding/json"

	"verif/harness/c19"
	"verif/harness/core"
)

func init() {
	register(&Def{ID: "C19", Run: runC19, Replay: func(c *core.Check, v json.RawMessage) { replayRaw(c, v, c19.Handle) }})
}

func runC19(c *core.Check) {
	c.Rule = "every MC_E1 AST evaluated in two scopes whose values are canaries (high-entropy strings, numbers, map keys) carried only inside marked values (marks at top level / on elements); every diagnostic's summary, detail and text-writer rendering (width 0 and 78, with source snippet and variable summary) is searched for the canaries. Non-trivial = distinct source whose evaluation produced at least one diagnostic"
	c.Assumes = []string{"the source text never contains a canary, so snippets cannot cause false positives", "messages of the application function fail() are not canary-bearing"}
	streamTLC(c, core.TLCRun{Module: "MC_E1", Consts: e1Consts(c), Timeout: minutes(25), KeepVars: []string{"e", "fv", "last"}},
		func(st core.State) { c19.Handle(c, st) })
}
