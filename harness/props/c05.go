package props

import (
	"encoding/json"

	"verif/harness/c05"
	"verif/harness/core"
)

func init() {
	register(&Def{ID: "C05", Run: runC05, Replay: func(c *core.Check, v json.RawMessage) { replayRaw(c, v, c05.Handle) }})
}

func runC05(c *core.Check) {
	c.Rule = "every MC_E1 AST x every non-empty subset of its free scope variables (<=3) x abstraction kind (typed unknown, dynamic, not-null, string prefix, number bounds, length bounds) x concrete instantiations (the scope value and up to 4 same-typed alternates inside the abstraction): abstract result must approximate each concrete result (type, known parts, refinements via Range().Includes); plus: error-free evaluation in the known scope is wholly known. Non-trivial = distinct source with at least one error-free abstract/concrete pair"
	c.Assumes = []string{"pairs where either evaluation reports an error are outside the statement and skipped (counted)", "marks are stripped before comparison"}
	streamTLC(c, core.TLCRun{Module: "MC_E1", Parts: 4, Consts: e1Consts(c), Timeout: minutes(25), KeepVars: []string{"e", "fv", "last"}},
		func(st core.State) { c05.Handle(c, st) })
	deepE1(c, true, func(st core.State) { c05.Handle(c, st) })
}
