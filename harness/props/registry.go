// Package props wires each property id to its TLC configurations and replayer.
package props

import (
	"encoding/json"
	"fmt"
	"time"

	"verif/harness/core"
)

type Def struct {
	ID     string
	Run    func(c *core.Check)
	Replay func(c *core.Check, vector json.RawMessage)
}

var Registry = map[string]*Def{}

func register(d *Def) { Registry[d.ID] = d }

// streamTLC runs one TLC configuration, feeding every dumped state to handle,
// and folds statistics into the check. Model-level errors (invariant
// violations in the *spec*) make the check broken, never a violation.
func streamTLC(c *core.Check, r core.TLCRun, handle func(core.State)) core.TLCStats {
	stats, err := r.Stream(0, func(st core.State) {
		if rec, p := core.Guard(func() { handle(st) }); p {
			c.Broken("replayer panic outside guarded region: %v", rec)
		}
	})
	c.AddTLC(stats)
	if err != nil {
		c.Broken("TLC run %s: %v", r.Module, err)
		return stats
	}
	switch stats.ErrorKind {
	case "invariant", "property", "deadlock":
		c.Broken("TLC run %s: model-level %s violation (spec drift, not a code verdict): %s", r.Module, stats.ErrorKind, stats.ErrorMsg)
	}
	if r.Simulate == "" && stats.Dumped != stats.Distinct {
		c.Broken("TLC run %s: dumped %d states but TLC reports %d distinct", r.Module, stats.Dumped, stats.Distinct)
	}
	return stats
}

// replayRaw re-parses a raw state stored in a replay file and hands it to handle.
func replayRaw(c *core.Check, vector json.RawMessage, handle func(*core.Check, core.State)) {
	var v struct {
		State string `json:"state"`
	}
	if err := json.Unmarshal(vector, &v); err != nil || v.State == "" {
		c.Broken("replay file has no state: %v", err)
		return
	}
	st, err := core.ParseState(v.State, nil)
	if err != nil {
		c.Broken("replay state: %v", err)
		return
	}
	handle(c, st)
}

func minutes(n int) time.Duration { return time.Duration(n) * time.Minute }

var _ = fmt.Sprintf
