// Package props wires each property id to its TLC configurations and replayer.
package props

import (
	"encoding/json"
	"fmt"
	"os"
	"time"

	"verif/harness/core"
)

type Def struct {
	ID     string
	Run    func(c *core.Check)
	Replay func(c *core.Check, vector json.RawMessage)
}

var Registry = map[string]*Def{}

func register(d *Def) { Registry[d.ID] = d }

// streamTLC runs one TLC configuration, feeding every dumped state to handle,
// and folds statistics into the check. Model-level errors (invariant
// violations in the *spec*) make the check broken, never a violation.
func streamTLC(c *core.Check, r core.TLCRun, handle func(core.State)) core.TLCStats {
	if os.Getenv("VERIF_STAGE") == "deep" { // development aid: run only the MC_E1Deep stage of a check
		return core.TLCStats{}
	}
	stats, err := r.Stream(0, func(st core.State) {
		if rec, p := core.Guard(func() { handle(st) }); p {
			c.Broken("replayer panic outside guarded region: %v", rec)
		}
	})
	c.AddTLC(stats)
	if err != nil {
		c.Broken("TLC run %s: %v", r.Module, err)
		return stats
	}
	switch stats.ErrorKind {
	case "invariant", "property", "deadlock":
		c.Broken("TLC run %s: model-level %s violation (spec drift, not a code verdict): %s", r.Module, stats.ErrorKind, stats.ErrorMsg)
	}
	if r.Simulate == "" && stats.Dumped != stats.Distinct {
		c.Broken("TLC run %s: dumped %d states but TLC reports %d distinct", r.Module, stats.Dumped, stats.Distinct)
	}
	return stats
}

// replayRaw re-parses a raw state stored in a replay file and hands it to handle.
func replayRaw(c *core.Check, vector json.RawMessage, handle func(*core.Check, core.State)) {
	var v struct {
		State string `json:"state"`
	}
	if err := json.Unmarshal(vector, &v); err != nil || v.State == "" {
		c.Broken("replay file has no state: %v", err)
		return
	}
	st, err := core.ParseState(v.State, nil)
	if err != nil {
		c.Broken("replay state: %v", err)
		return
	}
	handle(c, st)
}

func minutes(n int) time.Duration { return time.Duration(n) * time.Minute }

var _ = fmt.Sprintf

// deepE1 runs the bushy / deep expression generator MC_E1Deep in TLC's simulation mode and feeds
// every state in which the expression under construction changed to handle (the states have the
// shape of MC_E1 states, so the MC_E1 replayers consume them). Model-level invariants are checked
// by TLC on every visited state when needPred is set.
func deepE1(c *core.Check, needPred bool, handle func(core.State)) {
	perWorker, depth, maxD := 100, 10, "5"
	if c.Tier == "thorough" {
		perWorker, depth, maxD = 1500, 12, "6"
	}
	consts := map[string]string{"MaxD": maxD, "Level2": "\"all\"", "NParts": "1", "Part": "0", "NeedPred": "TRUE"}
	cfg := "MC_E1Deep.cfg"
	if !needPred {
		consts["NeedPred"] = "FALSE"
		cfg = "MC_E1Deep_nopred.cfg"
	}
	c.Extra["deep_constants"] = map[string]any{"MaxD": maxD, "behaviours_per_worker": perWorker, "depth": depth, "seed": c.Seed}
	r := core.TLCRun{Module: "MC_E1Deep", Cfg: cfg, Consts: consts, Depth: depth, Seed: c.Seed, Workers: 10, Timeout: minutes(40),
		KeepVars: []string{"e", "pred", "last", "fv"}}
	stats, err := r.StreamSim(0, perWorker, []string{"e"}, false, func(st core.State) {
		c.Count("deep_vectors", 1)
		if rec, p := core.Guard(func() { handle(st) }); p {
			c.Broken("replayer panic outside guarded region (deep vector): %v", rec)
		}
	})
	c.AddTLC(core.TLCStats{Distinct: stats.Generated, Generated: stats.Generated})
	c.Count("deep_behaviours", stats.Distinct)
	if err != nil {
		c.Broken("TLC simulation MC_E1Deep: %v", err)
		return
	}
	switch stats.ErrorKind {
	case "invariant", "property":
		c.Broken("TLC simulation MC_E1Deep: model-level %s violation (spec drift, not a code verdict): %s", stats.ErrorKind, stats.ErrorMsg)
	}
	if stats.Dumped == 0 {
		c.Broken("TLC simulation MC_E1Deep produced no vectors")
	}
}
