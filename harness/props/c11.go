package props

import (
	"encoding/json"

	"verif/harness/c11"
	"verif/harness/core"
)

func init() {
	register(&Def{ID: "C11", Run: runC11, Replay: func(c *core.Check, v json.RawMessage) { replayRaw(c, v, c11.Handle) }})
}

func runC11(c *core.Check) {
	c.Rule = "every abstract value MC_C11 builds: strings = all class sequences of length <= MaxLen over 16 character classes (letters, space, NL/CR/TAB, quote, backslash, $ % { }, non-printable BMP and astral, multi-byte, combining) with seeded concrete representatives; 12 numbers incl. 30-digit, 1e100, 1e-20; bools; typed nulls; keywords and non-identifiers as words; wrapped in tuple/list/set/map/object with key strings incl. for/in/if/null/true. Each: TokensForValue, SetAttributeValue, block labels (AppendNewBlock/SetLabels + Labels()), TokensForTraversal round trips. TLC checks Unescape(Escape(s)) = s on the spec. Non-trivial = distinct concrete value"
	c.Assumes = []string{"character classes have a handful of representatives each (seed picks one per class and run)", "strings are compared after cty's NFC normalisation of the original"}
	cfgs := []map[string]string{{"MaxLen": "3", "MaxD": "1"}}
	if c.Tier == "thorough" {
		// longer strings in one wrapper, and short strings in two nested wrappers
		cfgs = []map[string]string{{"MaxLen": "4", "MaxD": "1"}, {"MaxLen": "2", "MaxD": "2"}}
	}
	c.Extra["constants"] = cfgs
	for _, consts := range cfgs {
		r := core.TLCRun{Module: "MC_C11", Consts: consts, Timeout: minutes(40)}
		r.ConstSubst = map[string]string{"Alphabet": "Classes"}
		streamTLC(c, r, func(st core.State) { c11.Handle(c, st) })
	}
}
