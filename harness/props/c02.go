package props

import (
	"encoding/json"

	"verif/harness/c02"
	"verif/harness/core"
)

func init() {
	register(&Def{ID: "C02", Run: runC02, Replay: func(c *core.Check, v json.RawMessage) { replayRaw(c, v, c02.Handle) }})
}

func runC02(c *core.Check) {
	c.Rule = "every file the HclStruct layout machine can write: body trees (attributes, multi-line and one-line blocks, nesting <= 2, labels in every spelling of the escape table) x every rendering with <= MaxL deviations from canonical layout (indentation, gaps, inline/line comments before, inside and after items, CRLF, BOM, missing final newline); parse result compared with the written tree, duplicate attribute names must be rejected. Non-trivial = distinct source text with at least one item"
	c.Assumes = []string{"label alphabet by representative spellings (HclStruct!Spellings); identifiers a, b, t"}
	type cfg struct{ items, l, values, labels string }
	cfgs := []cfg{{"2", "1", "MCValuesFull", "\"full\""}, {"3", "1", "MCValuesFew", "\"few\""}}
	if c.Tier == "thorough" {
		cfgs = []cfg{{"2", "2", "MCValuesFull", "\"full\""}, {"4", "1", "MCValuesFew", "\"few\""}}
	}
	var used []map[string]string
	for _, k := range cfgs {
		consts := map[string]string{"MaxItems": k.items, "MaxL": k.l, "LabelMode": k.labels}
		used = append(used, consts)
		r := core.TLCRun{Module: "MC_C02", Consts: consts, Timeout: minutes(25)}
		r.ConstSubst = map[string]string{"Values": k.values}
		streamTLC(c, r, func(st core.State) { c02.Handle(c, st) })
	}
	c.Extra["constants"] = used
}
