package props

import (
	"encoding/json"
	"strings"

	"verif/harness/c02"
	"verif/harness/c09"
	"verif/harness/c10"
	"verif/harness/core"
	"verif/harness/gap"
	"verif/harness/tla"
)

func init() {
	register(&Def{ID: "C09", Run: runC09, Replay: func(c *core.Check, v json.RawMessage) { replaySrc(c, v, c09.CheckSource, c09.HandleE1) }})
	register(&Def{ID: "C10", Run: runC10, Replay: func(c *core.Check, v json.RawMessage) { replaySrc(c, v, c10.CheckSource, c10.HandleE1) }})
}

func replaySrc(c *core.Check, v json.RawMessage, chk func(*core.Check, string, map[string]any) bool, e1h func(*core.Check, core.State)) {
	var k struct {
		Source string `json:"source"`
	}
	json.Unmarshal(v, &k)
	if k.Source == "" {
		c.Broken("replay file has no source")
		return
	}
	if !chk(c, k.Source, map[string]any{"source": k.Source}) {
		c.Broken("replay source does not parse")
	}
}

// structSource assembles the file text of an MC_C02 state ("" for unfinished / rejected files).
func structSource(st core.State) string {
	if !tla.Bool(st.Vars["closed"]) {
		return ""
	}
	return c02.Source(st)
}

func runFmtLike(c *core.Check, chk func(*core.Check, string, map[string]any) bool, e1h func(*core.Check, core.State)) {
	// quick: depth-1 ASTs over every production in every layout; thorough: depth 2
	e1c := map[string]string{"MaxD": "1", "Level2": "\"core\""}
	if c.Tier == "thorough" {
		e1c = map[string]string{"MaxD": "2", "Level2": "\"core\""}
	}
	c.Extra["e1_constants"] = e1c
	streamTLC(c, core.TLCRun{Module: "MC_E1", NoPred: true, Parts: 4, Consts: e1c, Timeout: minutes(30), KeepVars: []string{"e", "fv", "last"}},
		func(st core.State) { e1h(c, st) })
	// heredoc and flush heredoc templates as attribute values and inside brackets
	hd := "1"
	if c.Tier == "thorough" {
		hd = "2"
	}
	streamTLC(c, core.TLCRun{Module: "MC_E1", NoPred: true, Parts: 4, Consts: map[string]string{"MaxD": hd, "Level2": "\"heredoc\""}, Timeout: minutes(30), KeepVars: []string{"e", "fv", "last"}},
		func(st core.State) { e1h(c, st) })
	// size extremes the bounded generators cannot reach (fixed supplementary corpus): deep nesting,
	// wide alignment columns, long comments
	for _, src := range sizeCorpus() {
		c.Count("vectors_replayed", 1)
		if chk(c, src, map[string]any{"source": src, "kind": "size-corpus"}) {
			c.Nontrivial(src)
		}
	}
	gapStage(c, func(src string, vec map[string]any) bool { return chk(c, src, vec) })
	consts := map[string]string{"MaxItems": "2", "MaxL": "1", "LabelMode": "\"full\""}
	if c.Tier == "thorough" {
		consts = map[string]string{"MaxItems": "2", "MaxL": "2", "LabelMode": "\"full\""}
	}
	r := core.TLCRun{Module: "MC_C02", Consts: consts, Timeout: minutes(30), KeepVars: []string{"closed", "out", "tree", "cost"}}
	r.ConstSubst = map[string]string{"Values": "MCValuesFull"}
	streamTLC(c, r, func(st core.State) {
		src := structSource(st)
		if src == "" {
			return
		}
		c.Count("vectors_replayed", 1)
		if chk(c, src, map[string]any{"state": st.Raw, "source": src, "kind": "struct"}) {
			c.Nontrivial(src)
			if strings.Contains(src, "/*") && strings.Contains(src, "{") {
				c.Sample(map[string]any{"source": src})
			}
		}
	})
}

// gapStage streams MC_Gap: one or two non-canonical gaps (nothing, blanks, tabs, inline and line
// comments, newlines) at every token boundary of every base expression. Edited texts that do not
// parse without errors are outside the statements and are only counted.
func gapStage(c *core.Check, chk func(string, map[string]any) bool) {
	cfgs := []map[string]string{{"MaxK": "1", "BaseMode": "\"few\"", "MaxPos": "13"}}
	if c.Tier == "thorough" {
		cfgs = []map[string]string{{"MaxK": "1", "BaseMode": "\"mid\"", "MaxPos": "15"}, {"MaxK": "2", "BaseMode": "\"few\"", "MaxPos": "9"}}
	}
	// every subset of up to 4 blanks removed from a fully spaced rendering of the token-fusion-prone forms
	// (legacy indexes, attribute access on numbers, unary minus chains, namespaced calls)
	cfgs = append(cfgs, map[string]string{"MaxK": "4", "BaseMode": "\"spaced\"", "MaxPos": "9"})
	c.Extra["gap_constants"] = cfgs
	for _, consts := range cfgs {
		streamTLC(c, core.TLCRun{Module: "MC_Gap", Parts: 4, Consts: consts, Timeout: minutes(30), KeepVars: []string{"e", "gaps"}}, func(st core.State) {
			v := gap.Decode(st)
			v.Spaced = consts["BaseMode"] == "\"spaced\""
			if len(v.Edits) == 0 && !v.Spaced {
				return
			}
			c.Count("vectors_replayed", 1)
			for _, src := range v.Sources() {
				if chk(src, map[string]any{"state": st.Raw, "source": src, "kind": "gap"}) {
					c.Count("gap_sources_in_domain", 1)
					c.Nontrivial(src)
				} else {
					c.Count("gap_sources_outside_domain", 1)
				}
			}
		})
	}
}

func runC09(c *core.Check) {
	c.Rule = "(1) every MC_E1 expression as an attribute value in 4-5 layouts (canonical, wide, inline comments, a space between EVERY pair of tokens incl. traversal steps, newlines inside parentheses), alone and inside a block with lead/trailing comments and a multi-line tuple; (2) every file of the MC_C02 layout machine (comments in every position, CRLF, tabs, BOM, one-line blocks, missing final newline). (3) MC_Gap: every base expression with one (thorough: two) non-canonical gaps (none, blanks, tab, inline / line comments, newlines, CRLF) at every token boundary. Each error-free source: Format keeps the token sequence (types and bytes), still parses, keeps every attribute value, and is idempotent. Non-trivial = distinct source text"
	c.Assumes = []string{"token sequences are compared with hclsyntax.LexConfig on both sides", "gap edits whose result does not parse are outside the statement (counted as gap_sources_outside_domain)"}
	runFmtLike(c, c09.CheckSource, c09.HandleE1)
}

func runC10(c *core.Check) {
	c.Rule = "same sources as C09: hclwrite.ParseConfig must load without panic or diagnostics, File.Bytes() must have the source's token sequence and equal Format(source), and the tree must expose exactly the source's attributes, blocks, labels and (per attribute, in order) variable references. Non-trivial = distinct source text"
	c.Assumes = []string{"expression token comparison is skipped for expressions containing string templates or comments (spacing inside them is significant)"}
	runFmtLike(c, c10.CheckSource, c10.HandleE1)
}

func sizeCorpus() []string {
	var out []string
	for _, depth := range []int{10, 39, 40, 41, 45, 90} {
		var sb strings.Builder
		for i := 0; i < depth; i++ {
			sb.WriteString(strings.Repeat(" ", i%3) + "b {\n")
		}
		sb.WriteString("a = 1\nlonger_name = [\n1,\n2]\n")
		for i := 0; i < depth; i++ {
			sb.WriteString("}\n")
		}
		out = append(out, sb.String())
	}
	for _, width := range []int{30, 79, 80, 81, 100, 200} {
		long := strings.Repeat("n", width)
		out = append(out, "a = 1 # c\n"+long+" = 2 # cc\nb = 3\n")
		out = append(out, "x = 1 "+"# "+strings.Repeat("c", width)+"\nyy = "+strings.Repeat("1", width)+" # d\nz = 3 # e\n")
		out = append(out, "blk {\n  a = 1\n  "+long+" = {\n    k = 1\n    "+long+"k = 2\n  }\n}\n")
	}
	return out
}
