package props

import (
	"encoding/json"

	"verif/harness/c02"
	"verif/harness/c09"
	"verif/harness/c14"
	"verif/harness/core"
	"verif/harness/e1"
	"verif/harness/tla"

	"github.com/hashicorp/hcl/v2"
)

func init() {
	register(&Def{ID: "C14", Run: runC14, Replay: func(c *core.Check, v json.RawMessage) {
		var k struct {
			Source string `json:"source"`
			State  string `json:"state"`
			Kind   string `json:"kind"`
		}
		json.Unmarshal(v, &k)
		if k.Kind == "" {
			replayRaw(c, v, c14.Handle)
			return
		}
		vec := map[string]any{"source": k.Source}
		c14.CheckTiling(c, []byte(k.Source), hcl.InitialPos, nil, vec)
		c14.CheckRanges(c, []byte(k.Source), vec)
	}})
}

func runC14(c *core.Check) {
	c.Rule = "(1) every class string of length <= MaxN over 20 lexer-relevant classes (quotes, template introducers, comment starts, heredoc start, CR/LF/TAB, multi-byte, combining mark, astral, invalid byte), from the initial and from an offset start position, in LexConfig/LexExpression/LexTemplate: tokens in order, non-overlapping, bytes = source slice, gaps blank, one EOF at the end, start/end positions = reference positions (HclLexPos.tla and an independent textseg counter) wherever the boundary is a cluster boundary; (2) every MC_E1 expression (3 layouts) and every MC_C02 file: recorded ranges of names, labels, braces, operators, call parts and traversal steps slice to the construct, expression ranges re-parse to an equivalent expression. Non-trivial = distinct source"
	c.Assumes = []string{"grapheme segmentation itself is the dependency textseg (UAX #29); HclLexPos.tla states its rule for the class alphabet and is cross-checked against it (drift = exit 2)"}
	n := "4"
	if c.Tier == "thorough" {
		n = "5"
	}
	c.Extra["MaxN"] = n
	for _, sk := range []string{"\"initial\"", "\"offset\""} {
		r := core.TLCRun{Module: "MC_C14", Consts: map[string]string{"MaxN": n, "StartKind": sk}, Timeout: minutes(30)}
		r.ConstSubst = map[string]string{"Alphabet": "Core"}
		streamTLC(c, r, func(st core.State) { c14.Handle(c, st) })
	}
	// longer strings over the grapheme-cluster classes only (emoji / joiner / Extend sequences)
	{
		ln := "5"
		if c.Tier == "thorough" {
			ln = "6"
		}
		r := core.TLCRun{Module: "MC_C14", Consts: map[string]string{"MaxN": ln, "StartKind": "\"initial\""}, Timeout: minutes(30)}
		r.ConstSubst = map[string]string{"Alphabet": "Clusters"}
		streamTLC(c, r, func(st core.State) { c14.Handle(c, st) })
	}
	// heredocs: an introducer line followed by every short string over the marker letter, blanks, Unicode
	// white space that is not a blank, line ends and template introducers (closing lines with neighbours)
	{
		ln := "4"
		if c.Tier == "thorough" {
			ln = "5"
		}
		r := core.TLCRun{Module: "MC_C14", Consts: map[string]string{"MaxN": ln, "StartKind": "\"initial\""}, Timeout: minutes(30)}
		r.ConstSubst = map[string]string{"Alphabet": "Heredocs"}
		streamTLC(c, r, func(st core.State) { c14.Handle(c, st) })
	}
	// range fidelity on grammar-derived sources
	e1c := map[string]string{"MaxD": "1", "Level2": "\"core\""}
	if c.Tier == "thorough" {
		e1c = map[string]string{"MaxD": "2", "Level2": "\"core\""}
	}
	streamTLC(c, core.TLCRun{Module: "MC_E1", NoPred: true, Parts: 4, Consts: e1c, Timeout: minutes(30), KeepVars: []string{"e", "fv", "last"}}, func(st core.State) {
		v, err := e1.DecodeVector(st)
		if err != nil {
			c.Broken("%v", err)
			return
		}
		c.Count("vectors_replayed", 1)
		for _, src := range c09.Configs(v.Node) {
			vec := map[string]any{"state": st.Raw, "source": src, "kind": "e1"}
			if !c14.CheckRanges(c, []byte(src), vec) {
				c.Broken("generated configuration does not parse: %q", src)
				return
			}
			c14.CheckTiling(c, []byte(src), hcl.InitialPos, nil, vec)
		}
		c.Nontrivial(e1.Render(v.Node, e1.Layout{}))
	})
	gapStage(c, func(src string, vec map[string]any) bool {
		if !c14.CheckRanges(c, []byte(src), vec) {
			return false
		}
		c14.CheckTiling(c, []byte(src), hcl.InitialPos, nil, vec)
		return true
	})
	consts := map[string]string{"MaxItems": "2", "MaxL": "1", "LabelMode": "\"full\""}
	r := core.TLCRun{Module: "MC_C02", Consts: consts, Timeout: minutes(30), KeepVars: []string{"closed", "out", "tree", "cost"}}
	r.ConstSubst = map[string]string{"Values": "MCValuesFull"}
	streamTLC(c, r, func(st core.State) {
		if !tla.Bool(st.Vars["closed"]) {
			return
		}
		src := c02.Source(st)
		c.Count("vectors_replayed", 1)
		vec := map[string]any{"state": st.Raw, "source": src, "kind": "struct"}
		if c14.CheckRanges(c, []byte(src), vec) {
			c.Nontrivial(src)
		}
		c14.CheckTiling(c, []byte(src), hcl.InitialPos, nil, vec)
	})
}
