package props

import (
	"encoding/json"

	"verif/harness/c08"
	"verif/harness/core"
)

func init() {
	register(&Def{ID: "C08", Run: runC08, Replay: func(c *core.Check, v json.RawMessage) { replayRaw(c, v, c08.Handle) }})
}

func decConfigs(c *core.Check) []map[string]string {
	all := "\"all\""
	cfgs := []map[string]string{{"MaxSpecD": "1", "MaxItems": "2", "ItemMode": all}, {"MaxSpecD": "2", "MaxItems": "1", "ItemMode": all},
		// three items from a small pool: the interplay of several blocks of one type
		{"MaxSpecD": "1", "MaxItems": "3", "ItemMode": "\"few\""},
		// two items from the small pool under every spec tree of depth 2
		{"MaxSpecD": "2", "MaxItems": "2", "ItemMode": "\"few\""}}
	if c.Tier == "thorough" {
		cfgs = []map[string]string{{"MaxSpecD": "2", "MaxItems": "2", "ItemMode": all}, {"MaxSpecD": "2", "MaxItems": "3", "ItemMode": "\"few\""}}
	}
	c.Extra["constants"] = cfgs
	return cfgs
}

func runC08(c *core.Check) {
	c.Rule = "every well-formed spec tree of depth <= MaxSpecD over all 17 spec kinds x every body of <= MaxItems items (attributes of several literal types incl. null, extraneous attribute/block, blocks with 0..2 labels and 7 inner bodies incl. nested blocks): Decode and PartialDecode do not panic, the value's type conforms to ImpliedType, ImpliedType equals the model's, and error-ness/value equal HclDec.tla's Decode. Non-trivial = distinct (spec, body)"
	c.Assumes = []string{"documented preconditions respected: label specs only inside block specs, default has its primary's type, no dynamic types inside BlockMapSpec, one label count per block type and body", "model results that need type unification of differing element types are oom (type relation still checked)"}
	for _, consts := range decConfigs(c) {
		streamTLC(c, core.TLCRun{Module: "MC_Dec", Parts: 4, Consts: consts, Timeout: minutes(25)}, func(st core.State) { c08.Handle(c, st) })
	}
}
