package core

import (
	"crypto/sha1"
	"encoding/hex"
	"encoding/json"
	"fmt"
	"hash/fnv"
	"os"
	"path/filepath"
	"sort"
	"strconv"
	"sync"
	"sync/atomic"
	"time"
)

// Exit codes: 0 held / only known findings; 1 unlisted violation; 2 broken.
const (
	ExitOK        = 0
	ExitViolation = 1
	ExitBroken    = 2
)

type Finding struct {
	Property  string `json:"property"`
	Signature string `json:"signature"`
	Status    string `json:"status"` // "known" | "fixed"
	Commit    string `json:"commit,omitempty"`
	What      string `json:"what"`
}

type Check struct {
	ID    string
	Tier  string
	Seed  int64
	Start time.Time

	mu         sync.Mutex
	known      map[string]Finding
	knownHits  map[string]int
	violations map[string]*violation
	broken     []string
	samples    []any
	maxSamples int
	counters   map[string]*int64
	distinct   [64]map[uint64]struct{}
	dmu        [64]sync.Mutex
	States     int64
	Trans      int64
	Exhaustive bool
	Extra      map[string]any
	Assumes    []string
	Rule       string
	ReplayMode bool
}

type violation struct {
	Sig    string
	What   string
	Count  int
	Replay string
}

func NewCheck(id, tier string) *Check {
	seed := int64(1)
	if s := os.Getenv("VERIF_SEED"); s != "" {
		if n, err := strconv.ParseInt(s, 10, 64); err == nil {
			seed = n
		}
	}
	c := &Check{ID: id, Tier: tier, Seed: seed, Start: time.Now(),
		known: map[string]Finding{}, knownHits: map[string]int{}, violations: map[string]*violation{},
		counters: map[string]*int64{}, maxSamples: 6, Extra: map[string]any{}, Exhaustive: true}
	for i := range c.distinct {
		c.distinct[i] = map[uint64]struct{}{}
	}
	// replay files of earlier runs of this property are stale
	if old, _ := filepath.Glob(filepath.Join(VerifDir, "replays", id+"-*.json")); len(old) > 0 && os.Getenv("VERIF_KEEP_REPLAYS") == "" {
		for _, f := range old {
			os.Remove(f)
		}
	}
	b, err := os.ReadFile(filepath.Join(VerifDir, "known_findings.json"))
	if err == nil {
		var fs []Finding
		if err := json.Unmarshal(b, &fs); err != nil {
			c.Broken("known_findings.json unreadable: %v", err)
		}
		for _, f := range fs {
			if f.Property == id && f.Status == "known" {
				c.known[f.Signature] = f
			}
		}
	}
	return c
}

// Count increments a named counter reported in the evidence file.
func (c *Check) Count(name string, n int64) {
	c.mu.Lock()
	p, ok := c.counters[name]
	if !ok {
		p = new(int64)
		c.counters[name] = p
	}
	c.mu.Unlock()
	atomic.AddInt64(p, n)
}

func (c *Check) Counter(name string) int64 {
	c.mu.Lock()
	defer c.mu.Unlock()
	if p, ok := c.counters[name]; ok {
		return atomic.LoadInt64(p)
	}
	return 0
}

// Nontrivial records a distinct non-trivial case (by key).
func (c *Check) Nontrivial(key string) {
	h := fnv.New64a()
	h.Write([]byte(key))
	v := h.Sum64()
	i := v & 63
	c.dmu[i].Lock()
	c.distinct[i][v] = struct{}{}
	c.dmu[i].Unlock()
}

func (c *Check) distinctCount() int64 {
	var n int64
	for i := range c.distinct {
		c.dmu[i].Lock()
		n += int64(len(c.distinct[i]))
		c.dmu[i].Unlock()
	}
	return n
}

func (c *Check) Sample(s any) {
	c.mu.Lock()
	if len(c.samples) < c.maxSamples {
		c.samples = append(c.samples, s)
	}
	c.mu.Unlock()
}

// Broken records a reason why the check itself is unusable (exit 2).
func (c *Check) Broken(format string, a ...any) {
	c.mu.Lock()
	if len(c.broken) < 20 {
		c.broken = append(c.broken, fmt.Sprintf(format, a...))
	}
	c.mu.Unlock()
}

func (c *Check) IsBroken() bool {
	c.mu.Lock()
	defer c.mu.Unlock()
	return len(c.broken) > 0
}

// Violation reports that the real code's observable output contradicts the
// property. sig identifies the failure mode (compared against
// known_findings.json), what is a human-readable account, replay is the
// vector that reproduces it.
func (c *Check) Violation(sig, what string, replay any) (known bool) {
	c.mu.Lock()
	defer c.mu.Unlock()
	if _, ok := c.known[sig]; ok {
		c.knownHits[sig]++
		return true
	}
	v, ok := c.violations[sig]
	if ok {
		v.Count++
		return false
	}
	v = &violation{Sig: sig, What: what, Count: 1}
	c.violations[sig] = v
	if c.ReplayMode {
		return false
	}
	h := sha1.Sum([]byte(sig))
	name := fmt.Sprintf("%s-%s.json", c.ID, hex.EncodeToString(h[:5]))
	dir := filepath.Join(VerifDir, "replays")
	os.MkdirAll(dir, 0o755)
	path := filepath.Join(dir, name)
	b, _ := json.MarshalIndent(map[string]any{"property": c.ID, "signature": sig, "what": what, "vector": replay, "tier": c.Tier, "seed": c.Seed}, "", " ")
	os.WriteFile(path, b, 0o644)
	v.Replay = path
	return false
}

func (c *Check) NumViolations() int {
	c.mu.Lock()
	defer c.mu.Unlock()
	return len(c.violations)
}

// AddTLC folds TLC statistics into the evidence.
func (c *Check) AddTLC(s TLCStats) {
	atomic.AddInt64(&c.States, s.Distinct)
	atomic.AddInt64(&c.Trans, s.Generated)
}

// Finish writes the evidence file, prints the verdict lines, and returns the exit code.
func (c *Check) Finish() int {
	c.mu.Lock()
	broken := append([]string(nil), c.broken...)
	var sigs []string
	for s := range c.violations {
		sigs = append(sigs, s)
	}
	sort.Strings(sigs)
	var ksigs []string
	for s := range c.knownHits {
		ksigs = append(ksigs, s)
	}
	sort.Strings(ksigs)
	counters := map[string]int64{}
	for k, p := range c.counters {
		counters[k] = atomic.LoadInt64(p)
	}
	samples := c.samples
	c.mu.Unlock()

	for _, s := range ksigs {
		f := c.known[s]
		fmt.Printf("KNOWN-FINDING: property=%s %s (%s; %d occurrences)\n", c.ID, f.What, s, c.knownHits[s])
	}
	for _, s := range sigs {
		v := c.violations[s]
		fmt.Printf("VIOLATION property=%s replay=%s\n", c.ID, v.Replay)
		fmt.Printf("  signature=%s occurrences=%d\n  %s\n", v.Sig, v.Count, v.What)
	}
	for _, b := range broken {
		fmt.Printf("BROKEN property=%s %s\n", c.ID, b)
	}
	traces := counters["vectors_replayed"] + counters["traces_validated"]
	cov := map[string]any{
		"states":                        c.States,
		"transitions":                   c.Trans,
		"traces_validated_against_impl": traces,
		"samples":                       samples,
		"evaluations":                   counters["evaluations"],
		"distinct_nontrivial":           c.distinctCount(),
		"rule":                          c.Rule,
		"exhaustive":                    c.Exhaustive && len(broken) == 0,
		"counters":                      counters,
	}
	if len(samples) == 0 {
		cov["samples"] = []any{"(no vectors were produced)"}
	}
	for k, v := range c.Extra {
		cov[k] = v
	}
	kf := []string{}
	for _, s := range ksigs {
		kf = append(kf, s)
	}
	ev := map[string]any{
		"property_id":    c.ID,
		"tier":           c.Tier,
		"seed":           c.Seed,
		"level":          "model_checking",
		"coverage":       cov,
		"assumptions":    c.Assumes,
		"wall_s":         time.Since(c.Start).Seconds(),
		"violations":     len(sigs),
		"known_findings": kf,
		"broken":         broken,
	}
	b, _ := json.MarshalIndent(ev, "", " ")
	os.MkdirAll(filepath.Join(VerifDir, "evidence"), 0o755)
	if err := os.WriteFile(filepath.Join(VerifDir, "evidence", c.ID+".json"), b, 0o644); err != nil {
		fmt.Printf("BROKEN property=%s cannot write evidence: %v\n", c.ID, err)
		return ExitBroken
	}
	switch {
	case len(sigs) > 0:
		return ExitViolation
	case len(broken) > 0:
		return ExitBroken
	}
	fmt.Printf("OK property=%s tier=%s states=%d vectors=%d nontrivial=%d wall=%.1fs\n", c.ID, c.Tier, c.States, traces, c.distinctCount(), time.Since(c.Start).Seconds())
	return ExitOK
}

// Guard runs f, converting a panic into (recovered value, true).
func Guard(f func()) (rec any, panicked bool) {
	defer func() {
		if r := recover(); r != nil {
			rec = r
			panicked = true
		}
	}()
	f()
	return nil, false
}

// FinishReplay prints the outcome of a --replay run without touching evidence.
func (c *Check) FinishReplay() int {
	c.mu.Lock()
	defer c.mu.Unlock()
	for _, b := range c.broken {
		fmt.Printf("BROKEN property=%s %s\n", c.ID, b)
	}
	for s, n := range c.knownHits {
		fmt.Printf("KNOWN-FINDING: property=%s %s (%s; %d)\n", c.ID, c.known[s].What, s, n)
	}
	for _, v := range c.violations {
		fmt.Printf("VIOLATION property=%s replay=(replayed)\n  signature=%s\n  %s\n", c.ID, v.Sig, v.What)
	}
	switch {
	case len(c.violations) > 0:
		return ExitViolation
	case len(c.broken) > 0:
		return ExitBroken
	}
	fmt.Printf("OK property=%s replay reproduced no violation\n", c.ID)
	return ExitOK
}
