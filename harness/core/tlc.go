package core

import (
	"bufio"
	"bytes"
	"context"
	"fmt"
	"io"
	"os"
	"os/exec"
	"path/filepath"
	"regexp"
	"runtime"
	"strconv"
	"strings"
	"sync"
	"syscall"
	"time"

	"verif/harness/tla"
)

// VerifDir is the root of the verification tree (specs, evidence, replays).
var VerifDir = func() string {
	if d := os.Getenv("VERIF_DIR"); d != "" {
		return d
	}
	return "/verif"
}()

const tlaJars = "/opt/veriftools/tla/tla2tools.jar:/opt/veriftools/tla/CommunityModules-deps.jar"

// TLCRun describes one TLC invocation whose state dump is streamed to a handler.
type TLCRun struct {
	Module     string            // MC module name (file Module.tla, config Module.cfg unless Cfg set)
	Cfg        string            // optional cfg file name
	Consts     map[string]string // optional: constants appended to a generated cfg (NAME = value)
	NoPred     bool              // MC_E1 only: NeedPred = FALSE and no invariants over pred
	ConstSubst map[string]string // optional: constant substitutions (NAME <- definition)
	Workers    int
	Timeout    time.Duration
	HeapGB     int
	Simulate   string            // non-empty => "-simulate <value>" e.g. "num=1000"
	Depth      int               // -depth for simulation
	Seed       int64             // -seed for simulation
	Extra      []string          // additional TLC args
	NoDump     bool              // don't dump states (trace validation runs)
	Files      map[string][]byte // extra files to write in the scratch dir (traces)
	KeepVars   []string          // if set, only these variables are parsed from each state
	Collect    string            // glob (relative to the scratch dir) of files to return in TLCStats.Files
	Parts      int               // >1: run this many TLC processes in parallel with constants NParts/Part (spec must support them)
}

type TLCStats struct {
	Generated int64
	Distinct  int64
	Depth     int
	Wall      time.Duration
	Output    string // tail of TLC stdout
	ErrorKind string // "", "invariant", "error", "timeout", "deadlock", "property"
	ErrorMsg  string
	Dumped    int64
	// Counterexample states (raw text) if TLC printed an error trace.
	ErrorTrace []string
	Files      map[string][]byte
}

// modules whose Init understands the NParts / Part constants
var partAware = map[string]bool{"MC_E1": true, "MC_Dec": true, "MC_C15": true, "MC_Gap": true, "MC_JsonEnc": true}

var reStats = regexp.MustCompile(`(\d+) states generated, (\d+) distinct states found`)
var reDepth = regexp.MustCompile(`depth of the complete state graph search is (\d+)`)

// State is one dumped TLC state: variable name -> parsed value, plus raw text.
type State struct {
	Vars map[string]any
	Raw  string
}

// ParseState parses the text of one state block ("/\ v = value" lines).
func ParseState(raw string, keep []string) (State, error) {
	st := State{Vars: map[string]any{}, Raw: raw}
	var cur string
	flush := func() error {
		if cur == "" {
			return nil
		}
		eq := strings.Index(cur, " = ")
		if eq < 0 {
			return fmt.Errorf("bad state line %q", cur)
		}
		name := strings.TrimSpace(strings.TrimPrefix(cur[:eq], "/\\"))
		if keep != nil {
			ok := false
			for _, k := range keep {
				if k == name {
					ok = true
				}
			}
			if !ok {
				cur = ""
				return nil
			}
		}
		v, err := tla.Parse(cur[eq+3:])
		if err != nil {
			return fmt.Errorf("var %s: %w", name, err)
		}
		st.Vars[name] = v
		cur = ""
		return nil
	}
	for _, line := range strings.Split(raw, "\n") {
		if strings.HasPrefix(line, "/\\ ") {
			if err := flush(); err != nil {
				return st, err
			}
			cur = line
		} else if strings.TrimSpace(line) != "" && cur != "" {
			cur += "\n" + line
		} else if strings.TrimSpace(line) != "" && cur == "" && strings.Contains(line, " = ") {
			// single-variable states are printed without the leading /\
			cur = "/\\ " + line
		}
	}
	if err := flush(); err != nil {
		return st, err
	}
	return st, nil
}

// Stream runs TLC and calls handle for every dumped state (concurrently from
// `par` goroutines). It returns TLC's statistics. A non-nil error means the
// run is unusable (exit 2 material), not a property violation.
func (r TLCRun) Stream(par int, handle func(State)) (TLCStats, error) {
	if r.Parts > 1 {
		return r.streamParts(par, handle)
	}
	return r.streamOne(par, handle)
}

// streamParts runs r.Parts TLC processes over disjoint parts of the state space and merges them.
func (r TLCRun) streamParts(par int, handle func(State)) (TLCStats, error) {
	k := r.Parts
	type res struct {
		st  TLCStats
		err error
	}
	out := make([]res, k)
	var wg sync.WaitGroup
	workers := (runtime.NumCPU() - 2) / k
	if workers < 2 {
		workers = 2
	}
	if par <= 0 {
		par = runtime.NumCPU()
	}
	start := time.Now()
	for i := 0; i < k; i++ {
		wg.Add(1)
		go func(i int) {
			defer wg.Done()
			ri := r
			ri.Parts = 0
			ri.Workers = workers
			ri.Consts = map[string]string{}
			for kk, v := range r.Consts {
				ri.Consts[kk] = v
			}
			ri.Consts["NParts"] = strconv.Itoa(k)
			ri.Consts["Part"] = strconv.Itoa(i)
			ri.HeapGB = 4
			out[i].st, out[i].err = ri.streamOne((par+k-1)/k, handle)
		}(i)
	}
	wg.Wait()
	var total TLCStats
	var firstErr error
	for _, o := range out {
		total.Generated += o.st.Generated
		total.Distinct += o.st.Distinct
		total.Dumped += o.st.Dumped
		if o.st.Depth > total.Depth {
			total.Depth = o.st.Depth
		}
		if o.st.ErrorKind != "" && total.ErrorKind == "" {
			total.ErrorKind, total.ErrorMsg = o.st.ErrorKind, o.st.ErrorMsg
		}
		total.Output += o.st.Output
		if o.err != nil && firstErr == nil {
			firstErr = o.err
		}
	}
	total.Wall = time.Since(start)
	return total, firstErr
}

func (r TLCRun) streamOne(par int, handle func(State)) (TLCStats, error) {
	var stats TLCStats
	start := time.Now()
	scratch, err := os.MkdirTemp("", "vtlc-")
	if err != nil {
		return stats, err
	}
	defer os.RemoveAll(scratch)
	specs, _ := filepath.Glob(filepath.Join(VerifDir, "spec", "*.tla"))
	cfgs, _ := filepath.Glob(filepath.Join(VerifDir, "spec", "*.cfg"))
	for _, f := range append(specs, cfgs...) {
		b, err := os.ReadFile(f)
		if err != nil {
			return stats, err
		}
		if err := os.WriteFile(filepath.Join(scratch, filepath.Base(f)), b, 0o644); err != nil {
			return stats, err
		}
	}
	for name, b := range r.Files {
		if err := os.WriteFile(filepath.Join(scratch, name), b, 0o644); err != nil {
			return stats, err
		}
	}
	cfg := r.Cfg
	if cfg == "" {
		cfg = r.Module + ".cfg"
	}
	if partAware[r.Module] {
		if r.Consts == nil {
			r.Consts = map[string]string{}
		}
		if _, ok := r.Consts["NParts"]; !ok {
			r.Consts["NParts"] = "1"
			r.Consts["Part"] = "0"
		}
		if r.Module == "MC_Dec" {
			if _, ok := r.Consts["ItemMode"]; !ok {
				r.Consts["ItemMode"] = "\"all\""
			}
		}
		if r.Module == "MC_E1" {
			// replayers that do not read the specification's denotation skip its computation
			// (and the model-level invariants over it, which the checks that do read it run)
			if r.NoPred {
				r.Consts["NeedPred"] = "FALSE"
				if r.Cfg == "" {
					cfg = "MC_E1_nopred.cfg"
				}
			} else {
				r.Consts["NeedPred"] = "TRUE"
			}
		}
	}
	if len(r.Consts) > 0 || len(r.ConstSubst) > 0 {
		b, err := os.ReadFile(filepath.Join(scratch, cfg))
		if err != nil {
			return stats, err
		}
		var sb strings.Builder
		sb.Write(b)
		sb.WriteString("\nCONSTANTS\n")
		for k, v := range r.Consts {
			fmt.Fprintf(&sb, "  %s = %s\n", k, v)
		}
		for k, v := range r.ConstSubst {
			fmt.Fprintf(&sb, "  %s <- %s\n", k, v)
		}
		cfg = "gen_" + cfg
		if err := os.WriteFile(filepath.Join(scratch, cfg), []byte(sb.String()), 0o644); err != nil {
			return stats, err
		}
	}
	workers := r.Workers
	if workers == 0 {
		workers = runtime.NumCPU() - 4
		if workers < 2 {
			workers = 2
		}
	}
	heap := r.HeapGB
	if heap == 0 {
		heap = 8
	}
	args := []string{"-XX:+UseParallelGC", fmt.Sprintf("-Xmx%dg", heap), "-Xss64m", "-cp", tlaJars, "tlc2.TLC",
		"-workers", strconv.Itoa(workers), "-metadir", filepath.Join(scratch, "meta"), "-nowarning",
		"-config", cfg}
	fifo := filepath.Join(scratch, "d.dump")
	if !r.NoDump {
		if err := syscall.Mkfifo(fifo, 0o600); err != nil {
			return stats, err
		}
		args = append(args, "-dump", filepath.Join(scratch, "d"))
	}
	if r.Simulate != "" {
		args = append(args, "-simulate", r.Simulate)
		if r.Depth > 0 {
			args = append(args, "-depth", strconv.Itoa(r.Depth))
		}
		args = append(args, "-seed", strconv.FormatInt(r.Seed, 10))
	}
	args = append(args, r.Extra...)
	args = append(args, r.Module+".tla")
	cmd := exec.Command("java", args...)
	cmd.Dir = scratch
	var outBuf bytes.Buffer
	cmd.Stdout = &outBuf
	cmd.Stderr = &outBuf
	cmd.SysProcAttr = &syscall.SysProcAttr{Setpgid: true}
	if err := cmd.Start(); err != nil {
		return stats, err
	}
	timeout := r.Timeout
	if timeout == 0 {
		timeout = 20 * time.Minute
	}
	timedOut := false
	timer := time.AfterFunc(timeout, func() {
		timedOut = true
		syscall.Kill(-cmd.Process.Pid, syscall.SIGKILL)
	})
	defer timer.Stop()

	var wg sync.WaitGroup
	var dumped int64
	var handlerErr error
	var heMu sync.Mutex
	readerDone := make(chan struct{})
	if !r.NoDump {
		blocks := make(chan string, 4096)
		if par <= 0 {
			par = runtime.NumCPU()
		}
		for i := 0; i < par; i++ {
			wg.Add(1)
			go func() {
				defer wg.Done()
				for b := range blocks {
					st, err := ParseState(b, r.KeepVars)
					if err != nil {
						heMu.Lock()
						if handlerErr == nil {
							handlerErr = err
						}
						heMu.Unlock()
						continue
					}
					handle(st)
				}
			}()
		}
		go func() {
			defer close(readerDone)
			defer close(blocks)
			f, err := os.OpenFile(fifo, os.O_RDONLY, 0)
			if err != nil {
				return
			}
			defer f.Close()
			rd := bufio.NewReaderSize(f, 1<<20)
			var cur strings.Builder
			for {
				line, err := rd.ReadString('\n')
				if strings.HasPrefix(line, "State ") && strings.HasSuffix(strings.TrimSpace(line), ":") {
					if cur.Len() > 0 {
						blocks <- cur.String()
						dumped++
						cur.Reset()
					}
				} else if len(line) > 0 {
					cur.WriteString(line)
				}
				if err != nil {
					if err != io.EOF {
						// ignore
					}
					break
				}
			}
			if strings.TrimSpace(cur.String()) != "" {
				blocks <- cur.String()
				dumped++
			}
		}()
	} else {
		close(readerDone)
	}
	werr := cmd.Wait()
	if r.Collect != "" {
		stats.Files = map[string][]byte{}
		if fs, _ := filepath.Glob(filepath.Join(scratch, r.Collect)); len(fs) > 0 {
			for _, f := range fs {
				if b, err := os.ReadFile(f); err == nil {
					stats.Files[filepath.Base(f)] = b
				}
			}
		}
	}
	if !r.NoDump {
		// unblock the reader if TLC never opened the FIFO
		if w, err := os.OpenFile(fifo, os.O_WRONLY|syscall.O_NONBLOCK, 0); err == nil {
			w.Close()
		}
	}
	<-readerDone
	wg.Wait()
	stats.Wall = time.Since(start)
	stats.Dumped = dumped
	out := outBuf.String()
	if len(out) > 20000 {
		stats.Output = out[len(out)-20000:]
	} else {
		stats.Output = out
	}
	if m := reStats.FindAllStringSubmatch(out, -1); len(m) > 0 {
		last := m[len(m)-1]
		stats.Generated, _ = strconv.ParseInt(last[1], 10, 64)
		stats.Distinct, _ = strconv.ParseInt(last[2], 10, 64)
	}
	if m := reDepth.FindStringSubmatch(out); m != nil {
		stats.Depth, _ = strconv.Atoi(m[1])
	}
	switch {
	case timedOut:
		stats.ErrorKind = "timeout"
	case strings.Contains(out, "Invariant ") && strings.Contains(out, " is violated"):
		stats.ErrorKind = "invariant"
	case strings.Contains(out, "Action property") && strings.Contains(out, "is violated"):
		stats.ErrorKind = "property"
	case strings.Contains(out, "Deadlock reached"):
		stats.ErrorKind = "deadlock"
	case strings.Contains(out, "Error:") || (werr != nil && !strings.Contains(out, "Model checking completed") && r.Simulate == ""):
		stats.ErrorKind = "error"
	}
	if stats.ErrorKind != "" {
		idx := strings.Index(out, "Error:")
		if idx >= 0 {
			e := out[idx:]
			if len(e) > 3000 {
				e = e[:3000]
			}
			stats.ErrorMsg = e
		} else {
			stats.ErrorMsg = tail(out, 1500)
		}
	}
	if handlerErr != nil {
		return stats, fmt.Errorf("dump parse: %w", handlerErr)
	}
	if stats.ErrorKind == "timeout" {
		return stats, fmt.Errorf("TLC timed out after %v", timeout)
	}
	if stats.ErrorKind == "error" {
		return stats, fmt.Errorf("TLC failed: %s", stats.ErrorMsg)
	}
	return stats, nil
}

func tail(s string, n int) string {
	if len(s) > n {
		return s[len(s)-n:]
	}
	return s
}

// Sany runs the syntax/semantic checker on a module in the spec dir.
func Sany(module string) error {
	cmd := exec.Command("java", "-cp", tlaJars, "tla2sany.SANY", module+".tla")
	cmd.Dir = filepath.Join(VerifDir, "spec")
	out, err := cmd.CombinedOutput()
	if err != nil || bytes.Contains(out, []byte("*** Errors")) || bytes.Contains(out, []byte("Fatal errors")) {
		return fmt.Errorf("sany %s: %v\n%s", module, err, tail(string(out), 2000))
	}
	return nil
}

// RunTLAPM checks the proofs of spec/proofs/<module>.tla with the TLA+ proof system (tlapm) in a
// scratch directory. It returns the number of proved obligations; an error means a proof
// obligation failed, tlapm is missing, or the time limit was hit.
func RunTLAPM(module string, timeout time.Duration) (int, string, error) {
	specDir := filepath.Join(VerifDir, "spec")
	scratch, err := os.MkdirTemp("", "tlapm-"+module+"-")
	if err != nil {
		return 0, "", err
	}
	defer os.RemoveAll(scratch)
	files, _ := filepath.Glob(filepath.Join(specDir, "*.tla"))
	files = append(files, filepath.Join(specDir, "proofs", module+".tla"))
	for _, f := range files {
		b, err := os.ReadFile(f)
		if err != nil {
			return 0, "", err
		}
		if err := os.WriteFile(filepath.Join(scratch, filepath.Base(f)), b, 0o644); err != nil {
			return 0, "", err
		}
	}
	ctx, cancel := context.WithTimeout(context.Background(), timeout)
	defer cancel()
	cmd := exec.CommandContext(ctx, "tlapm", "--threads", "8", module+".tla")
	cmd.Dir = scratch
	out, err := cmd.CombinedOutput()
	text := string(out)
	m := regexp.MustCompile(`All (\d+) obligations? proved`).FindStringSubmatch(text)
	if m == nil {
		if err == nil {
			err = fmt.Errorf("tlapm did not prove every obligation")
		}
		if len(text) > 800 {
			text = text[len(text)-800:]
		}
		return 0, text, err
	}
	n, _ := strconv.Atoi(m[1])
	return n, "", nil
}

// StreamSim runs TLC in simulation mode (`-simulate file=...`) and hands the states of the
// generated behaviours to handle: trace files are consumed (and deleted) while TLC is still
// running, so a long simulation needs no disk. Only states in which one of the variables named
// in `changed` differs from the previous state of the same behaviour are delivered (stuttering
// with respect to the vector is skipped); the initial state of every behaviour is delivered
// when deliverInit is set. NumPerWorker behaviours of at most Depth states are generated by each
// of Workers simulation workers.
func (r TLCRun) StreamSim(par int, numPerWorker int, changed []string, deliverInit bool, handle func(State)) (TLCStats, error) {
	var stats TLCStats
	start := time.Now()
	scratch, err := os.MkdirTemp("", "vsim-")
	if err != nil {
		return stats, err
	}
	defer os.RemoveAll(scratch)
	specs, _ := filepath.Glob(filepath.Join(VerifDir, "spec", "*.tla"))
	cfgs, _ := filepath.Glob(filepath.Join(VerifDir, "spec", "*.cfg"))
	for _, f := range append(specs, cfgs...) {
		b, err := os.ReadFile(f)
		if err != nil {
			return stats, err
		}
		if err := os.WriteFile(filepath.Join(scratch, filepath.Base(f)), b, 0o644); err != nil {
			return stats, err
		}
	}
	cfg := r.Cfg
	if cfg == "" {
		cfg = r.Module + ".cfg"
	}
	if len(r.Consts) > 0 {
		b, err := os.ReadFile(filepath.Join(scratch, cfg))
		if err != nil {
			return stats, err
		}
		var sb strings.Builder
		sb.Write(b)
		sb.WriteString("\nCONSTANTS\n")
		for k, v := range r.Consts {
			fmt.Fprintf(&sb, "  %s = %s\n", k, v)
		}
		cfg = "gen_" + cfg
		if err := os.WriteFile(filepath.Join(scratch, cfg), []byte(sb.String()), 0o644); err != nil {
			return stats, err
		}
	}
	workers := r.Workers
	if workers == 0 {
		workers = runtime.NumCPU() - 4
		if workers < 2 {
			workers = 2
		}
	}
	heap := r.HeapGB
	if heap == 0 {
		heap = 8
	}
	traceDir := filepath.Join(scratch, "tr")
	if err := os.Mkdir(traceDir, 0o755); err != nil {
		return stats, err
	}
	args := []string{"-XX:+UseParallelGC", fmt.Sprintf("-Xmx%dg", heap), "-Xss64m", "-cp", tlaJars, "tlc2.TLC",
		"-workers", strconv.Itoa(workers), "-metadir", filepath.Join(scratch, "meta"), "-nowarning",
		"-config", cfg, "-simulate", fmt.Sprintf("file=%s,num=%d", filepath.Join(traceDir, "s"), numPerWorker),
		"-depth", strconv.Itoa(r.Depth), "-seed", strconv.FormatInt(r.Seed, 10)}
	args = append(args, r.Extra...)
	args = append(args, r.Module+".tla")
	cmd := exec.Command("java", args...)
	cmd.Dir = scratch
	var outBuf bytes.Buffer
	cmd.Stdout = &outBuf
	cmd.Stderr = &outBuf
	cmd.SysProcAttr = &syscall.SysProcAttr{Setpgid: true}
	if err := cmd.Start(); err != nil {
		return stats, err
	}
	timeout := r.Timeout
	if timeout == 0 {
		timeout = 20 * time.Minute
	}
	timedOut := false
	timer := time.AfterFunc(timeout, func() {
		timedOut = true
		syscall.Kill(-cmd.Process.Pid, syscall.SIGKILL)
	})
	defer timer.Stop()

	if par <= 0 {
		par = runtime.NumCPU()
	}
	files := make(chan string, 256)
	var wg sync.WaitGroup
	var dumped, traces int64
	var cntMu sync.Mutex
	var handlerErr error
	for i := 0; i < par; i++ {
		wg.Add(1)
		go func() {
			defer wg.Done()
			for f := range files {
				b, err := os.ReadFile(f)
				os.Remove(f)
				if err != nil {
					continue
				}
				blocks := splitSimTrace(string(b))
				var prev State
				n := int64(0)
				for i, blk := range blocks {
					st, err := ParseState(blk, r.KeepVars)
					if err != nil {
						cntMu.Lock()
						if handlerErr == nil {
							handlerErr = err
						}
						cntMu.Unlock()
						break
					}
					deliver := i > 0 || deliverInit
					if i > 0 && len(changed) > 0 {
						deliver = false
						for _, v := range changed {
							if rawVar(prev.Raw, v) != rawVar(st.Raw, v) {
								deliver = true
							}
						}
					}
					prev = st
					if deliver {
						n++
						handle(st)
					}
				}
				cntMu.Lock()
				dumped += n
				traces++
				cntMu.Unlock()
			}
		}()
	}
	// the poller: a trace file of a worker is complete once that worker has started a later one
	done := make(chan struct{})
	pollDone := make(chan struct{})
	go func() {
		defer close(pollDone)
		sent := map[string]bool{}
		scan := func(final bool) {
			ents, _ := os.ReadDir(traceDir)
			maxOf := map[string]int{}
			type tf struct {
				name, w string
				n       int
			}
			var all []tf
			for _, e := range ents {
				parts := strings.Split(e.Name(), "_")
				if len(parts) != 3 {
					continue
				}
				n, err := strconv.Atoi(parts[2])
				if err != nil {
					continue
				}
				all = append(all, tf{e.Name(), parts[1], n})
				if m, ok := maxOf[parts[1]]; !ok || n > m {
					maxOf[parts[1]] = n
				}
			}
			for _, t := range all {
				if sent[t.name] {
					continue
				}
				if final || t.n < maxOf[t.w] {
					sent[t.name] = true
					files <- filepath.Join(traceDir, t.name)
				}
			}
		}
		for {
			select {
			case <-done:
				scan(true)
				return
			case <-time.After(200 * time.Millisecond):
				scan(false)
			}
		}
	}()
	werr := cmd.Wait()
	close(done)
	<-pollDone
	close(files)
	wg.Wait()
	stats.Wall = time.Since(start)
	stats.Dumped = dumped
	out := outBuf.String()
	if len(out) > 20000 {
		stats.Output = out[len(out)-20000:]
	} else {
		stats.Output = out
	}
	if m := regexp.MustCompile(`The number of states generated: (\d+)`).FindStringSubmatch(out); m != nil {
		stats.Generated, _ = strconv.ParseInt(m[1], 10, 64)
	}
	stats.Distinct = traces // number of behaviours
	switch {
	case timedOut:
		stats.ErrorKind = "timeout"
	case strings.Contains(out, "Invariant ") && strings.Contains(out, " is violated"):
		stats.ErrorKind = "invariant"
	case strings.Contains(out, "Action property") && strings.Contains(out, "is violated"):
		stats.ErrorKind = "property"
	case strings.Contains(out, "Error:") || (werr != nil && !strings.Contains(out, "The number of states generated")):
		stats.ErrorKind = "error"
	}
	if stats.ErrorKind != "" {
		if idx := strings.Index(out, "Error:"); idx >= 0 {
			e := out[idx:]
			if len(e) > 3000 {
				e = e[:3000]
			}
			stats.ErrorMsg = e
		} else {
			stats.ErrorMsg = tail(out, 1500)
		}
	}
	if handlerErr != nil {
		return stats, fmt.Errorf("simulation trace parse: %w", handlerErr)
	}
	if stats.ErrorKind == "timeout" {
		return stats, fmt.Errorf("TLC simulation timed out after %v", timeout)
	}
	if stats.ErrorKind == "error" {
		return stats, fmt.Errorf("TLC simulation failed: %s", stats.ErrorMsg)
	}
	return stats, nil
}

var reSimState = regexp.MustCompile(`(?m)^STATE_\d+ ==\s*$`)

// splitSimTrace splits a behaviour file written by `-simulate file=` into its state blocks.
func splitSimTrace(s string) []string {
	idx := reSimState.FindAllStringIndex(s, -1)
	var out []string
	for i, m := range idx {
		end := len(s)
		if i+1 < len(idx) {
			end = idx[i+1][0]
		}
		blk := s[m[1]:end]
		// drop the trailing action-location comment of the next state and the module footer
		var keep []string
		for _, ln := range strings.Split(blk, "\n") {
			if strings.HasPrefix(ln, "\\*") || strings.HasPrefix(ln, "====") {
				continue
			}
			keep = append(keep, ln)
		}
		out = append(out, strings.Join(keep, "\n"))
	}
	return out
}

// rawVar returns the raw text of one variable's conjunct in a state block.
func rawVar(raw, name string) string {
	pfx := "/\\ " + name + " = "
	i := strings.Index(raw, pfx)
	if i < 0 {
		return ""
	}
	rest := raw[i+len(pfx):]
	if j := strings.Index(rest, "\n/\\ "); j >= 0 {
		rest = rest[:j]
	}
	return rest
}
