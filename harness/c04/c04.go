// Package c04: schema-driven body processing accounts for every item exactly once.
package c04

import (
	"fmt"
	"regexp"
	"sort"
	"strings"

	"github.com/hashicorp/hcl/v2"
	"github.com/hashicorp/hcl/v2/ext/dynblock"
	"github.com/hashicorp/hcl/v2/hclsyntax"
	hcljson "github.com/hashicorp/hcl/v2/json"

	"verif/harness/core"
	"verif/harness/tla"
)

type Item struct {
	K    string
	Name string
	NL   int
	ID   int
}

type AttrS struct {
	Name string
	Req  bool
}
type BlockS struct {
	Type string
	NL   int
}
type Part struct {
	Attrs  []AttrS
	Blocks []BlockS
}

// Step is a model (or observed) step result.
type Step struct {
	Attrs  []string
	Blocks []int
	Errs   []string // "kind:name" sorted; extra-attr/extra-block folded to "extra"
	HA, HB []string
}

type Vector struct {
	Items []Item
	Parts []Part
	Steps []Step
	Union Step
}

var labelPool = []string{"x", "y"}

func decodeStep(v any) Step {
	m := tla.Rec(v)
	var s Step
	s.Attrs = tla.Strs(m["attrs"])
	sort.Strings(s.Attrs)
	for _, b := range tla.Seq(m["blocks"]) {
		s.Blocks = append(s.Blocks, tla.Int(b))
	}
	sort.Ints(s.Blocks)
	for _, e := range tla.Seq(m["errs"]) {
		t := tla.Seq(e)
		kind := tla.Str(t[0])
		if strings.HasPrefix(kind, "extra-") {
			kind = "extra"
		}
		e := kind + ":" + tla.Str(t[1])
		if kind == "labels" {
			e = "labels"
		}
		dup := false
		for _, x := range s.Errs {
			dup = dup || x == e
		}
		if !dup {
			s.Errs = append(s.Errs, e)
		}
	}
	sort.Strings(s.Errs)
	s.HA = tla.Strs(m["hA"])
	s.HB = tla.Strs(m["hB"])
	return s
}

func Decode(st core.State) (v Vector, ok bool, err error) {
	defer func() {
		if r := recover(); r != nil {
			err = fmt.Errorf("decode: %v", r)
		}
	}()
	if tla.Str(st.Vars["phase"]) != "done" {
		return v, false, nil
	}
	for _, it := range tla.Seq(st.Vars["items"]) {
		m := tla.Rec(it)
		v.Items = append(v.Items, Item{K: tla.Str(m["k"]), Name: tla.Str(m["name"]), NL: tla.Int(m["nl"]), ID: tla.Int(m["id"])})
	}
	for _, p := range tla.Seq(st.Vars["parts"]) {
		m := tla.Rec(p)
		var part Part
		for _, a := range tla.Seq(m["attrs"]) {
			am := tla.Rec(a)
			part.Attrs = append(part.Attrs, AttrS{Name: tla.Str(am["name"]), Req: tla.Bool(am["req"])})
		}
		for _, b := range tla.Seq(m["blocks"]) {
			bm := tla.Rec(b)
			part.Blocks = append(part.Blocks, BlockS{Type: tla.Str(bm["type"]), NL: tla.Int(bm["nl"])})
		}
		sort.Slice(part.Attrs, func(i, j int) bool { return part.Attrs[i].Name < part.Attrs[j].Name })
		sort.Slice(part.Blocks, func(i, j int) bool { return part.Blocks[i].Type < part.Blocks[j].Type })
		v.Parts = append(v.Parts, part)
	}
	pm := tla.Rec(st.Vars["pred"])
	for _, s := range tla.Seq(pm["steps"]) {
		v.Steps = append(v.Steps, decodeStep(s))
	}
	v.Union = decodeStep(pm["union"])
	return v, true, nil
}

func (p Part) Schema() *hcl.BodySchema {
	s := &hcl.BodySchema{}
	for _, a := range p.Attrs {
		s.Attributes = append(s.Attributes, hcl.AttributeSchema{Name: a.Name, Required: a.Req})
	}
	for _, b := range p.Blocks {
		s.Blocks = append(s.Blocks, hcl.BlockHeaderSchema{Type: b.Type, LabelNames: []string{"l1", "l2"}[:b.NL]})
	}
	return s
}

func unionPart(ps []Part) Part {
	var u Part
	for _, p := range ps {
		u.Attrs = append(u.Attrs, p.Attrs...)
		u.Blocks = append(u.Blocks, p.Blocks...)
	}
	return u
}

// ---- building the four implementations from the same abstract items ----

func nativeText(items []Item, dynamicEven bool) string {
	var sb strings.Builder
	for _, it := range items {
		if it.K == "attr" {
			fmt.Fprintf(&sb, "%s = %d\n", it.Name, it.ID)
			continue
		}
		if dynamicEven && it.ID%2 == 0 {
			fmt.Fprintf(&sb, "dynamic %q {\n  for_each = [1]\n", it.Name)
			if it.NL > 0 {
				ls := make([]string, it.NL)
				for i := range ls {
					ls[i] = fmt.Sprintf("%q", labelPool[i])
				}
				fmt.Fprintf(&sb, "  labels = [%s]\n", strings.Join(ls, ", "))
			}
			fmt.Fprintf(&sb, "  content {\n    id = %d\n  }\n}\n", it.ID)
			continue
		}
		sb.WriteString(it.Name)
		for i := 0; i < it.NL; i++ {
			fmt.Fprintf(&sb, " %q", labelPool[i])
		}
		fmt.Fprintf(&sb, " {\n  id = %d\n}\n", it.ID)
	}
	return sb.String()
}

func jsonText(items []Item) string {
	var parts []string
	for _, it := range items {
		if it.K == "attr" {
			parts = append(parts, fmt.Sprintf("%q: %d", it.Name, it.ID))
			continue
		}
		body := fmt.Sprintf(`{"id": %d}`, it.ID)
		for i := it.NL - 1; i >= 0; i-- {
			body = fmt.Sprintf(`{%q: %s}`, labelPool[i], body)
		}
		parts = append(parts, fmt.Sprintf("%q: %s", it.Name, body))
	}
	return "{" + strings.Join(parts, ", ") + "}"
}

// jsonEligible: the JSON syntax decides the label structure from the schema, so a
// label-count mismatch has no JSON rendering that denotes the same items.
func jsonEligible(v Vector, items []Item) bool {
	nl := map[string]int{}
	for _, it := range items {
		if it.K != "block" {
			continue
		}
		if prev, ok := nl[it.Name]; ok && prev != it.NL {
			return false
		}
		nl[it.Name] = it.NL
	}
	for _, p := range v.Parts {
		for _, b := range p.Blocks {
			if n, ok := nl[b.Type]; ok && n != b.NL {
				return false
			}
		}
	}
	// JSON has one namespace for property names: whether a property is an argument or a block is
	// decided by the schema, so a name used both ways (in the body or in the schema) has no JSON
	// rendering that denotes the same items
	attrNames, blockNames := map[string]bool{}, map[string]bool{}
	for _, it := range items {
		if it.K == "block" {
			blockNames[it.Name] = true
		} else {
			attrNames[it.Name] = true
		}
	}
	for _, p := range v.Parts {
		for _, a := range p.Attrs {
			attrNames[a.Name] = true
		}
		for _, b := range p.Blocks {
			blockNames[b.Type] = true
		}
	}
	for n := range attrNames {
		if blockNames[n] {
			return false
		}
	}
	return true
}

type impl struct {
	name string
	body hcl.Body
}

func build(v Vector) ([]impl, error) {
	var out []impl
	nf, d := hclsyntax.ParseConfig([]byte(nativeText(v.Items, false)), "n.hcl", hcl.InitialPos)
	if d.HasErrors() {
		return nil, fmt.Errorf("native rendering does not parse: %s", d.Error())
	}
	out = append(out, impl{"native", nf.Body})
	je := jsonEligible(v, v.Items)
	if je {
		jf, d := hcljson.Parse([]byte(jsonText(v.Items)), "j.json")
		if d.HasErrors() {
			return nil, fmt.Errorf("json rendering does not parse: %s", d.Error())
		}
		out = append(out, impl{"json", jf.Body})
	}
	if len(v.Items) >= 2 {
		h := len(v.Items) / 2
		f1, d1 := hclsyntax.ParseConfig([]byte(nativeText(v.Items[:h], false)), "m1.hcl", hcl.InitialPos)
		var b2 hcl.Body
		if je {
			f2, d2 := hcljson.Parse([]byte(jsonText(v.Items[h:])), "m2.json")
			if d2.HasErrors() {
				return nil, fmt.Errorf("json half does not parse: %s", d2.Error())
			}
			b2 = f2.Body
		} else {
			f2, d2 := hclsyntax.ParseConfig([]byte(nativeText(v.Items[h:], false)), "m2.hcl", hcl.InitialPos)
			if d2.HasErrors() {
				return nil, fmt.Errorf("native half does not parse: %s", d2.Error())
			}
			b2 = f2.Body
		}
		if d1.HasErrors() {
			return nil, fmt.Errorf("native half does not parse: %s", d1.Error())
		}
		out = append(out, impl{"merged", hcl.MergeBodies([]hcl.Body{f1.Body, b2})})
	}
	if len(v.Items) >= 3 {
		// a merge whose FIRST member is itself a merge of two bodies, followed by a third body
		var parts []hcl.Body
		for i := 0; i < 3; i++ {
			lo, hi := i, i+1
			if i == 2 {
				hi = len(v.Items)
			}
			f, d := hclsyntax.ParseConfig([]byte(nativeText(v.Items[lo:hi], false)), fmt.Sprintf("n%d.hcl", i), hcl.InitialPos)
			if d.HasErrors() {
				return nil, fmt.Errorf("native third does not parse: %s", d.Error())
			}
			parts = append(parts, f.Body)
		}
		out = append(out, impl{"merged-nested", hcl.MergeBodies([]hcl.Body{hcl.MergeBodies(parts[:2]), parts[2]})})
	}
	df, dd := hclsyntax.ParseConfig([]byte(nativeText(v.Items, true)), "d.hcl", hcl.InitialPos)
	if dd.HasErrors() {
		return nil, fmt.Errorf("dynamic rendering does not parse: %s", dd.Error())
	}
	out = append(out, impl{"dynblock", dynblock.Expand(df.Body, &hcl.EvalContext{})})
	// the same items as the CONTENT of a block generated by a dynamic block, and as the body of a
	// static block nested in such a content: these bodies are processed under an active iteration
	indent := func(s string) string { return "    " + strings.ReplaceAll(strings.TrimRight(s, "\n"), "\n", "\n    ") + "\n" }
	inner := nativeText(v.Items, false)
	for _, k := range []struct{ name, src string }{
		{"dynblock-content", "dynamic \"w\" {\n  for_each = [\"e\"]\n  iterator = it\n  content {\n" + indent(inner) + "  }\n}\n"},
		{"dynblock-static-in-content", "dynamic \"w\" {\n  for_each = [\"e\"]\n  content {\n    z {\n" + indent(indent(inner)) + "    }\n  }\n}\n"},
	} {
		f, d := hclsyntax.ParseConfig([]byte(k.src), "dc.hcl", hcl.InitialPos)
		if d.HasErrors() {
			return nil, fmt.Errorf("%s rendering does not parse: %s", k.name, d.Error())
		}
		body := dynblock.Expand(f.Body, &hcl.EvalContext{})
		for _, typ := range []string{"w", "z"} {
			content, cd := body.Content(&hcl.BodySchema{Blocks: []hcl.BlockHeaderSchema{{Type: typ}}})
			if cd.HasErrors() || len(content.Blocks) != 1 {
				return nil, fmt.Errorf("%s: wrapper block %s not found: %v", k.name, typ, cd)
			}
			body = content.Blocks[0].Body
			if k.name == "dynblock-content" {
				break
			}
		}
		out = append(out, impl{k.name, body})
	}
	return out, nil
}

// ---- observing real results ----

var reQuoted = regexp.MustCompile(`"([^"]*)"`)

func classify(d *hcl.Diagnostic) string {
	name := ""
	if m := reQuoted.FindStringSubmatch(d.Detail); m != nil {
		name = m[1]
	}
	s := d.Summary
	switch {
	case s == "Unsupported argument" && name != "labels", s == "Unsupported block type", s == "Extraneous JSON object property":
		return "extra:" + name
	case s == "Missing required argument" && name == "labels", s == "Unsupported argument" && name == "labels":
		// a dynamic block states its labels in a "labels" argument
		return "labels"
	case s == "Missing required argument":
		return "missing:" + name
	case strings.HasPrefix(s, "Extraneous label for "), strings.HasPrefix(s, "Missing ") && strings.Contains(s, " for "),
		s == "Extraneous dynamic block label", s == "Insufficient dynamic block labels":
		return "labels"
	}
	return "other:" + s
}

func blockID(b *hcl.Block) (int, string) {
	attrs, _ := b.Body.JustAttributes()
	a, ok := attrs["id"]
	if !ok {
		return -1, "block body lacks its id attribute"
	}
	v, d := a.Expr.Value(nil)
	if d.HasErrors() || v.IsNull() || !v.IsKnown() {
		return -1, "id attribute does not evaluate"
	}
	f, _ := v.AsBigFloat().Int64()
	return int(f), ""
}

// observe converts real content+diags into a Step; problems holds structural anomalies
// (duplicate returns, wrong labels, order violations).
func observe(items []Item, content *hcl.BodyContent, diags hcl.Diagnostics) (Step, string) {
	var s Step
	byID := map[int]Item{}
	for _, it := range items {
		byID[it.ID] = it
	}
	for name, a := range content.Attributes {
		s.Attrs = append(s.Attrs, name)
		v, d := a.Expr.Value(nil)
		if d.HasErrors() {
			return s, fmt.Sprintf("attribute %q does not evaluate", name)
		}
		f, _ := v.AsBigFloat().Int64()
		if it, ok := byID[int(f)]; !ok || it.K != "attr" || it.Name != name || a.Name != name {
			return s, fmt.Sprintf("attribute %q carries value %d, which is not its own item", name, f)
		}
	}
	sort.Strings(s.Attrs)
	lastPerType := map[string]int{}
	seen := map[int]bool{}
	for _, b := range content.Blocks {
		id, why := blockID(b)
		if why != "" {
			return s, why
		}
		it, ok := byID[id]
		if !ok || it.K != "block" {
			return s, fmt.Sprintf("block id %d is not an item", id)
		}
		if it.Name != b.Type {
			return s, fmt.Sprintf("block %d returned with type %q, written %q", id, b.Type, it.Name)
		}
		if len(b.Labels) != it.NL || !equalStrs(b.Labels, labelPool[:it.NL]) {
			return s, fmt.Sprintf("block %d returned with labels %q, written %q", id, b.Labels, labelPool[:it.NL])
		}
		if seen[id] {
			return s, fmt.Sprintf("block %d returned twice", id)
		}
		seen[id] = true
		if last, ok := lastPerType[b.Type]; ok && last > id {
			return s, fmt.Sprintf("blocks of type %q returned out of source order (%d before %d)", b.Type, last, id)
		}
		lastPerType[b.Type] = id
		s.Blocks = append(s.Blocks, id)
	}
	sort.Ints(s.Blocks)
	set := map[string]bool{}
	for _, d := range diags {
		if d.Severity == hcl.DiagError {
			k := classify(d)
			if strings.HasPrefix(k, "other:") {
				// not a verdict: the replayer's table of diagnostic kinds no longer matches the library
				return s, "ORACLE-DRIFT: unrecognised diagnostic " + k
			}
			set[k] = true
		}
	}
	for k := range set {
		s.Errs = append(s.Errs, k)
	}
	sort.Strings(s.Errs)
	return s, ""
}

func equalStrs(a, b []string) bool {
	if len(a) != len(b) {
		return false
	}
	for i := range a {
		if a[i] != b[i] {
			return false
		}
	}
	return true
}

func (s Step) key() string {
	return fmt.Sprintf("attrs=%v blocks=%v errs=%v", s.Attrs, s.Blocks, s.Errs)
}

func unionSteps(ss []Step) Step {
	var u Step
	am, bm, em := map[string]bool{}, map[int]bool{}, map[string]bool{}
	for _, s := range ss {
		for _, a := range s.Attrs {
			am[a] = true
		}
		for _, b := range s.Blocks {
			bm[b] = true
		}
		for _, e := range s.Errs {
			em[e] = true
		}
	}
	for a := range am {
		u.Attrs = append(u.Attrs, a)
	}
	for b := range bm {
		u.Blocks = append(u.Blocks, b)
	}
	for e := range em {
		u.Errs = append(u.Errs, e)
	}
	sort.Strings(u.Attrs)
	sort.Ints(u.Blocks)
	sort.Strings(u.Errs)
	return u
}

func describe(v Vector) string {
	var ps []string
	for _, p := range v.Parts {
		var xs []string
		for _, a := range p.Attrs {
			r := ""
			if a.Req {
				r = "!"
			}
			xs = append(xs, a.Name+r)
		}
		for _, b := range p.Blocks {
			xs = append(xs, fmt.Sprintf("%s/%d", b.Type, b.NL))
		}
		ps = append(ps, "{"+strings.Join(xs, " ")+"}")
	}
	return fmt.Sprintf("body [%s] schema split %s", strings.ReplaceAll(strings.TrimSpace(nativeText(v.Items, false)), "\n", "; "), strings.Join(ps, " then "))
}

func Handle(c *core.Check, st core.State) {
	v, ok, err := Decode(st)
	if err != nil {
		c.Broken("%v", err)
		return
	}
	if !ok {
		return // intermediate generator state
	}
	c.Count("vectors_replayed", 1)
	impls, err := build(v)
	if err != nil {
		c.Broken("%v", err)
		return
	}
	vec := map[string]any{"state": st.Raw, "case": describe(v)}
	for _, im := range impls {
		c.Count("evaluations", 1)
		bad := func(kind, what string) {
			c.Violation(kind+"/"+im.name, fmt.Sprintf("%s body, %s: %s", im.name, describe(v), what), vec)
		}
		var steps []Step
		var oneStep Step
		var remainProbe Step
		anomaly := ""
		rec, panicked := core.Guard(func() {
			body := im.body
			// the chain: all parts but the last partially, the last exhaustively
			probe := unionPart(v.Parts).Schema()
			for i, p := range v.Parts {
				var content *hcl.BodyContent
				var diags hcl.Diagnostics
				// applying a schema must not change the body it is applied to: every body of the chain
				// is first probed with the union schema (result discarded) and must still answer as specified
				_, _, _ = body.PartialContent(probe)
				if i < len(v.Parts)-1 {
					var remain hcl.Body
					content, remain, diags = body.PartialContent(p.Schema())
					// immutability: the old body must still answer as before
					body = remain
				} else {
					content, diags = body.Content(p.Schema())
				}
				s, why := observe(v.Items, content, diags)
				if why != "" && anomaly == "" {
					anomaly = fmt.Sprintf("step %d: %s", i+1, why)
				}
				steps = append(steps, s)
			}
			content, diags := im.body.Content(unionPart(v.Parts).Schema())
			var why string
			oneStep, why = observe(v.Items, content, diags)
			if why != "" && anomaly == "" {
				anomaly = "one-step: " + why
			}
			// remaining body after an all-partial chain, probed with a universal schema
			body = im.body
			for _, p := range v.Parts {
				_, body, _ = body.PartialContent(p.Schema())
			}
			uni := Part{}
			seenT := map[string]bool{}
			ambiguous := false
			for _, it := range v.Items {
				if it.K == "attr" {
					uni.Attrs = append(uni.Attrs, AttrS{Name: it.Name})
				} else if !seenT[it.Name] {
					seenT[it.Name] = true
					uni.Blocks = append(uni.Blocks, BlockS{Type: it.Name, NL: it.NL})
				}
			}
			for _, it := range v.Items {
				for _, b := range uni.Blocks {
					if it.K == "block" && it.Name == b.Type && it.NL != b.NL {
						ambiguous = true
					}
				}
			}
			if !ambiguous {
				content, _, diags := body.PartialContent(uni.Schema())
				remainProbe, why = observe(v.Items, content, diags)
				if why != "" && anomaly == "" {
					anomaly = "remaining body: " + why
				}
			} else {
				remainProbe.Errs = []string{"skip"}
			}
		})
		if panicked {
			bad("panic", fmt.Sprint(rec))
			continue
		}
		if strings.Contains(anomaly, "ORACLE-DRIFT") {
			c.Broken("%s body, %s: %s (the diagnostic classification table of harness/c04 needs updating)", im.name, describe(v), anomaly)
			return
		}
		if anomaly != "" {
			bad("anomaly", anomaly)
			continue
		}
		// law: no item returned twice across steps
		seenA, seenB := map[string]bool{}, map[int]bool{}
		dup := ""
		for _, s := range steps {
			for _, a := range s.Attrs {
				if seenA[a] {
					dup = "attribute " + a
				}
				seenA[a] = true
			}
			for _, b := range s.Blocks {
				if seenB[b] {
					dup = fmt.Sprintf("block %d", b)
				}
				seenB[b] = true
			}
		}
		if dup != "" {
			bad("returned-twice", dup+" is returned by two steps of the chain")
			continue
		}
		// law: k-step == one-step with the union schema
		u := unionSteps(steps)
		if u.key() != oneStep.key() {
			bad("two-step-differs", fmt.Sprintf("chain gives %s, one exhaustive step with the union schema gives %s", u.key(), oneStep.key()))
			continue
		}
		// law: every item is returned or reported by the exhaustive processing
		acc := ""
		for _, it := range v.Items {
			found := false
			if it.K == "attr" {
				for _, a := range oneStep.Attrs {
					found = found || a == it.Name
				}
			} else {
				for _, b := range oneStep.Blocks {
					found = found || b == it.ID
				}
			}
			for _, e := range oneStep.Errs {
				found = found || e == "extra:"+it.Name || (e == "labels" && it.K == "block")
			}
			if !found {
				acc = fmt.Sprintf("item %d (%s %s) is neither returned nor reported", it.ID, it.K, it.Name)
			}
		}
		if acc != "" {
			bad("unaccounted", acc)
			continue
		}
		// conformance with the model, step by step (catches a uniform drift of all implementations)
		mism := ""
		for i := range steps {
			a, b := steps[i], v.Steps[i]
			if strings.HasPrefix(im.name, "dynblock") {
				// the expanded body re-reports label problems of already-processed block types at
				// every later step; diagnostics are therefore compared over the whole chain (below)
				a.Errs, b.Errs = nil, nil
			}
			if a.key() != b.key() {
				mism = fmt.Sprintf("step %d: implementation %s, specification %s", i+1, steps[i].key(), v.Steps[i].key())
				break
			}
		}
		if mism == "" && unionSteps(steps).key() != unionSteps(v.Steps).key() {
			mism = fmt.Sprintf("chain as a whole: implementation %s, specification %s", unionSteps(steps).key(), unionSteps(v.Steps).key())
		}
		if mism == "" && oneStep.key() != v.Union.key() {
			mism = fmt.Sprintf("one-step: implementation %s, specification %s", oneStep.key(), v.Union.key())
		}
		if mism != "" {
			bad("differs-from-spec", mism)
			continue
		}
		// law: partial processing leaves exactly the non-matching items in the remaining body
		if len(remainProbe.Errs) == 0 || remainProbe.Errs[0] != "skip" {
			last := v.Steps[len(v.Steps)-1]
			hA, hB := map[string]bool{}, map[string]bool{}
			for _, a := range last.HA {
				hA[a] = true
			}
			for _, b := range last.HB {
				hB[b] = true
			}
			var want Step
			for _, it := range v.Items {
				if it.K == "attr" && !hA[it.Name] {
					want.Attrs = append(want.Attrs, it.Name)
				}
				if it.K == "block" && !hB[it.Name] {
					want.Blocks = append(want.Blocks, it.ID)
				}
			}
			sort.Strings(want.Attrs)
			sort.Ints(want.Blocks)
			got := Step{Attrs: remainProbe.Attrs, Blocks: remainProbe.Blocks}
			if fmt.Sprint(got.Attrs, got.Blocks) != fmt.Sprint(want.Attrs, want.Blocks) {
				bad("remain-differs", fmt.Sprintf("after the partial chain the remaining body holds attrs=%v blocks=%v, expected the unmatched items attrs=%v blocks=%v", got.Attrs, got.Blocks, want.Attrs, want.Blocks))
				continue
			}
		}
	}
	if len(v.Items) > 0 {
		c.Nontrivial(describe(v))
		if len(v.Items) >= 3 {
			c.Sample(map[string]any{"case": describe(v), "implementations": len(impls)})
		}
	}
}
