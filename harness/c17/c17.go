// Package c17: a parsed configuration can be evaluated concurrently.
package c17

import (
	"bytes"
	"encoding/json"
	"fmt"
	"math/rand"
	"reflect"
	"regexp"
	"runtime"
	"sort"
	"strconv"
	"strings"
	"sync"
	"sync/atomic"
	"time"

	"github.com/hashicorp/hcl/v2"
	"github.com/hashicorp/hcl/v2/ext/dynblock"
	"github.com/hashicorp/hcl/v2/hcldec"
	"github.com/hashicorp/hcl/v2/hclsyntax"
	hcljson "github.com/hashicorp/hcl/v2/json"
	"github.com/zclconf/go-cty/cty"

	"verif/harness/core"
	"verif/harness/e1"
)

type Event struct {
	Ev  string `json:"ev"`
	G   int    `json:"g"`
	Sym string `json:"sym"`
	I   int    `json:"i"`
	J   int    `json:"j"`
	VG  int    `json:"vg"` // goroutine tag of the value; 0 absent; -1 unknown probe value
	C   int    `json:"c"`  // 0 own context, 1/2 child contexts of the type probe
}

// emptyKind tells which goroutines evaluate an empty list (kind "empty" of SplatConc).
// forced-schedule runs (3 goroutines): 2 and 3; free runs (4 goroutines): the even ones.
func emptyKind(g, nG int) bool {
	if nG == 3 {
		return g != 1
	}
	return g%2 == 0
}

// value tagging: goroutine g evaluates ll = [[100g+11], [100g+21]]
func scopeFor(g int, empty bool) map[string]cty.Value {
	if empty {
		return map[string]cty.Value{"ll": cty.ListValEmpty(cty.List(cty.Number))}
	}
	n := func(i, j int) cty.Value { return cty.NumberIntVal(int64(100*g + 10*i + j)) }
	return map[string]cty.Value{"ll": cty.ListVal([]cty.Value{cty.ListVal([]cty.Value{n(1, 1)}), cty.ListVal([]cty.Value{n(2, 1)})})}
}

func tagOf(v any) (g, i, j int, ok bool) {
	val, isVal := v.(cty.Value)
	if !isVal || v == nil {
		return 0, 0, 0, false
	}
	val, _ = val.Unmark()
	if !val.IsKnown() {
		return -1, 0, 0, true // the type probe's unknown value
	}
	if val.IsNull() {
		return 0, 0, 0, false
	}
	if val.Type().IsListType() || val.Type().IsTupleType() {
		if val.LengthInt() != 1 {
			return 0, 0, 0, false
		}
		el := val.AsValueSlice()[0]
		f, _ := el.AsBigFloat().Int64()
		return int(f) / 100, (int(f) % 100) / 10, 0, true
	}
	if val.Type() == cty.Number {
		f, _ := val.AsBigFloat().Int64()
		return int(f) / 100, (int(f) % 100) / 10, int(f) % 10, true
	}
	return 0, 0, 0, false
}

const nestedSrc = "ll[*][*]"

type session struct {
	expr   hclsyntax.Expression
	outer  *hclsyntax.AnonSymbolExpr
	inner  *hclsyntax.AnonSymbolExpr
	ctxOf  map[*hcl.EvalContext]int
	mu     sync.Mutex
	events []Event
	// schedule gate
	sched   []int
	pos     int
	cond    *sync.Cond
	gateErr string
	perturb *rand.Rand
	pmu     sync.Mutex
	doGate  bool
	doPert  bool
	// the operation currently between its pre-lock and under-lock hooks
	inflight   int
	inflightAt time.Time
	gateLoose  bool
}

func newSession() (*session, error) {
	expr, diags := hclsyntax.ParseExpression([]byte(nestedSrc), "s.hcl", hcl.InitialPos)
	if diags.HasErrors() {
		return nil, fmt.Errorf("%s", diags.Error())
	}
	sp, ok := expr.(*hclsyntax.SplatExpr)
	if !ok {
		return nil, fmt.Errorf("%q is not a splat", nestedSrc)
	}
	in, ok := sp.Each.(*hclsyntax.SplatExpr)
	if !ok {
		return nil, fmt.Errorf("inner expression of %q is not a splat (%T)", nestedSrc, sp.Each)
	}
	s := &session{expr: expr, outer: sp.Item, inner: in.Item, ctxOf: map[*hcl.EvalContext]int{}}
	s.cond = sync.NewCond(&s.mu)
	return s, nil
}

// hook is installed as hclsyntax.VerifHook
func (s *session) hook(ev string, obj, ctx, arg any) {
	if !strings.HasPrefix(ev, "anon.") {
		return
	}
	a, _ := obj.(*hclsyntax.AnonSymbolExpr)
	sym := ""
	switch a {
	case s.outer:
		sym = "outer"
	case s.inner:
		sym = "inner"
	default:
		return
	}
	c, _ := ctx.(*hcl.EvalContext)
	g, depth := 0, 0
	for cc := c; cc != nil && depth <= 2; cc = cc.Parent() {
		if gg := s.ctxOf[cc]; gg != 0 { // read-only after setup
			g = gg
			break
		}
		depth++
	}
	if g == 0 {
		return
	}
	if ev == "anon.pre" {
		if s.doPert {
			s.pmu.Lock()
			n := s.perturb.Intn(4)
			s.pmu.Unlock()
			for k := 0; k < n; k++ {
				runtime.Gosched()
			}
		}
		if s.doGate {
			s.mu.Lock()
			deadline := time.Now().Add(20 * time.Second)
			for s.gateErr == "" {
				if s.pos >= len(s.sched) {
					break
				}
				// the previous operation is complete when its under-lock hook has fired; if the
				// (possibly modified) code never reaches that hook, give it a moment and go on
				prevDone := s.inflight == 0 || time.Since(s.inflightAt) > 400*time.Millisecond
				if s.inflight != 0 && prevDone {
					s.gateLoose = true
				}
				if s.sched[s.pos] == g && prevDone {
					break
				}
				if time.Now().After(deadline) {
					s.gateErr = fmt.Sprintf("goroutine %d waited for its turn at schedule position %d (next is %d)", g, s.pos, s.sched[s.pos])
					s.cond.Broadcast()
					break
				}
				waitWithTimeout(s.cond, 2*time.Millisecond)
			}
			if s.pos < len(s.sched) && s.gateErr == "" {
				s.pos++
				s.inflight = g
				s.inflightAt = time.Now()
			}
			s.mu.Unlock()
		}
		return
	}
	e := Event{Ev: strings.TrimPrefix(ev, "anon."), G: g, Sym: sym, C: depth}
	if vg, i, j, ok := tagOf(arg); ok {
		e.VG, e.I, e.J = vg, i, j
	}
	s.mu.Lock()
	s.events = append(s.events, e)
	if s.doGate && s.inflight == g {
		s.inflight = 0
		s.cond.Broadcast()
	}
	s.mu.Unlock()
}

// waitWithTimeout releases the lock for a moment and takes it again (polling). A condition
// variable with a timer-driven Broadcast can lose the wake-up when the timer fires before Wait is
// entered, which left the last waiting goroutine asleep for ever on a loaded machine.
func waitWithTimeout(c *sync.Cond, d time.Duration) {
	c.L.Unlock()
	if d > 300*time.Microsecond {
		d = 300 * time.Microsecond
	}
	time.Sleep(d)
	c.L.Lock()
}

// run evaluates the shared expression from nG goroutines, each in its own context
// (children of one shared parent when sharedParent).
func (s *session) run(nG int, sharedParent bool) ([]cty.Value, []hcl.Diagnostics) {
	parent := &hcl.EvalContext{Variables: map[string]cty.Value{"unused": cty.True}}
	ctxs := make([]*hcl.EvalContext, nG+1)
	s.ctxOf = map[*hcl.EvalContext]int{}
	for g := 1; g <= nG; g++ {
		var c *hcl.EvalContext
		if sharedParent {
			c = parent.NewChild()
			c.Variables = scopeFor(g, emptyKind(g, nG))
		} else {
			c = &hcl.EvalContext{Variables: scopeFor(g, emptyKind(g, nG))}
		}
		ctxs[g] = c
		s.ctxOf[c] = g
	}
	vals := make([]cty.Value, nG+1)
	diags := make([]hcl.Diagnostics, nG+1)
	var wg sync.WaitGroup
	for g := 1; g <= nG; g++ {
		wg.Add(1)
		go func(g int) {
			defer wg.Done()
			vals[g], diags[g] = s.expr.Value(ctxs[g])
		}(g)
	}
	wg.Wait()
	return vals, diags
}

// hookFreeStress is the fallback when the instrumented operations no longer pass through the
// hooks (the symbol table was restructured): the schedules cannot be forced or recorded, but the
// verdict relation itself needs no hook. Free-running rounds of 8 goroutines are compared with the
// evaluation alone; a difference is a violation shown on the real code. Returns true if it reported one.
func (s *session) hookFreeStress(c *core.Check) bool {
	s.doGate, s.doPert = false, false
	hclsyntax.VerifHook = nil
	defer func() { hclsyntax.VerifHook = s.hook }()
	for k := 0; k < 3000; k++ {
		vals, diags := s.run(8, k%2 == 1)
		c.Count("evaluations", 8)
		if !checkRun(c, "free-running round (hooks bypassed)", 8, vals, diags, nil, map[string]any{"kind": "hook-free-stress", "round": k}) {
			return true
		}
	}
	return false
}

func expected(g int) cty.Value {
	n := func(i, j int) cty.Value { return cty.NumberIntVal(int64(100*g + 10*i + j)) }
	return cty.TupleVal([]cty.Value{cty.ListVal([]cty.Value{n(1, 1)}), cty.ListVal([]cty.Value{n(2, 1)})})
}

// checkRun applies the verdict relation to one run's outputs.
func checkRun(c *core.Check, what string, nG int, vals []cty.Value, diags []hcl.Diagnostics, events []Event, vec map[string]any) bool {
	// sequential reference, computed alone on a fresh parse
	for g := 1; g <= nG; g++ {
		ref, rd := hclsyntax.ParseExpression([]byte(nestedSrc), "ref.hcl", hcl.InitialPos)
		if rd.HasErrors() {
			c.Broken("reference parse failed")
			return false
		}
		want, wd := ref.Value(&hcl.EvalContext{Variables: scopeFor(g, emptyKind(g, nG))})
		if diags[g].HasErrors() != wd.HasErrors() || !vals[g].RawEquals(want) {
			c.Violation("concurrent-result-differs", fmt.Sprintf("%s: goroutine %d evaluated %q to %s (errors=%v); alone it gives %s", what, g, nestedSrc, e1.Describe(vals[g]), diags[g].HasErrors(), e1.Describe(want)), vec)
			return false
		}
	}
	for _, e := range events {
		if e.Ev == "read" && ((e.C == 0 && e.VG != e.G) || (e.C != 0 && e.VG != -1)) {
			c.Violation("read-not-own-value", fmt.Sprintf("%s: goroutine %d (context level %d) read symbol %s and got the value tagged %d (0 = absent, -1 = its probe value) instead of the value it had set", what, e.G, e.C, e.Sym, e.VG), vec)
			return false
		}
	}
	return true
}

var reSched = regexp.MustCompile(`<<"(set|read|clear)", (\d+)>>`)

// ParseSchedules extracts the `sched` variable of the last state of each simulation trace file.
func ParseSchedules(files map[string][]byte) [][]int {
	var out [][]int
	for _, b := range files {
		idx := bytes.LastIndex(b, []byte("sched = "))
		if idx < 0 {
			continue
		}
		rest := b[idx:]
		if end := bytes.Index(rest, []byte("\n/\\")); end > 0 {
			rest = rest[:end]
		}
		var sc []int
		for _, m := range reSched.FindAllSubmatch(rest, -1) {
			n, _ := strconv.Atoi(string(m[2]))
			sc = append(sc, n)
		}
		if len(sc) > 0 {
			out = append(out, sc)
		}
	}
	return out
}

// Run is the whole C17 check.
func Run(c *core.Check) {
	s, err := newSession()
	if err != nil {
		c.Broken("%v", err)
		return
	}
	hclsyntax.VerifHook = s.hook
	defer func() { hclsyntax.VerifHook = nil }()
	s.perturb = rand.New(rand.NewSource(c.Seed))

	// ---- S: forced schedules from TLC behaviours of SplatConc ----
	nSched := 150
	nTraced := 300
	nBodies := 300
	if c.Tier == "thorough" {
		nSched, nTraced, nBodies = 3000, 4000, 3000
	}
	simStats, err := core.TLCRun{Module: "MC_C17", Cfg: "MC_C17_sim.cfg", Simulate: fmt.Sprintf("file=simtrace,num=%d", nSched), Depth: 40, Seed: c.Seed,
		NoDump: true, Workers: 1, Collect: "simtrace*", Timeout: 10 * time.Minute}.Stream(1, func(core.State) {})
	if err != nil {
		c.Broken("TLC simulation of SplatConc failed: %v", err)
		return
	}
	scheds := ParseSchedules(simStats.Files)
	if len(scheds) == 0 {
		c.Broken("no schedules extracted from the TLC simulation (%d files)", len(simStats.Files))
		return
	}
	var allEvents []Event
	for k, sc := range scheds {
		s.mu.Lock()
		s.events, s.sched, s.pos, s.gateErr, s.inflight, s.gateLoose = nil, sc, 0, "", 0, false
		s.mu.Unlock()
		s.doGate, s.doPert = true, false
		vals, diags := s.run(3, k%2 == 0)
		c.Count("traces_validated", 1)
		c.Count("evaluations", 3)
		vec := map[string]any{"schedule": sc, "kind": "forced-schedule"}
		if !checkRun(c, "forced TLC schedule", 3, vals, diags, s.events, vec) {
			return
		}
		if s.gateErr != "" {
			c.Broken("schedule %d could not be forced: %s", k, s.gateErr)
			return
		}
		if s.gateLoose {
			if !s.hookFreeStress(c) {
				c.Broken("schedule %d: an operation never reached its under-lock hook (hooks bypassed by a code change?)", k)
			}
			return
		}
		// the real run must have followed the TLC behaviour exactly
		if len(s.events) != len(sc) {
			if !s.hookFreeStress(c) {
				c.Broken("schedule %d has %d steps but the implementation performed %d symbol operations", k, len(sc), len(s.events))
			}
			return
		}
		for i, e := range s.events {
			if e.G != sc[i] {
				c.Broken("schedule %d step %d: expected goroutine %d, implementation ran %d", k, i, sc[i], e.G)
				return
			}
		}
		allEvents = append(allEvents, s.events...)
		allEvents = append(allEvents, Event{Ev: "reset"})
		if k < 3 {
			c.Sample(map[string]any{"forced_schedule": sc})
		}
		c.Nontrivial(fmt.Sprint(sc))
	}
	// ---- T: free-running, perturbed runs recorded and validated by TLC ----
	s.doGate, s.doPert = false, true
	for k := 0; k < nTraced; k++ {
		s.mu.Lock()
		s.events = nil
		s.mu.Unlock()
		vals, diags := s.run(4, k%2 == 1)
		c.Count("traces_validated", 1)
		c.Count("evaluations", 4)
		order := make([]int, 0, len(s.events))
		for _, e := range s.events {
			order = append(order, e.G)
		}
		vec := map[string]any{"observed_order": order, "kind": "perturbed-run"}
		if !checkRun(c, "perturbed run", 4, vals, diags, s.events, vec) {
			return
		}
		allEvents = append(allEvents, s.events...)
		allEvents = append(allEvents, Event{Ev: "reset"})
		c.Nontrivial(fmt.Sprint(order))
	}
	// TLC validates the concatenated traces against SplatConc (batch)
	var buf bytes.Buffer
	for _, e := range allEvents {
		b, _ := json.Marshal(e)
		buf.Write(b)
		buf.WriteByte('\n')
	}
	// forced schedules used 3 goroutines, perturbed runs 4: validate with G = 1..4 (idle goroutines are allowed
	// only if the reset precondition AllDone is relaxed, so validate the two groups separately)
	validate := func(name string, evs []Event, g string) bool {
		var b bytes.Buffer
		for _, e := range evs {
			j, _ := json.Marshal(e)
			b.Write(j)
			b.WriteByte('\n')
		}
		st, err := core.TLCRun{Module: "MC_Trace_Splat", Consts: map[string]string{}, ConstSubst: map[string]string{"G": g, "Ctx": g + "Ctx", "Kind": g + "Kind"},
			NoDump: true, Workers: 1, Timeout: 15 * time.Minute, Files: map[string][]byte{"trace_splat.ndjson": b.Bytes()}}.Stream(1, func(core.State) {})
		c.AddTLC(st)
		if err != nil || st.ErrorKind != "" || strings.Contains(st.Output, "Postcondition") && strings.Contains(st.Output, "violated") || !strings.Contains(st.Output, "Model checking completed") {
			c.Broken("TLC rejected the recorded %s traces (model drift or mis-ordered hook), although every run satisfied the verdict relation: %v %s", name, err, tailStr(st.Output, 600))
			return false
		}
		return true
	}
	split := 0
	for i, e := range allEvents {
		if e.Ev == "reset" {
			if n := countResets(allEvents[:i+1]); n == len(scheds) {
				split = i + 1
				break
			}
		}
	}
	if !validate("forced-schedule", allEvents[:split], "TG3") || !validate("perturbed", allEvents[split:], "TG") {
		return
	}
	// binding smoke test: a trace with one corrupted read must be rejected by TLC
	{
		first := 0
		for i, e := range allEvents {
			if e.Ev == "reset" {
				first = i + 1
				break
			}
		}
		bad := append([]Event{}, allEvents[:first]...)
		for i := range bad {
			if bad[i].Ev == "read" && bad[i].C == 0 {
				bad[i].VG = bad[i].VG%3 + 1
				break
			}
		}
		var b bytes.Buffer
		for _, e := range bad {
			j, _ := json.Marshal(e)
			b.Write(j)
			b.WriteByte('\n')
		}
		st, _ := core.TLCRun{Module: "MC_Trace_Splat", ConstSubst: map[string]string{"G": "TG3", "Ctx": "TG3Ctx", "Kind": "TG3Kind"},
			NoDump: true, Workers: 1, Timeout: 5 * time.Minute, Files: map[string][]byte{"trace_splat.ndjson": b.Bytes()}}.Stream(1, func(core.State) {})
		rejected := st.ErrorKind != "" || strings.Contains(st.Output, "violated") || !strings.Contains(st.Output, "Model checking completed. No error")
		if !rejected {
			c.Broken("binding smoke test failed: TLC accepted a trace in which a read returns another goroutine's value")
			return
		}
		c.Extra["corrupted_trace_rejected_by_TLC"] = true
	}
	// ---- bodies: concurrent content extraction, variable analysis and decoding ----
	runBodies(c, nBodies)
}

func countResets(evs []Event) int {
	n := 0
	for _, e := range evs {
		if e.Ev == "reset" {
			n++
		}
	}
	return n
}

func tailStr(s string, n int) string {
	if len(s) > n {
		return s[len(s)-n:]
	}
	return s
}

const bodySrc = `
name = "n-${v.x}"
all  = [for o in v.objs : o.a if o.a != null]
flat = v.objs[*].a
cond = v.x > 1 ? upper("yes") : "no"
blk "l1" {
  inner = v.objs.*.a
  tpl   = "%{ for o in v.objs }${o.a},%{ endfor }"
}
dynamic "blk" {
  for_each = v.objs
  labels   = ["d${blk.key}"]
  content {
    inner = [blk.value.a]
    tpl   = "x${v.x}"
  }
}
`

var bodySpec = hcldec.ObjectSpec{
	"name": &hcldec.AttrSpec{Name: "name", Type: cty.String},
	"all":  &hcldec.AttrSpec{Name: "all", Type: cty.DynamicPseudoType},
	"flat": &hcldec.AttrSpec{Name: "flat", Type: cty.DynamicPseudoType},
	"cond": &hcldec.AttrSpec{Name: "cond", Type: cty.String},
	"blks": &hcldec.BlockMapSpec{TypeName: "blk", LabelNames: []string{"k"}, Nested: hcldec.ObjectSpec{
		"inner": &hcldec.AttrSpec{Name: "inner", Type: cty.List(cty.Number)},
		"tpl":   &hcldec.AttrSpec{Name: "tpl", Type: cty.String},
	}},
}

func bodyCtx(g int) *hcl.EvalContext {
	objs := []cty.Value{}
	for i := 0; i < 1+g%3; i++ {
		objs = append(objs, cty.ObjectVal(map[string]cty.Value{"a": cty.NumberIntVal(int64(10*g + i))}))
	}
	return &hcl.EvalContext{
		Variables: map[string]cty.Value{"v": cty.ObjectVal(map[string]cty.Value{"x": cty.NumberIntVal(int64(g)), "objs": cty.TupleVal(objs)})},
		Functions: e1.Functions(),
	}
}

func runBodies(c *core.Check, rounds int) {
	nf, d := hclsyntax.ParseConfig([]byte(bodySrc), "b.hcl", hcl.InitialPos)
	if d.HasErrors() {
		c.Broken("body source does not parse: %s", d.Error())
		return
	}
	jsrc := `{"name": "n-${v.x}", "all": "${[for o in v.objs : o.a]}", "flat": "${v.objs[*].a}", "cond": "${v.x > 1 ? \"yes\" : \"no\"}",
	  "blk": {"l1": {"inner": "${v.objs.*.a}", "tpl": "%{ for o in v.objs }${o.a},%{ endfor }"}}}`
	jf, jd := hcljson.Parse([]byte(jsrc), "b.json")
	if jd.HasErrors() {
		c.Broken("JSON body does not parse: %s", jd.Error())
		return
	}
	type res struct {
		val   cty.Value
		diags []string
		vars  []string
	}
	eval := func(body hcl.Body, g int, dyn bool) res {
		ctx := bodyCtx(g)
		b := body
		if dyn {
			b = dynblock.Expand(body, ctx)
		}
		v, ds := hcldec.Decode(b, bodySpec, ctx)
		var vs []string
		for _, t := range hcldec.Variables(body, bodySpec) {
			vs = append(vs, t.RootName())
		}
		return res{v, e1.NormDiags(ds), vs}
	}
	const nG = 16
	kinds := []struct {
		name string
		body hcl.Body
		dyn  bool
	}{{"native", nf.Body, false}, {"dynblock", nf.Body, true}, {"json", jf.Body, false}}
	// sequential references (each alone)
	ref := map[string][]res{}
	for _, k := range kinds {
		for g := 0; g < nG; g++ {
			ref[k.name] = append(ref[k.name], eval(k.body, g, k.dyn))
		}
	}
	var bad atomic.Value
	for r := 0; r < rounds && bad.Load() == nil; r++ {
		var wg sync.WaitGroup
		for g := 0; g < nG; g++ {
			wg.Add(1)
			go func(g int) {
				defer wg.Done()
				for _, k := range kinds {
					got := eval(k.body, g, k.dyn)
					want := ref[k.name][g]
					if !got.val.RawEquals(want.val) || !reflect.DeepEqual(got.diags, want.diags) || !reflect.DeepEqual(got.vars, want.vars) {
						bad.Store(fmt.Sprintf("%s body, goroutine %d: concurrent decode gives %s %v (variables %v); alone it gives %s %v (variables %v)",
							k.name, g, e1.Describe(got.val), got.diags, got.vars, e1.Describe(want.val), want.diags, want.vars))
					}
				}
			}(g)
		}
		wg.Wait()
		c.Count("evaluations", nG*3)
	}
	if m := bad.Load(); m != nil {
		c.Violation("concurrent-body-result-differs", m.(string), map[string]any{"kind": "bodies"})
		return
	}
	// a REMAINING body (the result of PartialContent) shared by many goroutines: each applies a
	// block schema and then an attribute schema to it; every one must see what a lone caller sees
	first := &hcl.BodySchema{Attributes: []hcl.AttributeSchema{{Name: "name"}}}
	blkS := &hcl.BodySchema{Blocks: []hcl.BlockHeaderSchema{{Type: "blk", LabelNames: []string{"l"}}}}
	restS := &hcl.BodySchema{Attributes: []hcl.AttributeSchema{{Name: "all"}, {Name: "flat"}, {Name: "cond"}}}
	project := func(remain hcl.Body) string {
		c1, r1, d1 := remain.PartialContent(blkS)
		c2, d2 := r1.Content(restS)
		var parts []string
		for _, b := range c1.Blocks {
			parts = append(parts, fmt.Sprintf("%s%q", b.Type, b.Labels))
		}
		var names []string
		for n := range c2.Attributes {
			names = append(names, n)
		}
		sort.Strings(names)
		return fmt.Sprintf("blocks=%v attrs=%v errs=%v/%v", parts, names, d1.HasErrors(), d2.HasErrors())
	}
	fresh := func(kind string) hcl.Body {
		switch kind {
		case "json":
			f, _ := hcljson.Parse([]byte(jsrc), "b.json")
			_, rem, _ := f.Body.PartialContent(first)
			return rem
		case "merged":
			f1, _ := hclsyntax.ParseConfig([]byte(bodySrc), "b.hcl", hcl.InitialPos)
			f2, _ := hcljson.Parse([]byte(`{"extra": 1}`), "c.json")
			_, rem, _ := hcl.MergeBodies([]hcl.Body{f1.Body, f2.Body}).PartialContent(first)
			return rem
		}
		f, _ := hclsyntax.ParseConfig([]byte(bodySrc), "b.hcl", hcl.InitialPos)
		_, rem, _ := f.Body.PartialContent(first)
		return rem
	}
	remRounds := rounds / 10
	if remRounds < 10 {
		remRounds = 10
	}
	// a SCHEMA object shared by many goroutines (as hcldec.ImpliedSchema results are: slices built
	// with append, so with spare capacity): every goroutine expands the dynamic blocks of the shared
	// parsed body with its own context, applies its own first-phase schema and then the shared
	// second-phase schema to the remaining body. Each must see what it sees alone, and the shared
	// schema must come back unchanged.
	{
		mk := func() *hcl.BodySchema {
			sc := &hcl.BodySchema{Attributes: make([]hcl.AttributeSchema, 0, 16), Blocks: make([]hcl.BlockHeaderSchema, 0, 16)}
			for _, n := range []string{"name", "all", "flat", "cond"} {
				sc.Attributes = append(sc.Attributes, hcl.AttributeSchema{Name: n})
			}
			sc.Blocks = append(sc.Blocks, hcl.BlockHeaderSchema{Type: "blk", LabelNames: []string{"l"}})
			return sc
		}
		firsts := []*hcl.BodySchema{
			{Attributes: []hcl.AttributeSchema{{Name: "name"}}},
			{Attributes: []hcl.AttributeSchema{{Name: "cond"}, {Name: "all"}}},
			{Attributes: []hcl.AttributeSchema{{Name: "flat"}, {Name: "name"}, {Name: "cond"}}},
			{Blocks: []hcl.BlockHeaderSchema{{Type: "blk", LabelNames: []string{"l"}}}},
		}
		twoPhase := func(g int, second *hcl.BodySchema) string {
			exp := dynblock.Expand(nf.Body, bodyCtx(g))
			_, rem, d1 := exp.PartialContent(firsts[g%len(firsts)])
			c2, d2 := rem.Content(second)
			var names []string
			for n := range c2.Attributes {
				names = append(names, n)
			}
			sort.Strings(names)
			var parts []string
			for _, b := range c2.Blocks {
				parts = append(parts, fmt.Sprintf("%s%q", b.Type, b.Labels))
			}
			return fmt.Sprintf("attrs=%v blocks=%v diags=%v/%v", names, parts, e1.NormDiags(d1), e1.NormDiags(d2))
		}
		want := make([]string, nG)
		for g := 0; g < nG; g++ {
			want[g] = twoPhase(g, mk())
		}
		for r := 0; r < remRounds*4; r++ {
			shared := mk()
			got := make([]string, nG)
			var wg sync.WaitGroup
			for g := 0; g < nG; g++ {
				wg.Add(1)
				go func(g int) {
					defer wg.Done()
					got[g] = twoPhase(g, shared)
				}(g)
			}
			wg.Wait()
			c.Count("evaluations", nG)
			for g := 0; g < nG; g++ {
				if got[g] != want[g] {
					c.Violation("shared-schema-result-differs/dynblock", fmt.Sprintf("second-phase schema shared by %d goroutines (dynamic-block expanded bodies, own contexts): goroutine %d sees %s; alone it sees %s", nG, g, got[g], want[g]), map[string]any{"kind": "shared-schema"})
					return
				}
			}
			if len(shared.Attributes) != 4 || len(shared.Blocks) != 1 || !reflect.DeepEqual(shared.Attributes[:4], mk().Attributes) {
				c.Violation("shared-schema-modified/dynblock", fmt.Sprintf("the caller's schema was modified by Content: %+v", shared), map[string]any{"kind": "shared-schema"})
				return
			}
		}
	}
	for _, kind := range []string{"native", "json", "merged"} {
		want := project(fresh(kind))
		for r := 0; r < remRounds; r++ {
			shared := fresh(kind)
			got := make([]string, nG)
			var wg sync.WaitGroup
			for g := 0; g < nG; g++ {
				wg.Add(1)
				go func(g int) {
					defer wg.Done()
					got[g] = project(shared)
				}(g)
			}
			wg.Wait()
			c.Count("evaluations", nG)
			for g := 0; g < nG; g++ {
				if got[g] != want {
					c.Violation("shared-remaining-body-differs/"+kind, fmt.Sprintf("%s remaining body shared by %d goroutines: goroutine %d sees %s; a lone caller sees %s", kind, nG, g, got[g], want), map[string]any{"kind": "remain"})
					return
				}
			}
		}
	}
}
