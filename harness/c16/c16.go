// Package c16: struct encoding and decoding are inverse, in both syntaxes.
package c16

import (
	stdjson "encoding/json"
	"fmt"
	"reflect"
	"strings"

	"github.com/hashicorp/hcl/v2"
	"github.com/hashicorp/hcl/v2/gohcl"
	"github.com/hashicorp/hcl/v2/hclsimple"
	"github.com/hashicorp/hcl/v2/hclsyntax"
	"github.com/hashicorp/hcl/v2/hclwrite"
	hcljson "github.com/hashicorp/hcl/v2/json"
	"github.com/zclconf/go-cty/cty"
	"golang.org/x/text/unicode/norm"

	"verif/harness/core"
	"verif/harness/dec"
	"verif/harness/tla"
)

// the struct family of GoHcl.tla
type Leaf struct {
	ID  string `hcl:"id,label"`
	ID2 string `hcl:"id2,label"`
	W   string `hcl:"w"`
}
type Item struct {
	Key    string `hcl:"key,label"`
	V      int    `hcl:"v"`
	Leaves []Leaf `hcl:"leaf,block"`
}
type Inner struct {
	Flag bool   `hcl:"flag"`
	Note string `hcl:"note,optional"`
}
type Root struct {
	Name   string            `hcl:"name"`
	Count  *int              `hcl:"count"`
	Opt    string            `hcl:"opt,optional"`
	Tags   map[string]string `hcl:"tags,optional"`
	List   []string          `hcl:"list,optional"`
	Req    []string          `hcl:"req"`
	ReqMap map[string]string `hcl:"reqmap"`
	Inner  *Inner            `hcl:"inner,block"`
	Items  []Item            `hcl:"item,block"`
	PItems []*Item           `hcl:"pitem,block"`
}

// escape-relevant strings and awkward map keys (index 1..12)
var strTab = []string{"", "plain", "", "a b", "q\"t", "n\nl", "$${x}-${y}", "%%{y}%{z}", "é́", "back\\slash", "for", "null", "0key-x", "007", "7",
	// the JSON syntax's comment property name, here an ordinary label / map key / string
	"//"}

func str(i int) string { return norm.NFC.String(strTab[i]) }

func build(v map[string]any) *Root {
	r := &Root{Name: str(tla.Int(v["name"]))}
	if n := tla.Int(v["count"]); n >= 0 {
		r.Count = &n
	}
	if o := tla.Int(v["opt"]); o > 0 {
		r.Opt = str(o)
	}
	for _, t := range tla.Seq(v["tags"]) {
		m := tla.Rec(t)
		if r.Tags == nil {
			r.Tags = map[string]string{}
		}
		r.Tags[str(tla.Int(m["k"]))] = str(tla.Int(m["v"]))
	}
	for _, s := range tla.Seq(v["list"]) {
		r.List = append(r.List, str(tla.Int(s)))
	}
	if rq := tla.Rec(v["req"]); !tla.Bool(rq["nil"]) {
		r.Req = []string{}
		for _, s := range tla.Seq(rq["e"]) {
			r.Req = append(r.Req, str(tla.Int(s)))
		}
	}
	if rq := tla.Rec(v["reqmap"]); !tla.Bool(rq["nil"]) {
		r.ReqMap = map[string]string{}
		for _, t := range tla.Seq(rq["e"]) {
			m := tla.Rec(t)
			r.ReqMap[str(tla.Int(m["k"]))] = str(tla.Int(m["v"]))
		}
	}
	in := tla.Rec(v["inner"])
	if tla.Bool(in["set"]) {
		r.Inner = &Inner{Flag: tla.Bool(in["flag"])}
		if n := tla.Int(in["note"]); n > 0 {
			r.Inner.Note = str(n)
		}
	}
	item := func(x any) Item {
		m := tla.Rec(x)
		it := Item{Key: str(tla.Int(m["key"])), V: tla.Int(m["v"])}
		for _, l := range tla.Seq(m["leaves"]) {
			lm := tla.Rec(l)
			it.Leaves = append(it.Leaves, Leaf{ID: str(tla.Int(lm["id"])), ID2: str(tla.Int(lm["id2"])), W: str(tla.Int(lm["w"]))})
		}
		return it
	}
	for _, x := range tla.Seq(v["items"]) {
		r.Items = append(r.Items, item(x))
	}
	for _, x := range tla.Seq(v["pitems"]) {
		it := item(x)
		r.PItems = append(r.PItems, &it)
	}
	return r
}

// normalise removes the distinctions HCL cannot represent: nil vs empty slices/maps
func normalise(r *Root) *Root {
	c := *r
	if len(c.Tags) == 0 {
		c.Tags = nil
	}
	if len(c.List) == 0 {
		c.List = nil
	}
	if len(c.Items) == 0 {
		c.Items = nil
	}
	if len(c.PItems) == 0 {
		c.PItems = nil
	}
	for i := range c.Items {
		if len(c.Items[i].Leaves) == 0 {
			c.Items[i].Leaves = nil
		}
	}
	return &c
}

func jsonOf(r *Root) []byte {
	m := []string{}
	add := func(k string, v any) {
		b, _ := stdjson.Marshal(v)
		kb, _ := stdjson.Marshal(k)
		m = append(m, string(kb)+": "+string(b))
	}
	// decoding happens without an evaluation context, i.e. in the JSON syntax's literal-only
	// mode, where strings are taken verbatim (template sequences are not interpreted)
	esc := func(s string) string { return s }
	add("name", esc(r.Name))
	if r.Count != nil {
		add("count", *r.Count)
	} else {
		add("count", nil)
	}
	if r.Opt != "" {
		add("opt", esc(r.Opt))
	}
	if r.Tags != nil {
		t := map[string]string{}
		for k, v := range r.Tags {
			t[esc(k)] = esc(v)
		}
		add("tags", t)
	}
	if r.Req != nil {
		add("req", r.Req)
	} else {
		add("req", nil)
	}
	if r.ReqMap != nil {
		add("reqmap", r.ReqMap)
	} else {
		add("reqmap", nil)
	}
	if r.List != nil {
		l := []string{}
		for _, s := range r.List {
			l = append(l, esc(s))
		}
		add("list", l)
	}
	if r.Inner != nil {
		in := map[string]any{"flag": r.Inner.Flag}
		if r.Inner.Note != "" {
			in["note"] = esc(r.Inner.Note)
		}
		add("inner", in)
	}
	itemJSON := func(it Item) string {
		parts := []string{fmt.Sprintf(`"v": %d`, it.V)}
		for _, l := range it.Leaves {
			w, _ := stdjson.Marshal(esc(l.W))
			a, _ := stdjson.Marshal(l.ID)
			b, _ := stdjson.Marshal(l.ID2)
			parts = append(parts, fmt.Sprintf(`"leaf": {%s: {%s: {"w": %s}}}`, a, b, w))
		}
		k, _ := stdjson.Marshal(it.Key)
		return fmt.Sprintf(`{%s: {%s}}`, k, strings.Join(parts, ", "))
	}
	for _, it := range r.Items {
		m = append(m, `"item": `+itemJSON(it))
	}
	for _, it := range r.PItems {
		m = append(m, `"pitem": `+itemJSON(*it))
	}
	return []byte("{" + strings.Join(m, ", ") + "}")
}

func Handle(c *core.Check, st core.State) {
	v := tla.Rec(st.Vars["val"])
	c.Count("vectors_replayed", 1)
	orig := build(v)
	vec := map[string]any{"state": st.Raw, "value": fmt.Sprintf("%+v", describe(orig))}
	c.Count("evaluations", 1)
	var src []byte
	if rec, p := core.Guard(func() {
		f := hclwrite.NewEmptyFile()
		gohcl.EncodeIntoBody(orig, f.Body())
		src = f.Bytes()
	}); p {
		c.Violation("panic/encode", fmt.Sprintf("EncodeIntoBody(%s) panicked: %v", describe(orig), rec), vec)
		return
	}
	vec["source"] = string(src)
	pf, pd := hclsyntax.ParseConfig(src, "enc.hcl", hcl.InitialPos)
	if pd.HasErrors() {
		c.Violation("encoded-does-not-parse", fmt.Sprintf("EncodeIntoBody(%s) wrote %q, which does not parse: %s", describe(orig), src, pd.Error()), vec)
		return
	}
	var got Root
	var dd hcl.Diagnostics
	if rec, p := core.Guard(func() { dd = gohcl.DecodeBody(pf.Body, nil, &got) }); p {
		c.Violation("panic/decode", fmt.Sprintf("DecodeBody of %q panicked: %v", src, rec), vec)
		return
	}
	if dd.HasErrors() {
		c.Violation("decode-error/"+dd[0].Summary, fmt.Sprintf("decoding the encoding %q of %s reports: %s", src, describe(orig), dd.Error()), vec)
		return
	}
	if !reflect.DeepEqual(normalise(&got), normalise(orig)) {
		c.Violation("roundtrip-differs/native", fmt.Sprintf("encoding %s gives %q, which decodes to %s", describe(orig), src, describe(&got)), vec)
		return
	}
	// the equivalent JSON document
	js := jsonOf(orig)
	vec["json"] = string(js)
	var jgot Root
	var jerr error
	if rec, p := core.Guard(func() { jerr = hclsimple.Decode("v.json", js, nil, &jgot) }); p {
		c.Violation("panic/json-decode", fmt.Sprintf("decoding JSON %s panicked: %v", js, rec), vec)
		return
	}
	if jerr != nil {
		c.Violation("json-decode-error", fmt.Sprintf("the JSON document %s equivalent to %s fails to decode: %v", js, describe(orig), jerr), vec)
		return
	}
	if !reflect.DeepEqual(normalise(&jgot), normalise(orig)) {
		c.Violation("roundtrip-differs/json", fmt.Sprintf("JSON %s decodes to %s, expected %s", js, describe(&jgot), describe(orig)), vec)
		return
	}
	c.Nontrivial(string(src))
	if len(orig.Items)+len(orig.PItems) > 0 && orig.Tags != nil {
		c.Sample(map[string]any{"value": describe(orig), "native": string(src), "json": string(js)})
	}
}

func describe(r *Root) string {
	b, _ := stdjson.Marshal(r)
	return string(b)
}

// HandleArbitrary decodes arbitrary (well- and ill-formed) bodies of the decoder generator into the
// struct family: problems must be diagnostics, never panics.
// decode-only family: the tag kinds and field types EncodeIntoBody does not write
// (remain, body, ranges, cty.Value / hcl.Expression / *hcl.Attribute fields, block fields of
// type hcl.Body and *hcl.Block-free forms, numeric conversions)
type LooseItem struct {
	Key      string    `hcl:"key,label"`
	KeyRange hcl.Range `hcl:"key,label_range"`
	Def      hcl.Range `hcl:",def_range"`
	Type     hcl.Range `hcl:",type_range"`
	Rest     hcl.Body  `hcl:",remain"`
}

type Loose struct {
	Name      cty.Value      `hcl:"name,optional"`
	NameRange hcl.Range      `hcl:"name,attr_range"`
	NameName  hcl.Range      `hcl:"name,attr_name_range"`
	NameValue hcl.Range      `hcl:"name,attr_value_range"`
	Count     hcl.Expression `hcl:"count,optional"`
	Inner     []Inner        `hcl:"inner,block"`
	Items     []LooseItem    `hcl:"item,block"`
	Rest      hcl.Attributes `hcl:",remain"`
}

type LooseAttr struct {
	Name  *hcl.Attribute    `hcl:"name"`
	Count float64           `hcl:"count,optional"`
	Whole hcl.Body          `hcl:",body"`
	Rest  map[string]string `hcl:",remain"`
}

type Tiny struct {
	Count uint8    `hcl:"count"`
	Name  []int    `hcl:"name,optional"`
	Inner *Inner   `hcl:"inner,block"`
	Item  []*Inner `hcl:"item,block"`
}

func HandleArbitrary(c *core.Check, st core.State) {
	if tla.Str(st.Vars["phase"]) != "body" {
		return
	}
	items := dec.DecodeBody(st.Vars["body"])
	src := dec.Native(items, "")
	// rename to the family's vocabulary so that some content matches
	src = strings.NewReplacer("p {", "inner {", "q \"", "item \"", "a =", "name =", "b =", "count =").Replace(src)
	c.Count("vectors_replayed", 1)
	for _, syn := range []string{"native", "json"} {
		var body hcl.Body
		if syn == "native" {
			f, d := hclsyntax.ParseConfig([]byte(src), "a.hcl", hcl.InitialPos)
			if d.HasErrors() {
				continue
			}
			body = f.Body
		} else {
			js := dec.JSON(items, 0)
			js = strings.NewReplacer(`"p":`, `"inner":`, `"q":`, `"item":`, `"a":`, `"name":`, `"b":`, `"count":`).Replace(js)
			f, d := hcljson.Parse([]byte(js), "a.json")
			if d.HasErrors() {
				continue
			}
			body = f.Body
			src = js
		}
		for _, mk := range []func() any{func() any { return &Root{} }, func() any { return &Item{} }, func() any { return &Inner{} }, func() any { return &Leaf{} },
			func() any { return &Loose{} }, func() any { return &LooseAttr{} }, func() any { return &Tiny{} }, func() any { return &LooseItem{} }} {
			target := mk()
			c.Count("evaluations", 1)
			if rec, p := core.Guard(func() { _ = gohcl.DecodeBody(body, nil, target) }); p {
				c.Violation(fmt.Sprintf("panic/decode-arbitrary/%T", target), fmt.Sprintf("DecodeBody of %q into %T panicked: %v", src, target, rec), map[string]any{"state": st.Raw, "source": src})
				return
			}
		}
	}
}
