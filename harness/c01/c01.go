// Package c01: conformance of hclsyntax evaluation with the TLA+ denotational semantics.
package c01

import (
	"fmt"
	"strings"

	"github.com/hashicorp/hcl/v2"
	"github.com/hashicorp/hcl/v2/hclsyntax"
	"github.com/zclconf/go-cty/cty"

	"verif/harness/core"
	"verif/harness/e1"
	"verif/harness/tla"
)

// famOf gives a coarse signature component: the outermost construct kinds.
func famOf(n *e1.Node) string {
	for n.K == "paren" && len(n.Sub) == 1 {
		n = n.Sub[0]
	}
	s := n.K
	if n.K == "bin" || n.K == "un" {
		s += n.S
	}
	if n.K == "for" || n.K == "splat" || n.K == "call" {
		s += ":" + n.S
	}
	return s
}

// flushAfterStrip recognises one root cause: a flush heredoc in which a line ends with a
// right strip marker (`~}`) and another line follows. The implementation strips the newline
// first and then no longer treats the following line as a line start when it analyses and
// removes the common indentation; spec.md defines the indentation analysis on the lines of the
// source.
func flushAfterStrip(n *e1.Node) bool {
	if n.K == "tpl" && n.S == "hf" {
		for i, ln := range n.Sub {
			if i == len(n.Sub)-1 || len(ln.Sub) == 0 {
				continue
			}
			lastPart := ln.Sub[len(ln.Sub)-1]
			switch lastPart.K {
			case "interp":
				if lastPart.N&2 != 0 {
					return true
				}
			case "tif":
				if lastPart.N&32 != 0 {
					return true
				}
			case "tfor":
				if (lastPart.N/4)&8 != 0 {
					return true
				}
			}
		}
	}
	for _, sub := range n.Sub {
		if flushAfterStrip(sub) {
			return true
		}
	}
	return false
}

func describe(v cty.Value) string {
	if v == cty.NilVal {
		return "<nil>"
	}
	return strings.ReplaceAll(fmt.Sprintf("%#v", v), "cty.", "")
}

// Handle checks one vector (state of MC_E1) in every layout mode.
func Handle(c *core.Check, st core.State, layouts []int) {
	var node *e1.Node
	if rec, p := core.Guard(func() { node = e1.DecodeNode(st.Vars["e"]) }); p {
		c.Broken("decode: %v", rec)
		return
	}
	pred := tla.Rec(st.Vars["pred"])
	predErr := tla.Bool(pred["err"])
	predVal, predOK := e1.DecodeValue(pred["v"])
	predOom := tla.Str(tla.Rec(pred["v"])["k"]) == "oom"
	last, _ := st.Vars["last"].(string)
	c.Count("vectors_replayed", 1)
	if predOom {
		c.Count("pred_oom", 1)
	}
	for _, mode := range layouts {
		src := e1.Render(node, e1.Layout{Mode: mode})
		c.Count("evaluations", 1)
		var expr hclsyntax.Expression
		var pdiags hcl.Diagnostics
		var val cty.Value
		var vdiags hcl.Diagnostics
		rec, panicked := core.Guard(func() {
			expr, pdiags = hclsyntax.ParseExpression([]byte(src), "e.hcl", hcl.InitialPos)
			if !pdiags.HasErrors() {
				val, vdiags = expr.Value(e1.Ctx())
			}
		})
		vec := map[string]any{"state": st.Raw, "source": src}
		if panicked {
			c.Violation("panic/"+famOf(node), fmt.Sprintf("evaluating %q panicked: %v", src, rec), vec)
			continue
		}
		if pdiags.HasErrors() {
			c.Violation("parse-rejects-valid/"+famOf(node), fmt.Sprintf("grammar-derived expression %q is rejected: %s", src, pdiags.Error()), vec)
			continue
		}
		if predOom {
			continue
		}
		gotErr := vdiags.HasErrors()
		if gotErr != predErr {
			what := fmt.Sprintf("%q: specification says error=%v, implementation says error=%v", src, predErr, gotErr)
			if gotErr {
				what += " (" + vdiags[0].Summary + ": " + vdiags[0].Detail + ")"
			} else {
				what += " (value " + describe(val) + ")"
			}
			c.Violation(fmt.Sprintf("errorness/%s/spec=%v", famOf(node), predErr), what, vec)
			continue
		}
		if !gotErr {
			if !predOK {
				c.Count("pred_untracked", 1)
				continue
			}
			if !val.RawEquals(predVal) {
				sig := "value/" + famOf(node)
				if flushAfterStrip(node) {
					sig = "value/flush-heredoc/line-after-right-strip-marker"
				}
				c.Violation(sig, fmt.Sprintf("%q: specification value %s, implementation value %s", src, describe(predVal), describe(val)), vec)
				continue
			}
		}
		if mode == layouts[0] {
			c.Nontrivial(src)
			if last != "leaf" {
				c.Sample(map[string]any{"source": src, "spec_error": predErr, "spec_value": describe(predVal), "production": last})
			}
		}
	}
}
