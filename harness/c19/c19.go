// Package c19: diagnostics never reveal the content of marked values.
package c19

import (
	"bytes"
	"encoding/json"
	"fmt"
	"github.com/hashicorp/hcl/v2/ext/dynblock"
	"github.com/hashicorp/hcl/v2/hcldec"
	"strings"

	"github.com/hashicorp/hcl/v2"
	"github.com/hashicorp/hcl/v2/hclsyntax"
	hcljson "github.com/hashicorp/hcl/v2/json"
	"github.com/zclconf/go-cty/cty"

	"verif/harness/core"
	"verif/harness/e1"
)

const Mark = "secret"

// Canaries are high-entropy strings/numbers that occur only inside marked values.
var Canaries = []string{"K3Q9ZX7A", "W8PLM2RT", "K3Q9KEYA", "J5KEYB2X", "48213", "73901", "77712345"}

func m(v cty.Value) cty.Value { return v.Mark(Mark) }

// CanaryScope returns the E1 scope with the same names and types but secret contents.
// nested=false: every value marked at top level; nested=true: marks on the elements only.
func CanaryScope(nested bool) map[string]cty.Value {
	n := func(i int64) cty.Value { return cty.NumberIntVal(i) }
	s := cty.StringVal
	el := func(v cty.Value) cty.Value {
		if nested {
			return m(v)
		}
		return v
	}
	top := func(v cty.Value) cty.Value {
		if nested {
			return v
		}
		return m(v)
	}
	return map[string]cty.Value{
		"n1":  m(n(48213)),
		"n2":  m(n(73901)),
		"nh":  m(cty.NumberFloatVal(48213.5)),
		"s":   m(s("K3Q9ZX7A")),
		"sn":  m(s("77712345")),
		"b":   m(cty.True),
		"nul": cty.NullVal(cty.DynamicPseudoType),
		"ns":  m(cty.NullVal(cty.String)),
		"l":   top(cty.ListVal([]cty.Value{el(n(48213)), el(n(73901))})),
		"ls":  top(cty.ListVal([]cty.Value{el(s("K3Q9ZX7A")), el(s("W8PLM2RT"))})),
		"le":  top(cty.ListValEmpty(cty.Object(map[string]cty.Type{"a": cty.Number}))),
		"t":   top(cty.TupleVal([]cty.Value{el(n(48213)), el(s("K3Q9ZX7A"))})),
		"o":   top(cty.ObjectVal(map[string]cty.Value{"a": el(n(48213)), "b": el(s("K3Q9ZX7A"))})),
		"m":   m(cty.MapVal(map[string]cty.Value{"K3Q9KEYA": s("W8PLM2RT"), "J5KEYB2X": s("K3Q9ZX7A")})),
		"st":  m(cty.SetVal([]cty.Value{s("K3Q9ZX7A"), s("W8PLM2RT")})),
		"lo": top(cty.ListVal([]cty.Value{
			cty.ObjectVal(map[string]cty.Value{"a": el(n(48213))}),
			cty.ObjectVal(map[string]cty.Value{"a": el(n(73901))}),
		})),
		"oo": top(cty.ObjectVal(map[string]cty.Value{"a": cty.ObjectVal(map[string]cty.Value{"b": el(n(48213))})})),
	}
}

// PartialScope marks only the primitive variables (with canary contents); collections are
// unmarked and hold ordinary contents, so a marked key meets an unmarked collection.
func PartialScope() map[string]cty.Value {
	sc := e1.Scope()
	sc["n1"] = m(cty.NumberIntVal(48213))
	sc["n2"] = m(cty.NumberIntVal(73901))
	sc["nh"] = m(cty.NumberFloatVal(48213.5))
	sc["s"] = m(cty.StringVal("K3Q9ZX7A"))
	sc["sn"] = m(cty.StringVal("77712345"))
	sc["b"] = m(cty.True)
	return sc
}

// RefinedScope: the marked primitives are UNKNOWN values whose refinements carry the secret
// content (a string prefix, numeric bounds), as results computed from marked and unknown
// operands are (e.g. the template "${secret}-${id}" with an unknown id).
func RefinedScope() map[string]cty.Value {
	sc := CanaryScope(false)
	sc["s"] = m(cty.UnknownVal(cty.String).Refine().NotNull().StringPrefix("K3Q9ZX7A-").NewValue())
	sc["sn"] = m(cty.UnknownVal(cty.String).Refine().NotNull().StringPrefix("77712345").NewValue())
	sc["n1"] = m(cty.UnknownVal(cty.Number).Refine().NotNull().NumberRangeLowerBound(cty.NumberIntVal(48213), true).NumberRangeUpperBound(cty.NumberIntVal(48214), true).NewValue())
	sc["n2"] = m(cty.UnknownVal(cty.Number).Refine().NotNull().NumberRangeLowerBound(cty.NumberIntVal(73901), true).NewValue())
	return sc
}

func leak(text string) string {
	for _, cn := range Canaries {
		if strings.Contains(text, cn) {
			return cn
		}
	}
	return ""
}

// CheckDiags looks for canaries in summaries, details and text renderings.
// It returns (where, canary, diagnostic summary) of the first leak.
func CheckDiags(ds hcl.Diagnostics, files map[string]*hcl.File) (string, string, *hcl.Diagnostic) {
	for _, d := range ds {
		if cn := leak(d.Summary); cn != "" {
			return "summary", cn, d
		}
		if cn := leak(d.Detail); cn != "" {
			return "detail", cn, d
		}
	}
	for _, width := range []uint{0, 78} {
		for _, d := range ds {
			var buf bytes.Buffer
			w := hcl.NewDiagnosticTextWriter(&buf, files, width, false)
			if err := w.WriteDiagnostic(d); err != nil {
				continue
			}
			if cn := leak(buf.String()); cn != "" {
				return fmt.Sprintf("text-writer(width=%d)", width), cn, d
			}
		}
	}
	return "", "", nil
}

func Handle(c *core.Check, st core.State) {
	v, err := e1.DecodeVector(st)
	if err != nil {
		c.Broken("%v", err)
		return
	}
	c.Count("vectors_replayed", 1)
	src := e1.Render(v.Node, e1.Layout{})
	vec := map[string]any{"state": st.Raw, "source": src}
	expr, diags := hclsyntax.ParseExpression([]byte(src), "e.hcl", hcl.InitialPos)
	if diags.HasErrors() {
		c.Broken("generated expression does not parse (C01 owns this): %q: %s", src, diags.Error())
		return
	}
	files := map[string]*hcl.File{"e.hcl": {Bytes: []byte(src)}}
	funcs := e1.Functions()
	sawDiag := false
	for variant := 0; variant < 4; variant++ {
		nested := variant == 1
		scope := CanaryScope(nested)
		if variant == 2 {
			scope = PartialScope()
		}
		if variant == 3 {
			scope = RefinedScope()
		}
		var ds hcl.Diagnostics
		c.Count("evaluations", 1)
		if rec, p := core.Guard(func() { _, ds = expr.Value(&hcl.EvalContext{Variables: scope, Functions: funcs}) }); p {
			c.Violation("panic/"+e1.Fam(v.Node), fmt.Sprintf("%q panicked with marked scope (nested=%v): %v", src, nested, rec), vec)
			return
		}
		if len(ds) == 0 {
			continue
		}
		sawDiag = true
		var where, cn string
		var d *hcl.Diagnostic
		if rec, p := core.Guard(func() { where, cn, d = CheckDiags(ds, files) }); p {
			c.Violation("panic-in-text-writer/"+e1.Fam(v.Node), fmt.Sprintf("rendering diagnostics of %q panicked: %v", src, rec), vec)
			return
		}
		if where != "" {
			w := where
			sig := ""
			if strings.HasPrefix(w, "text-writer") {
				w = "text-writer"
				// root cause check: the canary is the content of a variable bound by an
				// enclosing iterator (child evaluation context), printed by the writer's
				// "with <var> as <value>" summary
				// (any enclosing iterator: the child contexts between the diagnostic's context and the root)
				for ectx := d.EvalContext; ectx != nil && ectx.Parent() != nil; ectx = ectx.Parent() {
					for _, lv := range ectx.Variables {
						if !lv.IsMarked() && lv.IsKnown() && !lv.IsNull() && lv.Type().IsPrimitiveType() &&
							strings.Contains(fmt.Sprintf("%#v", lv), cn) {
							sig = "leak/text-writer/iterator-variable-summary"
						}
					}
				}
			}
			if sig == "" {
				sig = "leak/" + w + "/" + d.Summary
			}
			if !c.Violation(sig, fmt.Sprintf("%q (marks nested=%v): canary %q appears in the %s of diagnostic %q: %s", src, nested, cn, where, d.Summary, d.Detail), vec) {
				return
			}
		}
	}
	// the JSON syntax's own diagnostics: the expression as an object KEY, twice (duplicate attribute,
	// invalid key), bare and with a literal prefix
	if !strings.Contains(src, "<<") {
		inner, _ := json.Marshal("${" + src + "}")
		in := string(inner[1 : len(inner)-1])
		for _, js := range []string{`{"` + in + `": 1, "` + in + `": 2}`, `{"p-` + in + `": 1, "p-` + in + `": 2}`} {
			je, jd := hcljson.ParseExpression([]byte(js), "k.json")
			if jd.HasErrors() {
				continue
			}
			jfiles := map[string]*hcl.File{"k.json": {Bytes: []byte(js)}}
			for variant := 0; variant < 3; variant++ {
				scope := CanaryScope(variant == 1)
				if variant == 2 {
					scope = PartialScope()
				}
				var ds hcl.Diagnostics
				c.Count("evaluations", 1)
				jvec := map[string]any{"state": st.Raw, "source": src, "json": js}
				if rec, p := core.Guard(func() { _, ds = je.Value(&hcl.EvalContext{Variables: scope, Functions: funcs}) }); p {
					c.Violation("panic/json-object-key", fmt.Sprintf("JSON expression %s panicked with a marked scope: %v", js, rec), jvec)
					return
				}
				if len(ds) == 0 {
					continue
				}
				var where, cn string
				var d *hcl.Diagnostic
				if rec, p := core.Guard(func() { where, cn, d = CheckDiags(ds, jfiles) }); p {
					c.Violation("panic-in-text-writer/json-object-key", fmt.Sprintf("rendering diagnostics of %s panicked: %v", js, rec), jvec)
					return
				}
				if where != "" && !strings.HasPrefix(where, "text-writer") {
					if !c.Violation("leak/json/"+where+"/"+d.Summary, fmt.Sprintf("JSON expression %s: canary %q appears in the %s of diagnostic %q: %s", js, cn, where, d.Summary, d.Detail), jvec) {
						return
					}
				}
			}
		}
	}
	if sawDiag {
		c.Nontrivial(src)
		c.Sample(map[string]any{"source": src})
	}
}

// ---- bodies: hcldec decoding and dynamic block expansion with secrets in marked values ----

type bodyCase struct {
	name string
	src  func(x string) string
	spec hcldec.Spec
	dyn  bool
}

func bodyCases() []bodyCase {
	attr := func(t cty.Type) hcldec.Spec { return &hcldec.AttrSpec{Name: "a", Type: t} }
	one := func(x string) string { return "a = " + x + "\n" }
	var out []bodyCase
	for name, t := range map[string]cty.Type{
		"number": cty.Number, "bool": cty.Bool, "list(number)": cty.List(cty.Number), "map(number)": cty.Map(cty.Number),
		"object{a=map(number)}":   cty.Object(map[string]cty.Type{"a": cty.Map(cty.Number)}),
		"object{a=number,b=bool}": cty.Object(map[string]cty.Type{"a": cty.Number, "b": cty.Bool}),
		"tuple[map(number)]":      cty.Tuple([]cty.Type{cty.Map(cty.Number)}), "set(bool)": cty.Set(cty.Bool),
	} {
		out = append(out, bodyCase{"attr:" + name, one, attr(t), false})
	}
	out = append(out,
		bodyCase{"blockattrs:number", func(x string) string { return "blk {\n  k = " + x + "\n}\n" }, &hcldec.BlockAttrsSpec{TypeName: "blk", ElementType: cty.Number}, false},
		bodyCase{"dynamic-for_each", func(x string) string {
			return "dynamic \"blk\" {\n  for_each = " + x + "\n  content {\n    k = blk.value\n    j = blk.key\n  }\n}\n"
		}, &hcldec.BlockListSpec{TypeName: "blk", Nested: hcldec.ObjectSpec{"k": &hcldec.AttrSpec{Name: "k", Type: cty.Number}, "j": &hcldec.AttrSpec{Name: "j", Type: cty.Bool}}}, true},
		bodyCase{"dynamic-labels", func(x string) string {
			return "dynamic \"lb\" {\n  for_each = [1]\n  labels = [" + x + "]\n  content {}\n}\n"
		}, &hcldec.BlockMapSpec{TypeName: "lb", LabelNames: []string{"n"}, Nested: hcldec.ObjectSpec{}}, true},
		bodyCase{"blockmap-key-from-label", func(x string) string { return "lb \"x\" {\n  a = " + x + "\n}\nlb \"x\" {\n  a = 1\n}\n" },
			&hcldec.BlockMapSpec{TypeName: "lb", LabelNames: []string{"n"}, Nested: &hcldec.AttrSpec{Name: "a", Type: cty.Number}}, false},
	)
	return out
}

var cases = bodyCases()

// HandleBodies decodes bodies whose attribute is the E1 expression, under several specs, with canary scopes.
func HandleBodies(c *core.Check, st core.State) {
	v, err := e1.DecodeVector(st)
	if err != nil {
		c.Broken("%v", err)
		return
	}
	c.Count("vectors_replayed", 1)
	x := e1.Render(v.Node, e1.Layout{})
	if strings.Contains(x, "\n") {
		x = "(" + x + ")"
	}
	funcs := e1.Functions()
	for _, bc := range cases {
		src := bc.src(x)
		f, pd := hclsyntax.ParseConfig([]byte(src), "b.hcl", hcl.InitialPos)
		if pd.HasErrors() {
			continue
		}
		files := map[string]*hcl.File{"b.hcl": f}
		for variant := 0; variant < 4; variant++ {
			scope := CanaryScope(variant == 1)
			if variant == 2 {
				scope = PartialScope()
			}
			if variant == 3 {
				scope = RefinedScope()
			}
			ctx := &hcl.EvalContext{Variables: scope, Functions: funcs}
			var ds hcl.Diagnostics
			c.Count("evaluations", 1)
			vec := map[string]any{"state": st.Raw, "source": src, "case": bc.name, "kind": "body"}
			if rec, p := core.Guard(func() {
				body := f.Body
				if bc.dyn {
					body = dynblock.Expand(body, ctx)
				}
				_, ds = hcldec.Decode(body, bc.spec, ctx)
			}); p {
				c.Violation("panic/body/"+bc.name, fmt.Sprintf("decoding %q (%s) with marked scope panicked: %v", src, bc.name, rec), vec)
				return
			}
			if len(ds) == 0 {
				continue
			}
			where, cn, d := CheckDiags(ds, files)
			if where != "" {
				w := where
				if strings.HasPrefix(w, "text-writer") {
					w = "text-writer"
				}
				sig := "leak/body/" + w + "/" + d.Summary
				if w == "text-writer" && d.EvalContext != nil && d.EvalContext.Parent() != nil {
					for _, lv := range d.EvalContext.Variables {
						if !lv.ContainsMarked() && strings.Contains(fmt.Sprintf("%#v", lv), cn) {
							sig = "leak/text-writer/iterator-variable-summary"
						}
					}
				}
				if !c.Violation(sig, fmt.Sprintf("decoding %q (%s, scope variant %d): canary %q appears in the %s of diagnostic %q: %s", src, bc.name, variant, cn, where, d.Summary, d.Detail), vec) {
					return
				}
			}
			c.Nontrivial(bc.name + ":" + x)
		}
	}
}
