// Package c02: native-syntax structure parses to exactly the written attributes and blocks.
package c02

import (
	"fmt"
	"sort"
	"strings"

	"github.com/hashicorp/hcl/v2"
	"github.com/hashicorp/hcl/v2/hclsyntax"

	"verif/harness/core"
	"verif/harness/tla"
)

// labelMeaning maps each label spelling of HclStruct!Spellings to the string it denotes.
var labelMeaning = map[string]string{
	"bare:x": "x", "q:x": "x", `q:\u0078`: "x",
	"q:a b":      "a b",
	`q:a\"b`:     `a"b`,
	`q:a\u0022b`: `a"b`,
	`q:a\nb`:     "a\nb",
	`q:a\u000ab`: "a\nb",
	`q:a\\b`:     `a\b`,
	"q:a$b":      "a$b",
	"q:$":        "$",
	"q:$${a}":    "${a}",
	"q:%%{a}":    "%{a}",
	`q:\u00e9`:   "é", `q:\U000000e9`: "é", "q:UTF8E9": "é",
	`q:a\tb`: "a\tb", `q:a\rb`: "a\rb",
	"bare:for": "for", "bare:null": "null", "q:for": "for",
}

func lexemeText(l string) string {
	switch {
	case l == "BOM":
		return "\xEF\xBB\xBF"
	case strings.HasPrefix(l, "bare:"):
		return l[5:]
	case l == "q:UTF8E9":
		return "\"é\""
	case strings.HasPrefix(l, "q:"):
		return `"` + l[2:] + `"`
	}
	return l
}

type Item struct {
	K      string
	Name   string
	Labels []string // meanings
	Parent int
	ID     int
}

type node struct {
	attrs  []string
	blocks []*bnode
}
type bnode struct {
	typ    string
	labels []string
	body   *node
}

func expectedTree(items []Item) *node {
	root := &node{}
	bodies := map[int]*node{0: root}
	for _, it := range items {
		parent := bodies[it.Parent]
		if it.K == "attr" {
			parent.attrs = append(parent.attrs, it.Name)
		} else {
			b := &bnode{typ: it.Name, labels: it.Labels, body: &node{}}
			parent.blocks = append(parent.blocks, b)
			bodies[it.ID] = b.body
		}
	}
	return root
}

func hasDuplicate(n *node) bool {
	seen := map[string]bool{}
	for _, a := range n.attrs {
		if seen[a] {
			return true
		}
		seen[a] = true
	}
	for _, b := range n.blocks {
		if hasDuplicate(b.body) {
			return true
		}
	}
	return false
}

func compare(want *node, got *hclsyntax.Body, path string) string {
	var gotAttrs []string
	for name, a := range got.Attributes {
		if a.Name != name {
			return fmt.Sprintf("%s: attribute map key %q holds attribute named %q", path, name, a.Name)
		}
		gotAttrs = append(gotAttrs, name)
	}
	sort.Strings(gotAttrs)
	wa := append([]string{}, want.attrs...)
	sort.Strings(wa)
	if fmt.Sprint(gotAttrs) != fmt.Sprint(wa) {
		return fmt.Sprintf("%s: attributes %v, written %v", path, gotAttrs, wa)
	}
	if len(got.Blocks) != len(want.blocks) {
		return fmt.Sprintf("%s: %d blocks, written %d", path, len(got.Blocks), len(want.blocks))
	}
	for i, wb := range want.blocks {
		gb := got.Blocks[i]
		if gb.Type != wb.typ {
			return fmt.Sprintf("%s: block %d has type %q, written %q", path, i, gb.Type, wb.typ)
		}
		if len(gb.Labels) != len(wb.labels) {
			return fmt.Sprintf("%s: block %d has labels %q, written %q", path, i, gb.Labels, wb.labels)
		}
		for j := range wb.labels {
			if gb.Labels[j] != wb.labels[j] {
				return fmt.Sprintf("%s: block %d label %d is %q, written %q", path, i, j, gb.Labels[j], wb.labels[j])
			}
		}
		if m := compare(wb.body, gb.Body, fmt.Sprintf("%s/%s[%d]", path, wb.typ, i)); m != "" {
			return m
		}
	}
	return ""
}

// contentView applies, at every nesting level, the schema that the written body implies (its
// attribute names; its block types with the number of labels written) and compares what
// Body.Content returns with the written tree. A body that uses one block type with different label
// counts has no such schema and is skipped.
func contentView(want *node, body hcl.Body, path string) string {
	schema := &hcl.BodySchema{}
	seenA := map[string]bool{}
	for _, a := range want.attrs {
		if !seenA[a] {
			seenA[a] = true
			schema.Attributes = append(schema.Attributes, hcl.AttributeSchema{Name: a})
		}
	}
	nl := map[string]int{}
	for _, b := range want.blocks {
		if prev, ok := nl[b.typ]; ok {
			if prev != len(b.labels) {
				return ""
			}
			continue
		}
		nl[b.typ] = len(b.labels)
		names := []string{"l1", "l2", "l3", "l4"}[:len(b.labels)]
		schema.Blocks = append(schema.Blocks, hcl.BlockHeaderSchema{Type: b.typ, LabelNames: names})
	}
	content, diags := body.Content(schema)
	if diags.HasErrors() {
		return fmt.Sprintf("%s: Content with the written body's own schema reports: %s", path, diags.Error())
	}
	if len(content.Attributes) != len(seenA) {
		return fmt.Sprintf("%s: Content returns %d attributes, written %d", path, len(content.Attributes), len(seenA))
	}
	for a := range seenA {
		if content.Attributes[a] == nil {
			return fmt.Sprintf("%s: Content lacks attribute %q", path, a)
		}
	}
	if len(content.Blocks) != len(want.blocks) {
		return fmt.Sprintf("%s: Content returns %d blocks, written %d", path, len(content.Blocks), len(want.blocks))
	}
	for i, wb := range want.blocks {
		gb := content.Blocks[i]
		if gb.Type != wb.typ || strings.Join(gb.Labels, "\x00") != strings.Join(wb.labels, "\x00") {
			return fmt.Sprintf("%s: Content block %d is %s %q, written %s %q", path, i, gb.Type, gb.Labels, wb.typ, wb.labels)
		}
		if m := contentView(wb.body, gb.Body, fmt.Sprintf("%s/%s[%d]", path, wb.typ, i)); m != "" {
			return m
		}
	}
	return ""
}

func Handle(c *core.Check, st core.State) {
	if !tla.Bool(st.Vars["closed"]) {
		return
	}
	c.Count("vectors_replayed", 1)
	var sb strings.Builder
	var lex []string
	for _, l := range tla.Seq(st.Vars["out"]) {
		s := tla.Str(l)
		if s == "DROPEOL" {
			cur := sb.String()
			cur = strings.TrimSuffix(cur, "\n")
			cur = strings.TrimSuffix(cur, "\r")
			sb.Reset()
			sb.WriteString(cur)
			continue
		}
		lex = append(lex, s)
		sb.WriteString(lexemeText(s))
	}
	src := sb.String()
	var items []Item
	layoutKinds := map[string]bool{}
	for _, x := range tla.Seq(st.Vars["tree"]) {
		m := tla.Rec(x)
		it := Item{K: tla.Str(m["k"]), Name: tla.Str(m["name"]), Parent: tla.Int(m["parent"]), ID: tla.Int(m["id"])}
		for _, l := range tla.Strs(m["labels"]) {
			mean, ok := labelMeaning[l]
			if !ok {
				c.Broken("label spelling %q has no meaning in the replayer's table", l)
				return
			}
			it.Labels = append(it.Labels, mean)
			layoutKinds[l] = true
		}
		items = append(items, it)
	}
	want := expectedTree(items)
	expectReject := hasDuplicate(want)
	vec := map[string]any{"state": st.Raw, "source": src}
	c.Count("evaluations", 1)
	var f *hcl.File
	var diags hcl.Diagnostics
	if rec, p := core.Guard(func() { f, diags = hclsyntax.ParseConfig([]byte(src), "c.hcl", hcl.InitialPos) }); p {
		c.Violation("panic", fmt.Sprintf("ParseConfig(%q) panicked: %v", src, rec), vec)
		return
	}
	if expectReject {
		if !diags.HasErrors() {
			c.Violation("duplicate-attribute-accepted", fmt.Sprintf("%q defines an attribute twice in one body but parses without error", src), vec)
		}
		c.Count("expect_reject", 1)
		return
	}
	if diags.HasErrors() {
		c.Violation("valid-rejected/"+diags[0].Summary, fmt.Sprintf("%q follows the structural grammar but is rejected: %s", src, diags.Error()), vec)
		return
	}
	if m := compare(want, f.Body.(*hclsyntax.Body), "root"); m != "" {
		c.Violation("structure-differs", fmt.Sprintf("%q: %s", src, m), vec)
		return
	}
	// the schema-driven view (hcl.Body.Content with the schema the written tree implies) exposes the same items
	if m := contentView(want, f.Body, "root"); m != "" {
		c.Violation("content-view-differs", fmt.Sprintf("%q: %s", src, m), vec)
		return
	}
	// the generic hcl.Body view agrees too (JustAttributes on a block-free body)
	if len(want.blocks) == 0 {
		attrs, ad := f.Body.JustAttributes()
		if ad.HasErrors() || len(attrs) != len(want.attrs) {
			c.Violation("justattributes-differs", fmt.Sprintf("%q: JustAttributes gives %d attributes (errors: %v), written %d", src, len(attrs), ad.HasErrors(), len(want.attrs)), vec)
			return
		}
	}
	if len(items) > 0 {
		c.Nontrivial(src)
		if tla.Int(st.Vars["cost"]) > 0 && len(items) >= 2 {
			c.Sample(map[string]any{"source": src})
		}
	}
}

// Source assembles the file text written by an MC_C02 state.
func Source(st core.State) string {
	var sb strings.Builder
	for _, l := range tla.Seq(st.Vars["out"]) {
		s := tla.Str(l)
		if s == "DROPEOL" {
			cur := sb.String()
			cur = strings.TrimSuffix(cur, "\n")
			cur = strings.TrimSuffix(cur, "\r")
			sb.Reset()
			sb.WriteString(cur)
			continue
		}
		sb.WriteString(lexemeText(s))
	}
	return sb.String()
}
