// Package c09: formatting changes only inter-token spacing and is idempotent.
package c09

import (
	"bytes"
	"fmt"
	"sort"
	"strings"

	"github.com/hashicorp/hcl/v2"
	"github.com/hashicorp/hcl/v2/hclsyntax"
	"github.com/hashicorp/hcl/v2/hclwrite"
	"github.com/zclconf/go-cty/cty"

	"verif/harness/core"
	"verif/harness/e1"
)

// Brief selects the reduced set of configurations per expression (quick tier).
var Brief bool

type tok struct {
	T hclsyntax.TokenType
	B string
}

func Lex(src []byte) ([]tok, bool) {
	ts, diags := hclsyntax.LexConfig(src, "x.hcl", hcl.InitialPos)
	out := make([]tok, 0, len(ts))
	for _, t := range ts {
		out = append(out, tok{t.Type, string(t.Bytes)})
	}
	return out, !diags.HasErrors()
}

// firstDiff returns a signature fragment naming the source tokens around the first difference.
func firstDiff(a, b []tok) string {
	i := 0
	for i < len(a) && i < len(b) && a[i] == b[i] {
		i++
	}
	lo, hi := i, i+2
	if hi >= len(a) {
		hi = len(a) - 1
	}
	var parts []string
	for j := lo; j <= hi && j >= 0 && j < len(a); j++ {
		parts = append(parts, a[j].T.String())
	}
	return strings.Join(parts, "·")
}

// evalAll evaluates every attribute (recursively) in the E1 context.
func evalAll(b *hclsyntax.Body, path string, into map[string]string) {
	names := make([]string, 0, len(b.Attributes))
	for n := range b.Attributes {
		names = append(names, n)
	}
	sort.Strings(names)
	for _, n := range names {
		var v cty.Value
		var d hcl.Diagnostics
		if _, p := core.Guard(func() { v, d = b.Attributes[n].Expr.Value(e1.Ctx()) }); p {
			into[path+"/"+n] = "<panic>"
			continue
		}
		into[path+"/"+n] = fmt.Sprintf("%s err=%v", e1.Describe(v), d.HasErrors())
	}
	for i, bl := range b.Blocks {
		evalAll(bl.Body, fmt.Sprintf("%s/%s%q[%d]", path, bl.Type, bl.Labels, i), into)
	}
}

// CheckSource applies the C09 relation to one configuration text. fam is a signature component.
// Returns false if the source is not an error-free configuration (outside the statement).
func CheckSource(c *core.Check, src string, vec map[string]any) bool {
	f0, d0 := hclsyntax.ParseConfig([]byte(src), "x.hcl", hcl.InitialPos)
	if d0.HasErrors() {
		return false
	}
	c.Count("evaluations", 1)
	var out []byte
	if rec, p := core.Guard(func() { out = hclwrite.Format([]byte(src)) }); p {
		c.Violation("panic/Format", fmt.Sprintf("Format(%q) panicked: %v", src, rec), vec)
		return true
	}
	t0, _ := Lex([]byte(src))
	t1, _ := Lex(out)
	same := len(t0) == len(t1)
	if same {
		for i := range t0 {
			if t0[i] != t1[i] {
				same = false
				break
			}
		}
	}
	if !same {
		c.Violation("tokens-changed/"+firstDiff(t0, t1), fmt.Sprintf("Format(%q) = %q changes the token sequence", src, out), vec)
		return true
	}
	f1, d1 := hclsyntax.ParseConfig(out, "x.hcl", hcl.InitialPos)
	if d1.HasErrors() {
		c.Violation("formatted-does-not-parse/"+d1[0].Summary, fmt.Sprintf("Format(%q) = %q no longer parses: %s", src, out, d1.Error()), vec)
		return true
	}
	v0, v1 := map[string]string{}, map[string]string{}
	evalAll(f0.Body.(*hclsyntax.Body), "", v0)
	evalAll(f1.Body.(*hclsyntax.Body), "", v1)
	if fmt.Sprint(v0) != fmt.Sprint(v1) {
		c.Violation("values-changed", fmt.Sprintf("Format(%q) = %q changes the configuration: %v vs %v", src, out, v0, v1), vec)
		return true
	}
	var out2 []byte
	if rec, p := core.Guard(func() { out2 = hclwrite.Format(out) }); p {
		c.Violation("panic/Format", fmt.Sprintf("Format(%q) panicked: %v", out, rec), vec)
		return true
	}
	if !bytes.Equal(out, out2) {
		c.Violation("not-idempotent", fmt.Sprintf("Format is not idempotent on %q: first %q, second %q", src, out, out2), vec)
		return true
	}
	return true
}

// Configs embeds an E1 expression into configuration texts.
func hasHeredoc(n *e1.Node) bool {
	if n.K == "tpl" && (n.S == "h" || n.S == "hf") {
		return true
	}
	for _, s := range n.Sub {
		if hasHeredoc(s) {
			return true
		}
	}
	return false
}

func Configs(n *e1.Node) []string {
	if hasHeredoc(n) {
		x := e1.Render(n, e1.Layout{})
		if !(n.K == "tpl" && (n.S == "h" || n.S == "hf")) {
			// the newline after a closing heredoc marker would end the attribute: inside
			// parentheses newlines are insignificant
			x = "(" + x + ")"
		}
		if !strings.HasSuffix(x, "\n") {
			x += "\n"
		}
		out := []string{"a = " + x + "b = 1\n", "blk \"l\" {\n    a   =   " + x + "  b = 2 # c\n}\n"}
		// the heredoc on a line of its own inside brackets, newlines inside its template sequences
		// (mode 2) and after the item separators of constructors inside them (mode 8)
		for _, mode := range []int{2, 8} {
			out = append(out, "a = "+e1.Render(n, e1.Layout{Mode: mode})+"\nb = 1\n")
		}
		return out
	}
	if Brief {
		return []string{"a = " + e1.Render(n, e1.Layout{Mode: 0}) + "\n",
			"blk \"l\" {\n  # lead\n  a   =   " + e1.Render(n, e1.Layout{Mode: 4}) + " # trailing\n      bb = [\n1,\n  2]\n}\n"}
	}
	var out []string
	for _, mode := range []int{0, 1, 3, 4, 5, 6, 7} {
		x := e1.Render(n, e1.Layout{Mode: mode})
		if strings.Contains(x, "\n") && mode != 5 && mode != 6 {
			continue
		}
		out = append(out, "a = "+x+"\n")
		if mode == 0 || mode == 4 {
			out = append(out, "blk \"l\" {\n  # lead\n  a   =   "+x+" # trailing\n      bb = [\n1,\n  2]\n}\n")
		}
	}
	x2 := e1.Render(n, e1.Layout{Mode: 2})
	out = append(out, "a = "+x2+"\nb = 1\n")
	return out
}

func HandleE1(c *core.Check, st core.State) {
	v, err := e1.DecodeVector(st)
	if err != nil {
		c.Broken("%v", err)
		return
	}
	c.Count("vectors_replayed", 1)
	ok := false
	for _, src := range Configs(v.Node) {
		vec := map[string]any{"state": st.Raw, "source": src, "kind": "e1"}
		if CheckSource(c, src, vec) {
			ok = true
		} else {
			c.Broken("generated configuration does not parse (C01 owns this): %q", src)
			return
		}
	}
	if ok {
		c.Nontrivial(e1.Render(v.Node, e1.Layout{}))
		if v.Last != "leaf" {
			c.Sample(map[string]any{"source": Configs(v.Node)[len(Configs(v.Node))-2], "formatted": string(hclwrite.Format([]byte(Configs(v.Node)[len(Configs(v.Node))-2])))})
		}
	}
}
