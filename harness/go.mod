module verif/harness

go 1.24.0

require (
	github.com/apparentlymart/go-textseg/v15 v15.0.0
	github.com/hashicorp/hcl/v2 v2.0.0
	github.com/zclconf/go-cty v1.16.3
	golang.org/x/text v0.31.0
	pgregory.net/rapid v1.3.0
)

require (
	github.com/agext/levenshtein v1.2.1 // indirect
	github.com/google/go-cmp v0.6.0 // indirect
	github.com/mitchellh/go-wordwrap v1.0.1 // indirect
)

replace github.com/hashicorp/hcl/v2 => /repo
