package c20

import (
	"github.com/zclconf/go-cty/cty"
	"github.com/zclconf/go-cty/cty/convert"
)

func convertToString(v cty.Value) (string, error) {
	v, _ = v.Unmark()
	s, err := convert.Convert(v, cty.String)
	if err != nil {
		return "", err
	}
	return s.AsString(), nil
}

func convertTo(v cty.Value, t cty.Type) (cty.Value, error) { return convert.Convert(v, t) }
