// Package c20: static analysis of an expression agrees with its evaluation and round-trips.
package c20

import (
	"encoding/json"
	"fmt"
	"strings"

	"github.com/hashicorp/hcl/v2"
	"github.com/hashicorp/hcl/v2/ext/typeexpr"
	"github.com/hashicorp/hcl/v2/hclsyntax"
	hcljson "github.com/hashicorp/hcl/v2/json"
	"github.com/zclconf/go-cty/cty"

	"verif/harness/core"
	"verif/harness/e1"
	"verif/harness/tla"
)

func travEqual(a, b hcl.Traversal) string {
	if len(a) != len(b) {
		return fmt.Sprintf("lengths %d vs %d", len(a), len(b))
	}
	for i := range a {
		switch x := a[i].(type) {
		case hcl.TraverseRoot:
			y, ok := b[i].(hcl.TraverseRoot)
			if !ok || x.Name != y.Name {
				return fmt.Sprintf("step %d: %#v vs %#v", i, a[i], b[i])
			}
		case hcl.TraverseAttr:
			y, ok := b[i].(hcl.TraverseAttr)
			if !ok || x.Name != y.Name {
				return fmt.Sprintf("step %d: %#v vs %#v", i, a[i], b[i])
			}
		case hcl.TraverseIndex:
			y, ok := b[i].(hcl.TraverseIndex)
			if !ok || !x.Key.RawEquals(y.Key) {
				return fmt.Sprintf("step %d: %#v vs %#v", i, a[i], b[i])
			}
		case hcl.TraverseSplat:
			if _, ok := b[i].(hcl.TraverseSplat); !ok {
				return fmt.Sprintf("step %d: splat vs %#v", i, b[i])
			}
		default:
			return fmt.Sprintf("step %d: unknown kind %T", i, a[i])
		}
	}
	return ""
}

// StaticVsEval checks, for any parsed expression, the static views against evaluation.
func StaticVsEval(c *core.Check, src string, expr hclsyntax.Expression, fam string, vec map[string]any) bool {
	ctx := e1.Ctx()
	val, vdiags := expr.Value(ctx)
	// (a) traversal view
	trav, tdiags := hcl.AbsTraversalForExpr(expr)
	isKeyword := false
	if kw := hcl.ExprAsKeyword(expr); kw == "true" || kw == "false" || kw == "null" {
		isKeyword = true // the keywords' static view is their text (stated exception)
	}
	if !tdiags.HasErrors() && !isKeyword {
		c.Count("static_traversals", 1)
		tv, td := trav.TraverseAbs(ctx)
		if td.HasErrors() != vdiags.HasErrors() {
			c.Violation("traversal-vs-eval/errorness/"+fam, fmt.Sprintf("%q: static traversal errors=%v, evaluation errors=%v", src, td.HasErrors(), vdiags.HasErrors()), vec)
			return false
		}
		if !td.HasErrors() && !tv.RawEquals(val) {
			c.Violation("traversal-vs-eval/value/"+fam, fmt.Sprintf("%q: static traversal gives %s, evaluation gives %s", src, e1.Describe(tv), e1.Describe(val)), vec)
			return false
		}
	}
	// (b) stand-alone traversal parser vs expression parser
	pt, pdiags := hclsyntax.ParseTraversalAbs([]byte(src), "t.hcl", hcl.InitialPos)
	if !pdiags.HasErrors() {
		c.Count("standalone_traversals", 1)
		if tdiags.HasErrors() {
			c.Violation("standalone-accepts-nontraversal/"+fam, fmt.Sprintf("%q is accepted by ParseTraversalAbs but the expression parser's view is not a traversal", src), vec)
			return false
		}
		if m := travEqual(pt, trav); m != "" {
			c.Violation("standalone-vs-expr-traversal/"+fam, fmt.Sprintf("%q: ParseTraversalAbs and AbsTraversalForExpr differ: %s", src, m), vec)
			return false
		}
	}
	// (c) static list / map / call
	if els, ld := hcl.ExprList(expr); !ld.HasErrors() && !vdiags.HasErrors() && val.IsKnown() && !val.IsNull() && val.Type().IsTupleType() {
		c.Count("static_lists", 1)
		if len(els) != val.LengthInt() {
			c.Violation("exprlist/length/"+fam, fmt.Sprintf("%q: ExprList has %d parts, value has %d elements", src, len(els), val.LengthInt()), vec)
			return false
		}
		for i, el := range els {
			ev, ed := el.Value(ctx)
			if ed.HasErrors() || !ev.RawEquals(val.Index(cty.NumberIntVal(int64(i)))) {
				c.Violation("exprlist/element/"+fam, fmt.Sprintf("%q: ExprList part %d evaluates to %s, element is %s", src, i, e1.Describe(ev), e1.Describe(val.Index(cty.NumberIntVal(int64(i))))), vec)
				return false
			}
		}
	}
	if pairs, md := hcl.ExprMap(expr); !md.HasErrors() && !vdiags.HasErrors() && val.IsKnown() && !val.IsNull() && val.Type().IsObjectType() {
		c.Count("static_maps", 1)
		want := map[string]cty.Value{}
		okAll := true
		for _, p := range pairs {
			kv, kd := p.Key.Value(ctx)
			vv, vd := p.Value.Value(ctx)
			if kd.HasErrors() || vd.HasErrors() || kv.IsNull() || !kv.IsKnown() {
				okAll = false
				break
			}
			ks, err := convertToString(kv)
			if err != nil {
				okAll = false
				break
			}
			want[ks] = vv
		}
		if okAll {
			got := val.AsValueMap()
			if len(got) != len(want) {
				c.Violation("exprmap/size/"+fam, fmt.Sprintf("%q: ExprMap gives %d distinct keys, value has %d attributes", src, len(want), len(got)), vec)
				return false
			}
			for k, wv := range want {
				if gv, ok := got[k]; !ok || !gv.RawEquals(wv) {
					c.Violation("exprmap/entry/"+fam, fmt.Sprintf("%q: ExprMap entry %q evaluates to %s, attribute is %s", src, k, e1.Describe(wv), e1.Describe(gv)), vec)
					return false
				}
			}
		}
	}
	if call, cd := hcl.ExprCall(expr); !cd.HasErrors() {
		c.Count("static_calls", 1)
		fce, isCall := expr.(*hclsyntax.FunctionCallExpr)
		if isCall {
			if call.Name != fce.Name || len(call.Arguments) != len(fce.Args) {
				c.Violation("exprcall/shape/"+fam, fmt.Sprintf("%q: ExprCall name/arity %s/%d differ from the call %s/%d", src, call.Name, len(call.Arguments), fce.Name, len(fce.Args)), vec)
				return false
			}
			if f, ok := e1.Functions()[call.Name]; ok && !fce.ExpandFinal && !vdiags.HasErrors() {
				args := make([]cty.Value, len(call.Arguments))
				good := true
				for i, a := range call.Arguments {
					av, ad := a.Value(ctx)
					if ad.HasErrors() {
						good = false
					}
					args[i] = av
				}
				if good {
					params := f.Params()
					for i := range args {
						var pt cty.Type
						if i < len(params) {
							pt = params[i].Type
						} else if vp := f.VarParam(); vp != nil {
							pt = vp.Type
						}
						if pt != cty.NilType {
							if cv, err := convertTo(args[i], pt); err == nil {
								args[i] = cv
							}
						}
					}
					rv, err := f.Call(args)
					if err == nil && !rv.RawEquals(val) {
						c.Violation("exprcall/args/"+fam, fmt.Sprintf("%q: calling %s with the static arguments gives %s, evaluation gives %s", src, call.Name, e1.Describe(rv), e1.Describe(val)), vec)
						return false
					}
				}
			}
		}
	}
	// (d) the static views are views: asking for one of them (in particular the RELATIVE traversal,
	// which is derived from the absolute one) must not change what the same expression object
	// answers afterwards, statically or when evaluated
	if !tdiags.HasErrors() {
		snap := append(hcl.Traversal(nil), trav...) // the returned slice may be the expression's own
		var trav2 hcl.Traversal
		var t2d, v2d hcl.Diagnostics
		var val2 cty.Value
		rec, panicked := core.Guard(func() {
			rel, rd := hcl.RelTraversalForExpr(expr)
			if !rd.HasErrors() && len(rel) != len(snap) {
				c.Violation("static-view-unstable/rel-length/"+fam, fmt.Sprintf("%q: RelTraversalForExpr has %d steps, AbsTraversalForExpr %d", src, len(rel), len(trav)), vec)
			}
			trav2, t2d = hcl.AbsTraversalForExpr(expr)
			val2, v2d = expr.Value(ctx)
		})
		if panicked {
			c.Violation("static-view-unstable/panic/"+fam, fmt.Sprintf("%q: after RelTraversalForExpr, asking the same expression again panics: %v", src, rec), vec)
			return false
		}
		c.Count("static_view_stability", 1)
		if t2d.HasErrors() {
			c.Violation("static-view-unstable/abs-after-rel/"+fam, fmt.Sprintf("%q: AbsTraversalForExpr fails after RelTraversalForExpr was called on the same expression: %s", src, t2d.Error()), vec)
			return false
		}
		if m := travEqual(snap, trav2); m != "" || snap.IsRelative() != trav2.IsRelative() {
			c.Violation("static-view-unstable/abs-after-rel/"+fam, fmt.Sprintf("%q: AbsTraversalForExpr answers differently after RelTraversalForExpr was called on the same expression: %s (relative: %v then %v)", src, m, snap.IsRelative(), trav2.IsRelative()), vec)
			return false
		}
		if v2d.HasErrors() != vdiags.HasErrors() || (!v2d.HasErrors() && !val2.RawEquals(val)) {
			c.Violation("static-view-unstable/value-after-rel/"+fam, fmt.Sprintf("%q: evaluates to %s (errors=%v) before and %s (errors=%v) after its static views were requested", src, e1.Describe(val), vdiags.HasErrors(), e1.Describe(val2), v2d.HasErrors()), vec)
			return false
		}
	}
	return true
}

// HandleE1 applies the static-vs-eval relation to an MC_E1 vector.
func HandleE1(c *core.Check, st core.State) {
	v, err := e1.DecodeVector(st)
	if err != nil {
		c.Broken("%v", err)
		return
	}
	c.Count("vectors_replayed", 1)
	src := e1.Render(v.Node, e1.Layout{})
	vec := map[string]any{"state": st.Raw, "source": src, "kind": "e1"}
	expr, diags := hclsyntax.ParseExpression([]byte(src), "e.hcl", hcl.InitialPos)
	if diags.HasErrors() {
		c.Broken("generated expression does not parse (C01 owns this): %q: %s", src, diags.Error())
		return
	}
	c.Count("evaluations", 1)
	if rec, p := core.Guard(func() { StaticVsEval(c, src, expr, e1.Fam(v.Node), vec) }); p {
		c.Violation("panic/"+e1.Fam(v.Node), fmt.Sprintf("static analysis of %q panicked: %v", src, rec), vec)
		return
	}
	if strings.Contains(src, "\n") {
		return
	}
	// the JSON syntax: the expression as a template string, tuples as arrays, objects as objects
	if rec, p := core.Guard(func() { jsonStatic(c, v.Node, src, expr, vec) }); p {
		c.Violation("panic/json/"+e1.Fam(v.Node), fmt.Sprintf("static analysis of the JSON form of %q panicked: %v", src, rec), vec)
	}
}

func jsonStatic(c *core.Check, n *e1.Node, src string, native hclsyntax.Expression, vec map[string]any) {
	ctx := e1.Ctx()
	fam := e1.Fam(n)
	// json/spec.md "Static Call" / "Static Traversal": the string's content is a native expression
	// (not a template)
	js, _ := json.Marshal(src)
	jexpr, jd := hcljson.ParseExpression(js, "e.json")
	if jd.HasErrors() {
		return
	}
	// static traversal and static call views agree between the syntaxes
	nt, ntd := hcl.AbsTraversalForExpr(native)
	jt, jtd := hcl.AbsTraversalForExpr(jexpr)
	if ntd.HasErrors() != jtd.HasErrors() {
		kw := hcl.ExprAsKeyword(native)
		// the JSON syntax delegates to the stand-alone traversal grammar (no legacy index, no bool/null keys)
		_, sd := hclsyntax.ParseTraversalAbs([]byte(src), "t.hcl", hcl.InitialPos)
		if !(kw == "true" || kw == "false" || kw == "null") && !sd.HasErrors() {
			c.Violation("json-vs-native/traversal-existence/"+fam, fmt.Sprintf("%q: static traversal exists natively=%v, for the JSON string %s=%v", src, !ntd.HasErrors(), js, !jtd.HasErrors()), vec)
			return
		}
	} else if !ntd.HasErrors() {
		if m := travEqual(nt, jt); m != "" {
			c.Violation("json-vs-native/traversal/"+fam, fmt.Sprintf("%q vs %s: static traversals differ: %s", src, js, m), vec)
			return
		}
	}
	ncall, ncd := hcl.ExprCall(native)
	jcall, jcd := hcl.ExprCall(jexpr)
	if ncd.HasErrors() != jcd.HasErrors() {
		c.Violation("json-vs-native/call-existence/"+fam, fmt.Sprintf("%q: static call exists natively=%v, for the JSON string %s=%v", src, !ncd.HasErrors(), js, !jcd.HasErrors()), vec)
		return
	}
	if !ncd.HasErrors() && (ncall.Name != jcall.Name || len(ncall.Arguments) != len(jcall.Arguments)) {
		c.Violation("json-vs-native/call/"+fam, fmt.Sprintf("%q vs %s: static calls differ (%s/%d vs %s/%d)", src, js, ncall.Name, len(ncall.Arguments), jcall.Name, len(jcall.Arguments)), vec)
		return
	}
	// a JSON array is a static list whose parts evaluate to the elements of the whole; a JSON object a static map
	inner := n
	for inner.K == "paren" {
		inner = inner.Sub[0]
	}
	if inner.K == "tuple" {
		var parts []string
		for _, el := range inner.Sub {
			b, _ := json.Marshal("${" + e1.Render(el, e1.Layout{}) + "}")
			parts = append(parts, string(b))
		}
		arr := "[" + strings.Join(parts, ", ") + "]"
		aexpr, ad := hcljson.ParseExpression([]byte(arr), "a.json")
		if ad.HasErrors() {
			return
		}
		whole, wd := aexpr.Value(ctx)
		els, ld := hcl.ExprList(aexpr)
		if ld.HasErrors() {
			c.Violation("json/exprlist-missing/"+fam, fmt.Sprintf("JSON array %s has no static list view", arr), vec)
			return
		}
		if !wd.HasErrors() && whole.Type().IsTupleType() {
			if len(els) != whole.LengthInt() {
				c.Violation("json/exprlist-length/"+fam, fmt.Sprintf("JSON array %s: ExprList has %d parts, value has %d elements", arr, len(els), whole.LengthInt()), vec)
				return
			}
			for i, el := range els {
				ev, ed := el.Value(ctx)
				if ed.HasErrors() || !ev.RawEquals(whole.Index(cty.NumberIntVal(int64(i)))) {
					c.Violation("json/exprlist-element/"+fam, fmt.Sprintf("JSON array %s: static part %d evaluates to %s, element is %s", arr, i, e1.Describe(ev), e1.Describe(whole.Index(cty.NumberIntVal(int64(i))))), vec)
					return
				}
			}
		}
	}
	if inner.K == "object" {
		var props []string
		for i := 0; i+1 < len(inner.Sub); i += 2 {
			k := inner.Sub[i]
			var kb []byte
			if k.K == "keyid" {
				kb, _ = json.Marshal(k.S)
			} else {
				kb, _ = json.Marshal("${" + e1.Render(k, e1.Layout{}) + "}")
			}
			vb, _ := json.Marshal("${" + e1.Render(inner.Sub[i+1], e1.Layout{}) + "}")
			props = append(props, string(kb)+": "+string(vb))
		}
		obj := "{" + strings.Join(props, ", ") + "}"
		oexpr, od := hcljson.ParseExpression([]byte(obj), "o.json")
		if od.HasErrors() {
			return
		}
		whole, wd := oexpr.Value(ctx)
		pairs, md := hcl.ExprMap(oexpr)
		if md.HasErrors() {
			c.Violation("json/exprmap-missing/"+fam, fmt.Sprintf("JSON object %s has no static map view", obj), vec)
			return
		}
		if !wd.HasErrors() && whole.IsKnown() && !whole.IsNull() && whole.Type().IsObjectType() {
			want := map[string]cty.Value{}
			for _, p := range pairs {
				kv, kd := p.Key.Value(ctx)
				vv, vd := p.Value.Value(ctx)
				if kd.HasErrors() || vd.HasErrors() || kv.IsNull() || !kv.IsKnown() {
					return
				}
				ks, err := convertToString(kv)
				if err != nil {
					return
				}
				want[ks] = vv
			}
			got := whole.AsValueMap()
			if len(got) != len(want) {
				c.Violation("json/exprmap-size/"+fam, fmt.Sprintf("JSON object %s: static map has %d distinct keys, value has %d attributes", obj, len(want), len(got)), vec)
				return
			}
			for k, wv := range want {
				if gv, ok := got[k]; !ok || !gv.RawEquals(wv) {
					c.Violation("json/exprmap-entry/"+fam, fmt.Sprintf("JSON object %s: static entry %q evaluates to %s, attribute is %s", obj, k, e1.Describe(wv), e1.Describe(gv)), vec)
					return
				}
			}
		}
	}
}

// Handle processes an MC_C20 vector (traversal or type).
func Handle(c *core.Check, st core.State) {
	mode := tla.Str(st.Vars["mode"])
	c.Count("vectors_replayed", 1)
	if mode == "trav" {
		handleTrav(c, st)
		return
	}
	handleType(c, st)
}

func stepText(m map[string]any, sep string) string {
	switch tla.Str(m["k"]) {
	case "attr":
		return sep + "." + tla.Str(m["s"])
	case "idxs":
		return sep + `["` + tla.Str(m["s"]) + `"]`
	case "idxn":
		return sep + "[" + fmt.Sprint(tla.Int(m["n"])/2) + "]"
	case "legacy":
		return sep + "." + fmt.Sprint(tla.Int(m["n"])/2)
	}
	panic("bad step")
}

func handleTrav(c *core.Check, st core.State) {
	root := tla.Str(st.Vars["root"])
	steps := tla.Seq(st.Vars["steps"])
	pred := tla.Rec(st.Vars["pred"])
	predErr := tla.Bool(pred["err"])
	predVal, predOK := e1.DecodeValue(pred["v"])
	predOom := tla.Str(tla.Rec(pred["v"])["k"]) == "oom"
	// two legacy steps in a row: the text is outside the grammar of both parsers; only the
	// implication "the stand-alone parser accepts => the expression parser accepts the same traversal"
	for i := 1; i < len(steps); i++ {
		if tla.Str(tla.Rec(steps[i])["k"]) == "legacy" && tla.Str(tla.Rec(steps[i-1])["k"]) == "legacy" {
			raw := root
			for _, s := range steps {
				raw += stepText(tla.Rec(s), "")
			}
			vec := map[string]any{"state": st.Raw, "source": raw, "kind": "trav"}
			c.Count("evaluations", 1)
			pt, pd := hclsyntax.ParseTraversalAbs([]byte(raw), "t.hcl", hcl.InitialPos)
			if pd.HasErrors() {
				return
			}
			expr, ed := hclsyntax.ParseExpression([]byte(raw), "e.hcl", hcl.InitialPos)
			if ed.HasErrors() {
				c.Violation("standalone-accepts-rejected-text", fmt.Sprintf("%q is accepted by ParseTraversalAbs (as %d steps) but rejected by the expression parser: %s", raw, len(pt), ed.Error()), vec)
				return
			}
			et, td := hcl.AbsTraversalForExpr(expr)
			if td.HasErrors() {
				c.Violation("standalone-accepts-nontraversal/chained-legacy", fmt.Sprintf("%q is accepted by ParseTraversalAbs but is not a traversal for the expression parser", raw), vec)
				return
			}
			if m := travEqual(pt, et); m != "" {
				c.Violation("standalone-vs-expr-traversal/chained-legacy", fmt.Sprintf("%q: ParseTraversalAbs and AbsTraversalForExpr differ: %s", raw, m), vec)
			}
			return
		}
	}
	for layout := 0; layout < 3; layout++ {
		src := root
		for _, s := range steps {
			sep := ""
			if layout == 2 {
				sep = "\n  "
			}
			src += stepText(tla.Rec(s), sep)
		}
		text := src
		if layout == 1 {
			text = "(" + src + ")"
		}
		if layout == 2 {
			if len(steps) == 0 {
				continue
			}
			text = "[\n" + src + "\n]"
		}
		vec := map[string]any{"state": st.Raw, "source": text, "kind": "trav"}
		c.Count("evaluations", 1)
		expr, diags := hclsyntax.ParseExpression([]byte(text), "e.hcl", hcl.InitialPos)
		if diags.HasErrors() {
			c.Violation("parse-rejects-traversal", fmt.Sprintf("traversal %q is rejected by the expression parser: %s", text, diags.Error()), vec)
			return
		}
		if layout == 2 {
			// newlines between steps need an enclosing bracket: take the static list's only element
			els, ld := hcl.ExprList(expr)
			if ld.HasErrors() || len(els) != 1 {
				c.Violation("exprlist/bracketed-traversal", fmt.Sprintf("%q: ExprList does not give the single element", text), vec)
				return
			}
			expr = els[0].(hclsyntax.Expression)
		}
		// model conformance (C01's relation, restated for the deeper traversal shapes)
		val, vd := expr.Value(e1.Ctx())
		if !predOom {
			if vd.HasErrors() != predErr {
				c.Violation(fmt.Sprintf("eval-vs-spec/errorness/spec=%v", predErr), fmt.Sprintf("%q: specification error=%v, implementation error=%v", text, predErr, vd.HasErrors()), vec)
				return
			}
			if !predErr && predOK && !val.RawEquals(predVal) {
				c.Violation("eval-vs-spec/value", fmt.Sprintf("%q: specification value %s, implementation %s", text, e1.Describe(predVal), e1.Describe(val)), vec)
				return
			}
		}
		ok := true
		stext := text
		if layout == 2 {
			stext = src
		}
		if rec, p := core.Guard(func() { ok = StaticVsEval(c, stext, expr, "traversal", vec) }); p {
			c.Violation("panic/traversal", fmt.Sprintf("static analysis of %q panicked: %v", text, rec), vec)
			return
		}
		if !ok {
			return
		}
		// the static view must exist for every unparenthesised pure traversal shape
		if _, td := hcl.AbsTraversalForExpr(expr); td.HasErrors() && layout != 1 {
			c.Violation("no-static-view/traversal", fmt.Sprintf("%q is a pure traversal but AbsTraversalForExpr rejects it", text), vec)
			return
		}
		// on the stand-alone grammar's domain (attribute, string and number index steps) both parsers agree on acceptance
		if layout == 0 {
			inDomain := true
			for _, s := range steps {
				if tla.Str(tla.Rec(s)["k"]) == "legacy" {
					inDomain = false
				}
			}
			if _, pd := hclsyntax.ParseTraversalAbs([]byte(src), "t.hcl", hcl.InitialPos); pd.HasErrors() && inDomain {
				c.Violation("standalone-rejects-traversal", fmt.Sprintf("%q is in the stand-alone traversal grammar but ParseTraversalAbs rejects it: %s", src, pd.Error()), vec)
				return
			}
		}
		// JSON syntax: the same traversal as a template string
		if layout == 0 {
			js, _ := json.Marshal("${" + src + "}")
			jexpr, jd := hcljson.ParseExpression(js, "e.json")
			if !jd.HasErrors() {
				jt, jtd := hcl.AbsTraversalForExpr(jexpr)
				nt, _ := hcl.AbsTraversalForExpr(expr)
				if !jtd.HasErrors() {
					if m := travEqual(jt, nt); m != "" {
						c.Violation("json-vs-native-traversal", fmt.Sprintf("%s: JSON and native static traversals differ: %s", js, m), vec)
						return
					}
					jv, jvd := jexpr.Value(e1.Ctx())
					tv, tvd := jt.TraverseAbs(e1.Ctx())
					if jvd.HasErrors() != tvd.HasErrors() || (!jvd.HasErrors() && !jv.RawEquals(tv)) {
						c.Violation("json-traversal-vs-eval", fmt.Sprintf("%s: static traversal and evaluation differ: %s vs %s", js, e1.Describe(tv), e1.Describe(jv)), vec)
						return
					}
				}
			}
		}
		if layout == 0 {
			c.Nontrivial(src)
			if len(steps) >= 2 {
				c.Sample(map[string]any{"traversal": src, "spec_error": predErr})
			}
		}
	}
}

func handleType(c *core.Check, st core.State) {
	ty, ok := e1.DecodeType(st.Vars["ty"])
	if !ok {
		c.Broken("type vector undecodable")
		return
	}
	vec := map[string]any{"state": st.Raw, "kind": "type"}
	var text string
	if rec, p := core.Guard(func() { text = typeexpr.TypeString(ty) }); p {
		c.Violation("panic/TypeString", fmt.Sprintf("TypeString(%#v) panicked: %v", ty, rec), vec)
		return
	}
	vec["source"] = text
	c.Count("evaluations", 1)
	check := func(syntax string, expr hcl.Expression, diags hcl.Diagnostics) bool {
		if diags.HasErrors() {
			c.Violation("type-roundtrip/"+syntax+"/parse/"+diags[0].Summary, fmt.Sprintf("TypeString(%s) = %q does not parse (%s): %s", ty.FriendlyName(), text, syntax, diags.Error()), vec)
			return false
		}
		var got cty.Type
		var td hcl.Diagnostics
		if rec, p := core.Guard(func() { got, td = typeexpr.TypeConstraint(expr) }); p {
			c.Violation("panic/TypeConstraint", fmt.Sprintf("TypeConstraint(%q) panicked: %v", text, rec), vec)
			return false
		}
		if td.HasErrors() {
			c.Violation("type-roundtrip/"+syntax+"/constraint", fmt.Sprintf("TypeString(%s) = %q is not accepted as a type constraint (%s): %s", ty.FriendlyName(), text, syntax, td.Error()), vec)
			return false
		}
		if !got.Equals(ty) {
			c.Violation("type-roundtrip/"+syntax+"/different", fmt.Sprintf("TypeString(%#v) = %q reads back as %#v (%s)", ty, text, got, syntax), vec)
			return false
		}
		return true
	}
	ne, nd := hclsyntax.ParseExpression([]byte(text), "t.hcl", hcl.InitialPos)
	if !check("native", ne, nd) {
		return
	}
	js, _ := json.Marshal(text)
	je, jd := hcljson.ParseExpression(js, "t.json")
	if !check("json", je, jd) {
		return
	}
	c.Nontrivial(text)
	if strings.Count(text, "(") >= 2 {
		c.Sample(map[string]any{"type": text})
	}
}
