// Package c03: native and JSON syntaxes denote the same configuration.
package c03

import (
	"fmt"
	"sort"
	"strings"

	"github.com/hashicorp/hcl/v2"
	"github.com/hashicorp/hcl/v2/hcldec"
	"github.com/hashicorp/hcl/v2/hclsyntax"
	hcljson "github.com/hashicorp/hcl/v2/json"
	"github.com/zclconf/go-cty/cty"

	"verif/harness/core"
	"verif/harness/dec"
	"verif/harness/e1"
	"verif/harness/tla"
)

// projection of Body.Content under the spec's implied schema
func project(body hcl.Body, schema *hcl.BodySchema) (string, bool) {
	content, diags := body.Content(schema)
	var attrs []string
	for name, a := range content.Attributes {
		v, d := a.Expr.Value(dec.Ctx())
		if d.HasErrors() {
			attrs = append(attrs, name+"=<err>")
		} else {
			attrs = append(attrs, name+"="+e1.Describe(v))
		}
	}
	sort.Strings(attrs)
	perType := map[string][]string{}
	var types []string
	for _, b := range content.Blocks {
		if _, ok := perType[b.Type]; !ok {
			types = append(types, b.Type)
		}
		perType[b.Type] = append(perType[b.Type], fmt.Sprintf("%q", b.Labels))
	}
	sort.Strings(types)
	var bl []string
	for _, t := range types {
		bl = append(bl, t+":"+strings.Join(perType[t], ","))
	}
	return fmt.Sprintf("attrs[%s] blocks[%s]", strings.Join(attrs, " "), strings.Join(bl, " ")), diags.HasErrors()
}

// sequence is the order-sensitive part of the projection: the block sequence across all types.
func sequence(body hcl.Body, schema *hcl.BodySchema) string {
	content, _ := body.Content(schema)
	var bl []string
	for _, b := range content.Blocks {
		bl = append(bl, fmt.Sprintf("%s%q", b.Type, b.Labels))
	}
	return strings.Join(bl, " ")
}

func Handle(c *core.Check, st core.State) {
	if tla.Str(st.Vars["phase"]) != "body" {
		return
	}
	if !tla.Bool(st.Vars["jsonok"]) {
		c.Count("not_json_expressible", 1)
		return
	}
	var sn *dec.SpecNode
	var items []dec.Item
	if rec, p := core.Guard(func() { sn = dec.DecodeSpec(st.Vars["spec"]); items = dec.DecodeBody(st.Vars["body"]) }); p {
		c.Broken("decode: %v", rec)
		return
	}
	c.Count("vectors_replayed", 1)
	src := dec.Native(items, "")
	desc := fmt.Sprintf("spec %s on body [%s]", sn.String(), strings.ReplaceAll(strings.TrimSpace(src), "\n", "; "))
	nf, pd := hclsyntax.ParseConfig([]byte(src), "b.hcl", hcl.InitialPos)
	if pd.HasErrors() {
		c.Broken("generated body does not parse: %q: %s", src, pd.Error())
		return
	}
	var spec hcldec.Spec
	if rec, p := core.Guard(func() { spec = sn.Build() }); p {
		c.Broken("spec build panicked: %v", rec)
		return
	}
	schema := hcldec.ImpliedSchema(spec)
	var nval cty.Value
	var ndiags hcl.Diagnostics
	if rec, p := core.Guard(func() { nval, ndiags = hcldec.Decode(nf.Body, spec, dec.Ctx()) }); p {
		// C08 owns panics of the native path; nothing to compare
		_ = rec
		c.Count("native_panic_skipped", 1)
		return
	}
	nproj, nperr := project(nf.Body, schema)
	nseq := sequence(nf.Body, schema)
	nat := nativeSide{body: nf.Body, val: nval, diags: ndiags, proj: nproj, perr: nperr, seq: nseq}
	for variant := 0; variant < 5; variant++ {
		js := dec.JSON(items, variant)
		vec := map[string]any{"state": st.Raw, "case": desc, "json": js, "native": src}
		if !compareJSON(c, sn, spec, schema, nat, desc, js, fmt.Sprintf("form %d", variant), variant == 0 || variant == 4, vec) {
			return
		}
	}
	if len(items) > 0 {
		c.Nontrivial(desc)
		if len(items) >= 2 {
			c.Sample(map[string]any{"case": desc, "json_forms": []string{dec.JSON(items, 0), dec.JSON(items, 2), dec.JSON(items, 3)}})
		}
	}
}

func summaries(ds hcl.Diagnostics) []string {
	var out []string
	for _, d := range ds {
		out = append(out, d.Summary)
	}
	return out
}

type nativeSide struct {
	body  hcl.Body
	val   cty.Value
	diags hcl.Diagnostics
	proj  string
	perr  bool
	seq   string
}

// compareJSON applies the C03 relation to one JSON encoding of the configuration. keepsOrder says
// whether the encoding keeps the order of blocks of different types. Returns false after a violation.
func compareJSON(c *core.Check, sn *dec.SpecNode, spec hcldec.Spec, schema *hcl.BodySchema, nat nativeSide, desc, js, form string, keepsOrder bool, vec map[string]any) bool {
	c.Count("evaluations", 1)
	jf, jd := hcljson.Parse([]byte(js), "b.json")
	if jd.HasErrors() {
		c.Violation("json-encoding-rejected", fmt.Sprintf("%s: JSON encoding %s (%s) is rejected: %s", desc, js, form, jd.Error()), vec)
		return false
	}
	var jval cty.Value
	var jdiags hcl.Diagnostics
	if rec, p := core.Guard(func() { jval, jdiags = hcldec.Decode(jf.Body, spec, dec.Ctx()) }); p {
		c.Violation("panic/json/"+sn.K, fmt.Sprintf("%s: Decode of the JSON form %s panicked: %v", desc, js, rec), vec)
		return false
	}
	if nat.diags.HasErrors() != jdiags.HasErrors() {
		c.Violation(fmt.Sprintf("errorness-differs/native=%v/%s", nat.diags.HasErrors(), sn.K),
			fmt.Sprintf("%s: native errors=%v %v, JSON form %s errors=%v %v", desc, nat.diags.HasErrors(), summaries(nat.diags), js, jdiags.HasErrors(), summaries(jdiags)), vec)
		return false
	}
	if !nat.diags.HasErrors() && !nat.val.RawEquals(jval) {
		c.Violation("value-differs/"+sn.K, fmt.Sprintf("%s: native decodes to %s, JSON form %s decodes to %s", desc, e1.Describe(nat.val), js, e1.Describe(jval)), vec)
		return false
	}
	jproj, jperr := project(jf.Body, schema)
	if nat.perr != jperr || (!nat.perr && nat.proj != jproj) {
		c.Violation("content-differs/"+sn.K, fmt.Sprintf("%s: native content %s (errors=%v), JSON form %s content %s (errors=%v)", desc, nat.proj, nat.perr, js, jproj, jperr), vec)
		return false
	}
	// the REMAINING body after a partial step that consumed every block type of the schema exposes the
	// same content in both syntaxes (consumed types stay hidden, whatever a later schema asks for)
	if len(schema.Blocks) > 0 {
		blocksOnly := &hcl.BodySchema{Blocks: schema.Blocks}
		_, nrem, nd := nat.body.PartialContent(blocksOnly)
		_, jrem, jdg := jf.Body.PartialContent(blocksOnly)
		if !nd.HasErrors() && !jdg.HasErrors() {
			np, ne := project(nrem, schema)
			jp, je := project(jrem, schema)
			if ne != je || (!ne && np != jp) {
				c.Violation("remaining-content-differs/"+sn.K, fmt.Sprintf("%s: after a partial step over the block types, native remaining content %s (errors=%v), JSON form %s remaining content %s (errors=%v)", desc, np, ne, js, jp, je), vec)
				return false
			}
		}
	}
	// an encoding with one property per item keeps every item in source order, so the whole block
	// sequence, across block types, must be the native one; the grouping forms can only keep the
	// order within a type
	if keepsOrder {
		if jseq := sequence(jf.Body, schema); !nat.perr && jseq != nat.seq {
			c.Violation("block-sequence-differs/"+sn.K, fmt.Sprintf("%s: native block sequence [%s], JSON form %s gives [%s]", desc, nat.seq, js, jseq), vec)
			return false
		}
	}
	return true
}

// HandleEnc replays one MC_JsonEnc vector: (spec, body, encoding choice, document tree of JsonEnc.tla).
func HandleEnc(c *core.Check, st core.State) {
	if tla.Str(st.Vars["phase"]) != "enc" {
		return
	}
	var sn *dec.SpecNode
	var items []dec.Item
	var js string
	if rec, p := core.Guard(func() {
		sn = dec.DecodeSpec(st.Vars["spec"])
		items = dec.DecodeBody(st.Vars["body"])
		js = dec.PrintDoc(st.Vars["doc"])
	}); p {
		c.Broken("decode: %v", rec)
		return
	}
	ch := tla.Rec(st.Vars["ch"])
	form := fmt.Sprintf("body=%s grp=%s lab=%s cmt=%d", tla.Str(ch["body"]), tla.Str(ch["grp"]), tla.Str(ch["lab"]), tla.Int(ch["cmt"]))
	c.Count("vectors_replayed", 1)
	src := dec.Native(items, "")
	desc := fmt.Sprintf("spec %s on body [%s]", sn.String(), strings.ReplaceAll(strings.TrimSpace(src), "\n", "; "))
	nf, pd := hclsyntax.ParseConfig([]byte(src), "b.hcl", hcl.InitialPos)
	if pd.HasErrors() {
		c.Broken("generated body does not parse: %q: %s", src, pd.Error())
		return
	}
	var spec hcldec.Spec
	if rec, p := core.Guard(func() { spec = sn.Build() }); p {
		c.Broken("spec build panicked: %v", rec)
		return
	}
	schema := hcldec.ImpliedSchema(spec)
	var nat nativeSide
	nat.body = nf.Body
	if _, p := core.Guard(func() { nat.val, nat.diags = hcldec.Decode(nf.Body, spec, dec.Ctx()) }); p {
		c.Count("native_panic_skipped", 1)
		return
	}
	nat.proj, nat.perr = project(nf.Body, schema)
	nat.seq = sequence(nf.Body, schema)
	vec := map[string]any{"state": st.Raw, "case": desc, "json": js, "native": src, "encoding": form}
	if !compareJSON(c, sn, spec, schema, nat, desc, js, form, tla.Str(ch["grp"]) == "dup", vec) {
		return
	}
	c.Nontrivial(js)
	if len(items) >= 2 && tla.Str(ch["grp"]) != "dup" {
		c.Sample(map[string]any{"case": desc, "encoding": form, "json": js})
	}
}
