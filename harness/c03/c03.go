// Package c03: native and JSON syntaxes denote the same configuration.
package c03

import (
	"fmt"
	"sort"
	"strings"

	"github.com/hashicorp/hcl/v2"
	"github.com/hashicorp/hcl/v2/hcldec"
	"github.com/hashicorp/hcl/v2/hclsyntax"
	hcljson "github.com/hashicorp/hcl/v2/json"
	"github.com/zclconf/go-cty/cty"

	"verif/harness/core"
	"verif/harness/dec"
	"verif/harness/e1"
	"verif/harness/tla"
)

// projection of Body.Content under the spec's implied schema
func project(body hcl.Body, schema *hcl.BodySchema) (string, bool) {
	content, diags := body.Content(schema)
	var attrs []string
	for name, a := range content.Attributes {
		v, d := a.Expr.Value(nil)
		if d.HasErrors() {
			attrs = append(attrs, name+"=<err>")
		} else {
			attrs = append(attrs, name+"="+e1.Describe(v))
		}
	}
	sort.Strings(attrs)
	perType := map[string][]string{}
	var types []string
	for _, b := range content.Blocks {
		if _, ok := perType[b.Type]; !ok {
			types = append(types, b.Type)
		}
		perType[b.Type] = append(perType[b.Type], fmt.Sprintf("%q", b.Labels))
	}
	sort.Strings(types)
	var bl []string
	for _, t := range types {
		bl = append(bl, t+":"+strings.Join(perType[t], ","))
	}
	return fmt.Sprintf("attrs[%s] blocks[%s]", strings.Join(attrs, " "), strings.Join(bl, " ")), diags.HasErrors()
}

// sequence is the order-sensitive part of the projection: the block sequence across all types.
func sequence(body hcl.Body, schema *hcl.BodySchema) string {
	content, _ := body.Content(schema)
	var bl []string
	for _, b := range content.Blocks {
		bl = append(bl, fmt.Sprintf("%s%q", b.Type, b.Labels))
	}
	return strings.Join(bl, " ")
}

func Handle(c *core.Check, st core.State) {
	if tla.Str(st.Vars["phase"]) != "body" {
		return
	}
	if !tla.Bool(st.Vars["jsonok"]) {
		c.Count("not_json_expressible", 1)
		return
	}
	var sn *dec.SpecNode
	var items []dec.Item
	if rec, p := core.Guard(func() { sn = dec.DecodeSpec(st.Vars["spec"]); items = dec.DecodeBody(st.Vars["body"]) }); p {
		c.Broken("decode: %v", rec)
		return
	}
	c.Count("vectors_replayed", 1)
	src := dec.Native(items, "")
	desc := fmt.Sprintf("spec %s on body [%s]", sn.String(), strings.ReplaceAll(strings.TrimSpace(src), "\n", "; "))
	nf, pd := hclsyntax.ParseConfig([]byte(src), "b.hcl", hcl.InitialPos)
	if pd.HasErrors() {
		c.Broken("generated body does not parse: %q: %s", src, pd.Error())
		return
	}
	var spec hcldec.Spec
	if rec, p := core.Guard(func() { spec = sn.Build() }); p {
		c.Broken("spec build panicked: %v", rec)
		return
	}
	schema := hcldec.ImpliedSchema(spec)
	var nval cty.Value
	var ndiags hcl.Diagnostics
	if rec, p := core.Guard(func() { nval, ndiags = hcldec.Decode(nf.Body, spec, nil) }); p {
		// C08 owns panics of the native path; nothing to compare
		_ = rec
		c.Count("native_panic_skipped", 1)
		return
	}
	nproj, nperr := project(nf.Body, schema)
	nseq := sequence(nf.Body, schema)
	for variant := 0; variant < 5; variant++ {
		js := dec.JSON(items, variant)
		vec := map[string]any{"state": st.Raw, "case": desc, "json": js, "native": src}
		c.Count("evaluations", 1)
		jf, jd := hcljson.Parse([]byte(js), "b.json")
		if jd.HasErrors() {
			c.Violation("json-encoding-rejected", fmt.Sprintf("%s: JSON encoding %s (form %d) is rejected: %s", desc, js, variant, jd.Error()), vec)
			return
		}
		var jval cty.Value
		var jdiags hcl.Diagnostics
		if rec, p := core.Guard(func() { jval, jdiags = hcldec.Decode(jf.Body, spec, nil) }); p {
			c.Violation("panic/json/"+sn.K, fmt.Sprintf("%s: Decode of the JSON form %s panicked: %v", desc, js, rec), vec)
			return
		}
		if ndiags.HasErrors() != jdiags.HasErrors() {
			c.Violation(fmt.Sprintf("errorness-differs/native=%v/%s", ndiags.HasErrors(), sn.K),
				fmt.Sprintf("%s: native errors=%v %v, JSON form %s errors=%v %v", desc, ndiags.HasErrors(), summaries(ndiags), js, jdiags.HasErrors(), summaries(jdiags)), vec)
			return
		}
		if !ndiags.HasErrors() && !nval.RawEquals(jval) {
			c.Violation("value-differs/"+sn.K, fmt.Sprintf("%s: native decodes to %s, JSON form %s decodes to %s", desc, e1.Describe(nval), js, e1.Describe(jval)), vec)
			return
		}
		jproj, jperr := project(jf.Body, schema)
		if nperr != jperr || (!nperr && nproj != jproj) {
			c.Violation("content-differs/"+sn.K, fmt.Sprintf("%s: native content %s (errors=%v), JSON form %s content %s (errors=%v)", desc, nproj, nperr, js, jproj, jperr), vec)
			return
		}
		// forms 0 and 4 keep every item in source order (one property per item), so the whole block
		// sequence, across block types, must be the native one; the grouping forms can only keep
		// the order within a type
		if variant == 0 || variant == 4 {
			if jseq := sequence(jf.Body, schema); !nperr && jseq != nseq {
				c.Violation("block-sequence-differs/"+sn.K, fmt.Sprintf("%s: native block sequence [%s], JSON form %s gives [%s]", desc, nseq, js, jseq), vec)
				return
			}
		}
	}
	if len(items) > 0 {
		c.Nontrivial(desc)
		if len(items) >= 2 {
			c.Sample(map[string]any{"case": desc, "json_forms": []string{dec.JSON(items, 0), dec.JSON(items, 2), dec.JSON(items, 3)}})
		}
	}
}

func summaries(ds hcl.Diagnostics) []string {
	var out []string
	for _, d := range ds {
		out = append(out, d.Summary)
	}
	return out
}
