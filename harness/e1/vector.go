package e1

import (
	"fmt"
	"regexp"
	"sort"
	"strings"

	"github.com/hashicorp/hcl/v2"
	"github.com/zclconf/go-cty/cty"

	"verif/harness/core"
	"verif/harness/tla"
)

// Vector is one decoded state of MC_E1.
type Vector struct {
	Node    *Node
	FV      []string // free variables per the specification
	Last    string
	PredErr bool
	PredOom bool
	Raw     string
}

func DecodeVector(st core.State) (v Vector, err error) {
	defer func() {
		if r := recover(); r != nil {
			err = fmt.Errorf("decode vector: %v", r)
		}
	}()
	v.Node = DecodeNode(st.Vars["e"])
	if fv, ok := st.Vars["fv"]; ok {
		v.FV = tla.Strs(fv)
		sort.Strings(v.FV)
	}
	v.Last, _ = st.Vars["last"].(string)
	if p, ok := st.Vars["pred"]; ok {
		pm := tla.Rec(p)
		v.PredErr = tla.Bool(pm["err"])
		v.PredOom = tla.Str(tla.Rec(pm["v"])["k"]) == "oom"
	}
	v.Raw = st.Raw
	return v, nil
}

var reDidYouMean = regexp.MustCompile(` Did you mean "[^"]*"\?`)

// NormDiags renders diagnostics as comparable strings (severity, summary,
// detail without the scope-dependent "Did you mean" hint, subject range).
func NormDiags(ds hcl.Diagnostics) []string {
	out := make([]string, 0, len(ds))
	for _, d := range ds {
		subj := ""
		if d.Subject != nil {
			subj = d.Subject.String()
		}
		detail := reDidYouMean.ReplaceAllString(d.Detail, "")
		// go-cty reports a panic inside a function implementation with the goroutine number and
		// stack of that run; only the first line is a function of the input
		if i := strings.Index(detail, "panic in function implementation"); i >= 0 {
			if j := strings.Index(detail[i:], "\n"); j >= 0 {
				detail = detail[:i+j]
			}
		}
		out = append(out, fmt.Sprintf("%d|%s|%s|%s", d.Severity, d.Summary, detail, subj))
	}
	return out
}

func SameDiags(a, b hcl.Diagnostics) bool {
	x, y := NormDiags(a), NormDiags(b)
	if len(x) != len(y) {
		return false
	}
	for i := range x {
		if x[i] != y[i] {
			return false
		}
	}
	return true
}

func Describe(v cty.Value) string {
	if v == cty.NilVal {
		return "<nil>"
	}
	return strings.ReplaceAll(fmt.Sprintf("%#v", v), "cty.", "")
}

// Fam gives a coarse signature component: the outermost construct.
func Fam(n *Node) string {
	for n.K == "paren" && len(n.Sub) == 1 {
		n = n.Sub[0]
	}
	s := n.K
	if n.K == "bin" || n.K == "un" {
		s += n.S
	}
	if n.K == "for" || n.K == "splat" || n.K == "call" {
		s += ":" + n.S
	}
	return s
}

// Kinds lists every construct kind occurring in the AST (for signatures that
// must name an inner construct).
func Kinds(n *Node) map[string]bool {
	m := map[string]bool{}
	var walk func(n *Node)
	walk = func(n *Node) {
		m[Fam(n)] = true
		for _, s := range n.Sub {
			walk(s)
		}
	}
	walk(n)
	return m
}

// Alternates gives, for each scope variable, other values of the SAME type.
func Alternates() map[string][]cty.Value {
	num := func(n int64) cty.Value { return cty.NumberIntVal(n) }
	str := cty.StringVal
	return map[string][]cty.Value{
		"n1":  {num(0), num(2), num(-1), cty.NumberFloatVal(1.5)},
		"n2":  {num(1), num(0), num(3)},
		"nh":  {num(1), num(0), cty.NumberFloatVal(2.5)},
		"s":   {str("b"), str(""), str("1"), str("true"), str("\u0301!")},
		"sn":  {str("0"), str("2"), str("a"), str("-1"), str("\u0308x")},
		"b":   {cty.False},
		"nul": {},
		"ns":  {str("a"), str("")},
		"l": {cty.ListVal([]cty.Value{num(2), num(1)}), cty.ListValEmpty(cty.Number), cty.ListVal([]cty.Value{num(0)}),
			cty.ListVal([]cty.Value{num(1), num(1), num(3)})},
		"ls": {cty.ListVal([]cty.Value{str("b"), str("a")}), cty.ListValEmpty(cty.String), cty.ListVal([]cty.Value{str("a"), str("a")})},
		"le": {cty.ListVal([]cty.Value{cty.ObjectVal(map[string]cty.Value{"a": num(2)})}),
			cty.ListVal([]cty.Value{cty.ObjectVal(map[string]cty.Value{"a": num(1)}), cty.ObjectVal(map[string]cty.Value{"a": num(0)})})},
		"t":  {cty.TupleVal([]cty.Value{num(2), str("b")}), cty.TupleVal([]cty.Value{num(0), str("")})},
		"o": {cty.ObjectVal(map[string]cty.Value{"a": num(2), "b": str("y")}),
			cty.ObjectVal(map[string]cty.Value{"a": num(0), "b": str("")})},
		"m": {cty.MapVal(map[string]cty.Value{"a": str("y"), "b": str("x")}), cty.MapValEmpty(cty.String),
			cty.MapVal(map[string]cty.Value{"c": str("x")}), cty.MapVal(map[string]cty.Value{"a": str("1"), "b": str("2"), "c": str("3")})},
		"st": {cty.SetVal([]cty.Value{str("b"), str("c")}), cty.SetValEmpty(cty.String), cty.SetVal([]cty.Value{str("a")})},
		"lo": {cty.ListVal([]cty.Value{cty.ObjectVal(map[string]cty.Value{"a": num(2)}), cty.ObjectVal(map[string]cty.Value{"a": num(1)})}),
			cty.ListValEmpty(cty.Object(map[string]cty.Type{"a": cty.Number})),
			cty.ListVal([]cty.Value{cty.ObjectVal(map[string]cty.Value{"a": num(7)})})},
		"oo": {cty.ObjectVal(map[string]cty.Value{"a": cty.ObjectVal(map[string]cty.Value{"b": num(2)})})},
	}
}

// EvaluableChildren lists the sub-expressions of n that are complete
// expressions evaluable in the same scope as n (binder bodies are excluded).
func EvaluableChildren(n *Node) []*Node {
	switch n.K {
	case "for":
		return []*Node{n.Sub[0]}
	case "tfor":
		return []*Node{n.Sub[0]}
	case "splat":
		return []*Node{n.Sub[0]}
	case "tif":
		out := []*Node{n.Sub[0]}
		for _, t := range n.Sub[1:] {
			if t.K != "none" {
				out = append(out, EvaluableChildren(t)...)
			}
		}
		return out
	case "tpl":
		var out []*Node
		for _, p := range n.Sub {
			switch p.K {
			case "interp":
				out = append(out, p.Sub[0])
			case "tif", "tfor":
				out = append(out, EvaluableChildren(p)...)
			}
		}
		return out
	case "object":
		var out []*Node
		for i, s := range n.Sub {
			if i%2 == 0 && s.K == "keyid" {
				continue
			}
			out = append(out, s)
		}
		return out
	case "keyid", "anon", "none", "tlit":
		return nil
	}
	return n.Sub
}

// Localise returns a smallest sub-expression of n for which fails still
// holds (n itself is assumed to fail), together with the extra variable
// bindings under which it was evaluated. The search covers ALL descendants
// (a sub-expression can fail although its parent does not, e.g. when a sibling
// contributes the property the parent is judged by). It descends into the
// bodies of for expressions / template for directives by binding the iteration
// variables to the first element of the collection (evaluated by evalIn).
func Localise(n *Node, fails func(n *Node, extra map[string]cty.Value) bool,
	evalIn func(n *Node, extra map[string]cty.Value) (cty.Value, bool)) (*Node, map[string]cty.Value) {
	try := func(ch *Node, ex map[string]cty.Value) bool {
		if ch == nil || ch.K == "none" || ch.K == "anon" {
			return false
		}
		ok := false
		func() {
			defer func() { recover() }()
			ok = fails(ch, ex)
		}()
		return ok
	}
	budget := 400 // evaluations; ASTs are small, this only guards against pathological blow-up
	var find func(n *Node, extra map[string]cty.Value, known bool) (*Node, map[string]cty.Value)
	find = func(n *Node, extra map[string]cty.Value, known bool) (*Node, map[string]cty.Value) {
		if n == nil || n.K == "none" || n.K == "anon" || budget <= 0 {
			return nil, nil
		}
		for _, ch := range EvaluableChildren(n) {
			if r, ex := find(ch, extra, false); r != nil {
				return r, ex
			}
		}
		if evalIn != nil {
			for _, b := range binders(n) {
				var coll cty.Value
				ok := false
				func() {
					defer func() { recover() }()
					coll, ok = evalIn(b.Sub[0], extra)
				}()
				if !ok {
					continue
				}
				coll, _ = coll.Unmark()
				if !(coll.IsKnown() && !coll.IsNull() && coll.CanIterateElements() && coll.LengthInt() > 0) {
					continue
				}
				it := coll.ElementIterator()
				it.Next()
				k, v := it.Element()
				ex2 := map[string]cty.Value{}
				for kk, vv := range extra {
					ex2[kk] = vv
				}
				ex2[b.S2] = v
				if b.N%4 != 0 {
					ex2[KeyVarNames[b.N%4]] = k
				}
				var bodies []*Node
				if b.K == "for" {
					bodies = b.Sub[1:]
				} else {
					bodies = EvaluableChildren(b.Sub[1])
				}
				for _, ch := range bodies {
					if r, ex := find(ch, ex2, false); r != nil {
						return r, ex
					}
				}
			}
		}
		if known {
			return n, extra
		}
		budget--
		if try(n, extra) {
			return n, extra
		}
		return nil, nil
	}
	r, ex := find(n, map[string]cty.Value{}, true)
	if r == nil {
		return n, map[string]cty.Value{}
	}
	return r, ex
}

// WalkBound visits n and every descendant, including the bodies of for expressions / template for
// directives, which are visited with the iteration variables bound to the first element of the
// collection (evaluated by evalIn under the bindings collected so far).
func WalkBound(n *Node, extra map[string]cty.Value, evalIn func(n *Node, extra map[string]cty.Value) (cty.Value, bool), visit func(n *Node, extra map[string]cty.Value)) {
	if n == nil || n.K == "none" || n.K == "anon" {
		return
	}
	visit(n, extra)
	for _, ch := range EvaluableChildren(n) {
		WalkBound(ch, extra, evalIn, visit)
	}
	if evalIn == nil {
		return
	}
	for _, b := range binders(n) {
		var coll cty.Value
		ok := false
		func() {
			defer func() { recover() }()
			coll, ok = evalIn(b.Sub[0], extra)
		}()
		if !ok {
			continue
		}
		coll, _ = coll.Unmark()
		if !(coll.IsKnown() && !coll.IsNull() && coll.CanIterateElements() && coll.LengthInt() > 0) {
			continue
		}
		it := coll.ElementIterator()
		it.Next()
		k, v := it.Element()
		ex2 := map[string]cty.Value{}
		for kk, vv := range extra {
			ex2[kk] = vv
		}
		ex2[b.S2] = v
		if b.N%4 != 0 {
			ex2[KeyVarNames[b.N%4]] = k
		}
		var bodies []*Node
		if b.K == "for" {
			bodies = b.Sub[1:]
		} else {
			bodies = EvaluableChildren(b.Sub[1])
		}
		for _, ch := range bodies {
			WalkBound(ch, ex2, evalIn, visit)
		}
	}
}

// binders lists the for expressions / template for directives whose bodies are not reachable
// through EvaluableChildren: n itself, or the directives among the parts of a template.
func binders(n *Node) []*Node {
	switch n.K {
	case "for", "tfor":
		return []*Node{n}
	case "tpl", "tplbody":
		var out []*Node
		for _, p := range n.Sub {
			switch p.K {
			case "tfor":
				out = append(out, p)
			case "tif":
				for _, t := range p.Sub[1:] {
					if t.K != "none" {
						out = append(out, binders(t)...)
					}
				}
			case "hline":
				out = append(out, binders(&Node{K: "tpl", Sub: p.Sub})...)
			}
		}
		return out
	}
	return nil
}

// With returns base extended by extra (extra wins).
func With(base, extra map[string]cty.Value) map[string]cty.Value {
	if len(extra) == 0 {
		return base
	}
	out := make(map[string]cty.Value, len(base)+len(extra))
	for k, v := range base {
		out[k] = v
	}
	for k, v := range extra {
		out[k] = v
	}
	return out
}
