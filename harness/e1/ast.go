// Package e1 binds the HclExpr/HclValues TLA+ modules to hclsyntax: AST
// decoding, rendering to source text, abstract value conversion, the shared
// scope and the function table.
package e1

import (
	"fmt"
	"math/rand"
	"strings"

	"verif/harness/tla"
)

type Node struct {
	K   string
	S   string
	S2  string
	N   int
	Sub []*Node
}

func DecodeNode(v any) *Node {
	m := tla.Rec(v)
	n := &Node{K: tla.Str(m["k"]), S: tla.Str(m["s"]), S2: tla.Str(m["s2"]), N: tla.Int(m["n"])}
	for _, s := range tla.Seq(m["sub"]) {
		n.Sub = append(n.Sub, DecodeNode(s))
	}
	return n
}

var KeyVarNames = []string{"", "k", "i"}

// Layout controls the concrete rendering of an AST.
type Layout struct {
	Mode int        // 0 canonical, 1 wide spaces, 2 newlines inside brackets, 3 inline comments
	Rng  *rand.Rand // optional: random choices (redundant parentheses etc.)
}

// precedence levels (hclsyntax/spec.md): binary 1..6, unary 7, postfix 8, term 9; conditional 0
func prec(n *Node) int {
	switch n.K {
	case "cond":
		return 0
	case "bin":
		switch n.S {
		case "||":
			return 1
		case "&&":
			return 2
		case "==", "!=":
			return 3
		case "<", "<=", ">", ">=":
			return 4
		case "+", "-":
			return 5
		default:
			return 6
		}
	case "un":
		return 7
	case "index", "attr", "legacy", "splat":
		return 8
	}
	return 9
}

type renderer struct {
	sb strings.Builder
	l  Layout
	// bracket depth in which newlines are insignificant
	nl int
}

func (r *renderer) sp() {
	switch r.l.Mode {
	case 1:
		r.sb.WriteString("  ")
	case 2:
		if r.nl > 0 {
			r.sb.WriteString("\n  ")
		} else {
			r.sb.WriteString(" ")
		}
	case 3:
		r.sb.WriteString(" /* c */ ")
	default:
		r.sb.WriteString(" ")
	}
}

// optional space (canonical: none)
func (r *renderer) osp() {
	switch r.l.Mode {
	case 1:
		r.sb.WriteString(" ")
	case 2:
		if r.nl > 0 {
			r.sb.WriteString("\n")
		}
	case 3:
		r.sb.WriteString("/* c */")
	}
}

func (r *renderer) w(s string) { r.sb.WriteString(s) }

func (r *renderer) open(s string)  { r.w(s); r.nl++ }
func (r *renderer) close(s string) { r.nl--; r.w(s) }

func numText(n2 int) string {
	if n2%2 == 0 {
		return fmt.Sprint(n2 / 2)
	}
	if n2 < 0 {
		return fmt.Sprintf("-%d.5", (-n2)/2)
	}
	return fmt.Sprintf("%d.5", n2/2)
}

func (r *renderer) wrapped(n *Node, need bool) {
	if need {
		r.open("(")
		r.osp()
		r.expr(n)
		r.osp()
		r.close(")")
	} else {
		r.expr(n)
	}
}

// operand of a postfix operator
func (r *renderer) postfixOperand(n *Node) {
	// a traversal written after a splat belongs to the splat, so a splat operand needs parentheses
	need := prec(n) < 8 || n.K == "num" || n.K == "splat"
	r.wrapped(n, need)
}

func escQuoted(s string) string {
	var sb strings.Builder
	for i := 0; i < len(s); i++ {
		c := s[i]
		switch {
		case c == '"':
			sb.WriteString(`\"`)
		case c == '\\':
			sb.WriteString(`\\`)
		case c == '\n':
			sb.WriteString(`\n`)
		case c == '\t':
			sb.WriteString(`\t`)
		case (c == '$' || c == '%') && i+1 < len(s) && s[i+1] == '{':
			sb.WriteByte(c)
			sb.WriteByte(c)
		default:
			sb.WriteByte(c)
		}
	}
	return sb.String()
}

func bit(n, i int) bool { return (n>>uint(i))&1 == 1 }

func (r *renderer) tplParts(parts []*Node) {
	for _, p := range parts {
		switch p.K {
		case "tlit":
			r.w(escQuoted(p.S))
		case "interp":
			r.w("${")
			r.nl++
			if bit(p.N, 0) {
				r.w("~")
			}
			r.osp()
			r.expr(p.Sub[0])
			r.osp()
			if bit(p.N, 1) {
				r.w("~")
			}
			r.nl--
			r.w("}")
		case "tif":
			r.directive(bit(p.N, 0), bit(p.N, 1), func() { r.w("if"); r.sp(); r.expr(p.Sub[0]) })
			r.tplParts(p.Sub[1].Sub)
			if p.Sub[2].K != "none" {
				r.directive(bit(p.N, 2), bit(p.N, 3), func() { r.w("else") })
				r.tplParts(p.Sub[2].Sub)
			}
			r.directive(bit(p.N, 4), bit(p.N, 5), func() { r.w("endif") })
		case "tfor":
			st := p.N / 4
			r.directive(bit(st, 0), bit(st, 1), func() {
				r.w("for")
				r.sp()
				if p.N%4 != 0 {
					r.w(KeyVarNames[p.N%4])
					r.osp()
					r.w(",")
					r.sp()
				}
				r.w(p.S2)
				r.sp()
				r.w("in")
				r.sp()
				r.expr(p.Sub[0])
			})
			r.tplParts(p.Sub[1].Sub)
			r.directive(bit(st, 2), bit(st, 3), func() { r.w("endfor") })
		default:
			panic("bad template part " + p.K)
		}
	}
}

func (r *renderer) directive(l, rr bool, body func()) {
	r.w("%{")
	r.nl++
	if l {
		r.w("~")
	}
	r.osp()
	body()
	r.osp()
	if rr {
		r.w("~")
	}
	r.nl--
	r.w("}")
}

// eachPath renders the traversal applied to the anonymous symbol of a splat.
func (r *renderer) eachPath(n *Node) {
	switch n.K {
	case "anon":
	case "attr":
		r.eachPath(n.Sub[0])
		r.w(".")
		r.w(n.S)
	case "index":
		r.eachPath(n.Sub[0])
		r.open("[")
		r.osp()
		r.expr(n.Sub[1])
		r.osp()
		r.close("]")
	case "legacy":
		r.eachPath(n.Sub[0])
		r.w(".")
		r.w(fmt.Sprint(n.N / 2))
	default:
		panic("bad splat each " + n.K)
	}
}

func (r *renderer) expr(n *Node) {
	switch n.K {
	case "num":
		r.w(numText(n.N))
	case "bool":
		if n.N == 1 {
			r.w("true")
		} else {
			r.w("false")
		}
	case "null":
		r.w("null")
	case "var":
		r.w(n.S)
	case "keyid":
		r.w(n.S)
	case "paren":
		r.wrapped(n.Sub[0], true)
	case "un":
		r.w(n.S)
		x := n.Sub[0]
		r.wrapped(x, prec(x) < 7)
	case "bin":
		p := prec(n)
		r.wrapped(n.Sub[0], prec(n.Sub[0]) < p)
		r.sp()
		r.w(n.S)
		r.sp()
		r.wrapped(n.Sub[1], prec(n.Sub[1]) <= p)
	case "cond":
		r.wrapped(n.Sub[0], prec(n.Sub[0]) == 0)
		r.sp()
		r.w("?")
		r.sp()
		r.wrapped(n.Sub[1], false)
		r.sp()
		r.w(":")
		r.sp()
		r.wrapped(n.Sub[2], false)
	case "tuple":
		r.open("[")
		for i, s := range n.Sub {
			if i > 0 {
				r.w(",")
				r.sp()
			} else {
				r.osp()
			}
			r.expr(s)
		}
		r.osp()
		r.close("]")
	case "object":
		// newlines separate items inside an object constructor, so this
		// renderer only uses commas and never a bare newline here
		r.w("{")
		save := r.nl
		r.nl = 0
		for i := 0; i+1 < len(n.Sub); i += 2 {
			if i > 0 {
				r.w(",")
			}
			r.sp()
			r.expr(n.Sub[i])
			r.sp()
			r.w("=")
			r.sp()
			r.expr(n.Sub[i+1])
		}
		r.sp()
		r.nl = save
		r.w("}")
	case "index":
		r.postfixOperand(n.Sub[0])
		r.open("[")
		r.osp()
		r.expr(n.Sub[1])
		r.osp()
		r.close("]")
	case "attr":
		r.postfixOperand(n.Sub[0])
		r.w(".")
		r.w(n.S)
	case "legacy":
		// the legacy index syntax cannot be chained (x.0.0 lexes 0.0 as one number)
		if n.Sub[0].K == "legacy" {
			r.wrapped(n.Sub[0], true)
		} else {
			r.postfixOperand(n.Sub[0])
		}
		r.w(".")
		r.w(fmt.Sprint(n.N / 2))
	case "splat":
		r.postfixOperand(n.Sub[0])
		if n.S == "attr" {
			r.w(".*")
		} else {
			r.w("[*]")
		}
		r.eachPath(n.Sub[1])
	case "for":
		openB, closeB := "[", "]"
		if n.S != "tuple" {
			openB, closeB = "{", "}"
		}
		r.open(openB)
		r.osp()
		r.w("for")
		r.sp()
		if n.N%4 != 0 {
			r.w(KeyVarNames[n.N%4])
			r.osp()
			r.w(",")
			r.sp()
		}
		r.w(n.S2)
		r.sp()
		r.w("in")
		r.sp()
		r.expr(n.Sub[0])
		r.sp()
		r.w(":")
		r.sp()
		if n.S != "tuple" {
			r.expr(n.Sub[1])
			r.sp()
			r.w("=>")
			r.sp()
		}
		r.expr(n.Sub[2])
		if n.S == "group" {
			r.w("...")
		}
		if n.Sub[3].K != "none" {
			r.sp()
			r.w("if")
			r.sp()
			r.expr(n.Sub[3])
		}
		r.osp()
		r.close(closeB)
	case "call":
		r.w(n.S)
		r.open("(")
		for i, s := range n.Sub {
			if i > 0 {
				r.w(",")
				r.sp()
			} else {
				r.osp()
			}
			r.expr(s)
		}
		if n.N == 1 {
			r.w("...")
		}
		r.osp()
		r.close(")")
	case "tpl":
		switch n.S {
		case "q":
			r.w(`"`)
			save := r.nl
			r.nl = 0 // interpolation sequences re-enable newlines themselves
			r.tplParts(n.Sub)
			r.nl = save
			r.w(`"`)
		default:
			panic("heredoc rendering handled by RenderHeredoc")
		}
	default:
		panic("render: unknown node kind " + n.K)
	}
}

// Render produces native-syntax source text for the expression.
func Render(n *Node, l Layout) string {
	r := &renderer{l: l}
	if l.Mode == 2 {
		// a stand-alone expression ignores newlines everywhere; as an
		// attribute value it needs brackets, so wrap in parentheses
		r.open("(")
		r.osp()
		r.expr(n)
		r.osp()
		r.close(")")
		return r.sb.String()
	}
	r.expr(n)
	return r.sb.String()
}

// Shape returns a canonical structural string of the AST ignoring "paren" nodes.
func Shape(n *Node) string {
	var sb strings.Builder
	var walk func(n *Node)
	walk = func(n *Node) {
		if n.K == "paren" {
			walk(n.Sub[0])
			return
		}
		sb.WriteString(n.K)
		if n.S != "" || n.S2 != "" || n.N != 0 {
			fmt.Fprintf(&sb, "<%s|%s|%d>", n.S, n.S2, n.N)
		}
		if len(n.Sub) > 0 {
			sb.WriteString("(")
			for i, s := range n.Sub {
				if i > 0 {
					sb.WriteString(",")
				}
				walk(s)
			}
			sb.WriteString(")")
		}
	}
	walk(n)
	return sb.String()
}
