// Package e1 binds the HclExpr/HclValues TLA+ modules to hclsyntax: AST
// decoding, rendering to source text, abstract value conversion, the shared
// scope and the function table.
package e1

import (
	"fmt"
	"math/rand"
	"strings"

	"verif/harness/tla"
)

type Node struct {
	K   string
	S   string
	S2  string
	N   int
	Sub []*Node
}

func DecodeNode(v any) *Node {
	m := tla.Rec(v)
	n := &Node{K: tla.Str(m["k"]), S: tla.Str(m["s"]), S2: tla.Str(m["s2"]), N: tla.Int(m["n"])}
	for _, s := range tla.Seq(m["sub"]) {
		n.Sub = append(n.Sub, DecodeNode(s))
	}
	return n
}

var KeyVarNames = []string{"", "k", "i"}

// Layout controls the concrete rendering of an AST.
type Layout struct {
	// 0 canonical, 1 wide spaces, 2 newlines inside brackets, 3 inline comments, 4 a space between all tokens,
	// 5 object items on their own lines / trailing commas in tuples, calls and for-less objects,
	// 6 line comments (# and //) wherever a newline is insignificant, 7 alternative number spellings,
	// 8 a newline after every opening bracket and after every item separator (the first item of an
	// object constructor stays on the brace line)
	Mode int
	Rng  *rand.Rand // optional: random choices (redundant parentheses etc.)
}

// precedence levels (hclsyntax/spec.md): binary 1..6, unary 7, postfix 8, term 9; conditional 0
func prec(n *Node) int {
	switch n.K {
	case "cond":
		return 0
	case "bin":
		switch n.S {
		case "||":
			return 1
		case "&&":
			return 2
		case "==", "!=":
			return 3
		case "<", "<=", ">", ">=":
			return 4
		case "+", "-":
			return 5
		default:
			return 6
		}
	case "un":
		return 7
	case "index", "attr", "legacy", "splat":
		return 8
	}
	return 9
}

type renderer struct {
	sb strings.Builder
	lc int
	l  Layout
	// bracket depth in which newlines are insignificant
	nl int
}

func (r *renderer) sp() {
	switch r.l.Mode {
	case 1:
		r.sb.WriteString("  ")
	case 2:
		if r.nl > 0 {
			r.sb.WriteString("\n  ")
		} else {
			r.sb.WriteString(" ")
		}
	case 3:
		r.sb.WriteString(" /* c */ ")
	case 4:
		// t() separates tokens
	case 6:
		if r.nl > 0 {
			r.lc++
			if r.lc%2 == 0 {
				r.sb.WriteString(" # c\n ")
			} else {
				r.sb.WriteString(" // c\n ")
			}
		} else {
			r.sb.WriteString(" ")
		}
	default:
		r.sb.WriteString(" ")
	}
}

// optional space (canonical: none)
func (r *renderer) osp() {
	switch r.l.Mode {
	case 1:
		r.sb.WriteString(" ")
	case 2:
		if r.nl > 0 {
			r.sb.WriteString("\n")
		}
	case 3:
		r.sb.WriteString("/* c */")
	case 8:
		if r.nl > 0 {
			r.sb.WriteString("\n")
		}
	}
}

// w writes raw text (string content, characters that must stay adjacent)
func (r *renderer) w(s string) { r.sb.WriteString(s) }

// t writes one token; in mode 4 ("a space between every pair of adjacent tokens")
// it is preceded by a space
func (r *renderer) t(s string) {
	if r.l.Mode == 4 && r.sb.Len() > 0 {
		r.sb.WriteString(" ")
	}
	r.sb.WriteString(s)
}

// comma writes an item separator of a tuple, object constructor or call; in mode 8 a newline
// follows it (legal in all three: newlines are insignificant inside brackets and parentheses,
// and a newline may follow the comma between object items)
func (r *renderer) comma() {
	r.t(",")
	if r.l.Mode == 8 {
		r.w("\n")
	}
}

func (r *renderer) open(s string)  { r.t(s); r.nl++ }
func (r *renderer) close(s string) { r.nl--; r.t(s) }

func numText(n2 int) string {
	if n2%2 == 0 {
		return fmt.Sprint(n2 / 2)
	}
	if n2 < 0 {
		return fmt.Sprintf("-%d.5", (-n2)/2)
	}
	return fmt.Sprintf("%d.5", n2/2)
}

// altNumText spells the same half-integer differently (exponent forms, redundant zeros)
func altNumText(n2 int) string {
	switch {
	case n2 == 0:
		return "0.0"
	case n2%2 == 0 && n2 > 0:
		return fmt.Sprintf("%d.0e0", n2/2)
	case n2 > 0:
		return fmt.Sprintf("%de-1", n2*5) // k.5 = (10k+5)e-1
	}
	return numText(n2)
}

func (r *renderer) wrapped(n *Node, need bool) {
	if need {
		r.open("(")
		r.osp()
		r.expr(n)
		r.osp()
		r.close(")")
	} else {
		r.expr(n)
	}
}

// operand of a postfix operator
func (r *renderer) postfixOperand(n *Node) {
	// a traversal written after a splat belongs to the splat, so a splat operand needs parentheses
	need := prec(n) < 8 || n.K == "splat"
	if n.K == "num" && r.l.Mode != 4 {
		need = true // "1.a" / "1.0" would lex differently; with a space between all tokens it is unambiguous
	}
	r.wrapped(n, need)
}

func escQuoted(s string) string {
	var sb strings.Builder
	for i := 0; i < len(s); i++ {
		c := s[i]
		switch {
		case c == '"':
			sb.WriteString(`\"`)
		case c == '\\':
			sb.WriteString(`\\`)
		case c == '\n':
			sb.WriteString(`\n`)
		case c == '\t':
			sb.WriteString(`\t`)
		case (c == '$' || c == '%') && i+1 < len(s) && s[i+1] == '{':
			sb.WriteByte(c)
			sb.WriteByte(c)
		default:
			sb.WriteByte(c)
		}
	}
	return sb.String()
}

func bit(n, i int) bool { return (n>>uint(i))&1 == 1 }

// seqOpen writes a template sequence opener, which must directly follow the literal text
func (r *renderer) seqOpen(intro string, strip bool) {
	r.w(intro)
	if strip {
		r.w("~")
	}
	r.nl++
	if r.l.Mode != 8 { // mode 8 keeps the first token of a template sequence on the introducer's line
		r.osp()
	}
}

func (r *renderer) seqClose(strip bool) {
	if r.l.Mode != 8 {
		r.osp()
	}
	r.nl--
	if strip {
		r.t("~}")
	} else {
		r.t("}")
	}
}

func (r *renderer) tplParts(parts []*Node) {
	for _, p := range parts {
		switch p.K {
		case "tlit":
			r.w(escQuoted(p.S))
		case "interp":
			r.seqOpen("${", bit(p.N, 0))
			r.expr(p.Sub[0])
			r.seqClose(bit(p.N, 1))
		case "tif":
			r.seqOpen("%{", bit(p.N, 0))
			r.t("if")
			r.sp()
			r.expr(p.Sub[0])
			r.seqClose(bit(p.N, 1))
			r.tplParts(p.Sub[1].Sub)
			if p.Sub[2].K != "none" {
				r.seqOpen("%{", bit(p.N, 2))
				r.t("else")
				r.seqClose(bit(p.N, 3))
				r.tplParts(p.Sub[2].Sub)
			}
			r.seqOpen("%{", bit(p.N, 4))
			r.t("endif")
			r.seqClose(bit(p.N, 5))
		case "tfor":
			st := p.N / 4
			r.seqOpen("%{", bit(st, 0))
			r.t("for")
			r.sp()
			if p.N%4 != 0 {
				r.t(KeyVarNames[p.N%4])
				r.osp()
				r.t(",")
				r.sp()
			}
			r.t(p.S2)
			r.sp()
			r.t("in")
			r.sp()
			r.expr(p.Sub[0])
			r.seqClose(bit(st, 1))
			r.tplParts(p.Sub[1].Sub)
			r.seqOpen("%{", bit(st, 2))
			r.t("endfor")
			r.seqClose(bit(st, 3))
		default:
			panic("bad template part " + p.K)
		}
	}
}

// eachPath renders the traversal applied to the anonymous symbol of a splat.
func (r *renderer) eachPath(n *Node) {
	switch n.K {
	case "anon":
	case "attr":
		r.eachPath(n.Sub[0])
		r.t(".")
		r.t(n.S)
	case "index":
		r.eachPath(n.Sub[0])
		r.open("[")
		r.osp()
		r.expr(n.Sub[1])
		r.osp()
		r.close("]")
	case "legacy":
		r.eachPath(n.Sub[0])
		r.t(".")
		r.t(fmt.Sprint(n.N / 2))
	default:
		panic("bad splat each " + n.K)
	}
}

func (r *renderer) expr(n *Node) {
	switch n.K {
	case "num":
		if r.l.Mode == 7 {
			r.t(altNumText(n.N))
		} else {
			r.t(numText(n.N))
		}
	case "bool":
		if n.N == 1 {
			r.t("true")
		} else {
			r.t("false")
		}
	case "null":
		r.t("null")
	case "var":
		r.t(n.S)
	case "keyid":
		r.t(n.S)
	case "paren":
		r.wrapped(n.Sub[0], true)
	case "un":
		r.t(n.S)
		x := n.Sub[0]
		r.wrapped(x, prec(x) < 7)
	case "bin":
		p := prec(n)
		r.wrapped(n.Sub[0], prec(n.Sub[0]) < p)
		r.sp()
		r.t(n.S)
		r.sp()
		r.wrapped(n.Sub[1], prec(n.Sub[1]) <= p)
	case "cond":
		r.wrapped(n.Sub[0], prec(n.Sub[0]) == 0)
		r.sp()
		r.t("?")
		r.sp()
		r.wrapped(n.Sub[1], false)
		r.sp()
		r.t(":")
		r.sp()
		r.wrapped(n.Sub[2], false)
	case "tuple":
		r.open("[")
		for i, s := range n.Sub {
			if i > 0 {
				r.comma()
				r.sp()
			} else {
				r.osp()
			}
			r.expr(s)
		}
		if r.l.Mode == 5 && len(n.Sub) > 0 {
			r.t(",")
		}
		r.osp()
		r.close("]")
	case "object":
		// newlines separate items inside an object constructor, so this
		// renderer only uses commas and never a bare newline here
		r.t("{")
		save := r.nl
		r.nl = 0
		for i := 0; i+1 < len(n.Sub); i += 2 {
			if r.l.Mode == 5 {
				// items separated by newlines (with an optional comma before the newline)
				if i > 0 && i%4 == 0 {
					r.t(",")
				}
				r.w("\n")
			} else if i > 0 {
				r.comma()
			}
			r.sp()
			r.expr(n.Sub[i])
			r.sp()
			if r.l.Mode == 1 {
				r.t(":") // spec.md: "=" or ":" between key and value
			} else {
				r.t("=")
			}
			r.sp()
			// a heredoc ends with a newline, which separates items here: anything that continues
			// after it must be inside parentheses
			if v := n.Sub[i+1]; containsHeredoc(v) && !(v.K == "tpl" && v.S != "q") {
				r.wrapped(v, true)
			} else {
				r.expr(v)
			}
		}
		if r.l.Mode == 5 && len(n.Sub) > 0 {
			r.w("\n")
		} else {
			r.sp()
		}
		r.nl = save
		r.t("}")
	case "index":
		r.postfixOperand(n.Sub[0])
		r.open("[")
		r.osp()
		r.expr(n.Sub[1])
		r.osp()
		r.close("]")
	case "attr":
		r.postfixOperand(n.Sub[0])
		r.t(".")
		r.t(n.S)
	case "legacy":
		// the legacy index syntax cannot be chained (x.0.0 lexes 0.0 as one number)
		if n.Sub[0].K == "legacy" && r.l.Mode != 4 {
			r.wrapped(n.Sub[0], true)
		} else {
			r.postfixOperand(n.Sub[0])
		}
		r.t(".")
		r.t(fmt.Sprint(n.N / 2))
	case "splat":
		r.postfixOperand(n.Sub[0])
		if n.S == "attr" {
			r.t(".")
			r.t("*")
		} else {
			r.t("[")
			r.t("*")
			r.t("]")
		}
		r.eachPath(n.Sub[1])
	case "for":
		openB, closeB := "[", "]"
		if n.S != "tuple" {
			openB, closeB = "{", "}"
		}
		r.open(openB)
		r.osp()
		r.t("for")
		r.sp()
		if n.N%4 != 0 {
			r.t(KeyVarNames[n.N%4])
			r.osp()
			r.t(",")
			r.sp()
		}
		r.t(n.S2)
		r.sp()
		r.t("in")
		r.sp()
		r.expr(n.Sub[0])
		r.sp()
		r.t(":")
		r.sp()
		if n.S != "tuple" {
			r.expr(n.Sub[1])
			r.sp()
			r.t("=>")
			r.sp()
		}
		r.expr(n.Sub[2])
		if n.S == "group" {
			r.t("...")
		}
		if n.Sub[3].K != "none" {
			r.sp()
			r.t("if")
			r.sp()
			r.expr(n.Sub[3])
		}
		r.osp()
		r.close(closeB)
	case "call":
		r.t(n.S)
		r.open("(")
		for i, s := range n.Sub {
			if i > 0 {
				r.comma()
				r.sp()
			} else {
				r.osp()
			}
			r.expr(s)
		}
		if n.N == 1 {
			r.t("...")
		} else if r.l.Mode == 5 && len(n.Sub) > 0 {
			r.t(",")
		}
		r.osp()
		r.close(")")
	case "tpl":
		switch n.S {
		case "q":
			r.t(`"`)
			save := r.nl
			r.nl = 0 // interpolation sequences re-enable newlines themselves
			r.tplParts(n.Sub)
			r.nl = save
			r.w(`"`)
		default:
			// heredoc: <<EOT / <<-EOT, the lines, the closing marker on its own line, and the
			// newline that must follow it
			if n.S == "hf" {
				r.t("<<-EOT\n")
			} else {
				r.t("<<EOT\n")
			}
			save := r.nl
			r.nl = 0
			for _, ln := range n.Sub {
				r.w(strings.Repeat(" ", ln.N))
				r.tplParts(ln.Sub)
				r.w("\n")
			}
			r.nl = save
			if n.S == "hf" {
				r.w("  ")
			}
			r.w("EOT\n")
		}
	default:
		panic("render: unknown node kind " + n.K)
	}
}

func containsHeredoc(n *Node) bool {
	if n.K == "tpl" && (n.S == "h" || n.S == "hf") {
		return true
	}
	for _, s := range n.Sub {
		if containsHeredoc(s) {
			return true
		}
	}
	return false
}

// Render produces native-syntax source text for the expression.
func Render(n *Node, l Layout) string {
	r := &renderer{l: l}
	if l.Mode == 2 || l.Mode == 6 || l.Mode == 8 {
		// a stand-alone expression ignores newlines everywhere; as an
		// attribute value it needs brackets, so wrap in parentheses
		r.open("(")
		r.osp()
		r.expr(n)
		r.osp()
		r.close(")")
		return r.sb.String()
	}
	r.expr(n)
	return r.sb.String()
}

// Shape returns a canonical structural string of the AST ignoring "paren" nodes.
func Shape(n *Node) string {
	var sb strings.Builder
	var walk func(n *Node)
	walk = func(n *Node) {
		if n.K == "paren" {
			walk(n.Sub[0])
			return
		}
		sb.WriteString(n.K)
		if n.S != "" || n.S2 != "" || n.N != 0 {
			fmt.Fprintf(&sb, "<%s|%s|%d>", n.S, n.S2, n.N)
		}
		if len(n.Sub) > 0 {
			sb.WriteString("(")
			for i, s := range n.Sub {
				if i > 0 {
					sb.WriteString(",")
				}
				walk(s)
			}
			sb.WriteString(")")
		}
	}
	walk(n)
	return sb.String()
}
