package e1

import (
	"fmt"
	"github.com/hashicorp/hcl/v2/ext/tryfunc"
	"math/big"

	"github.com/hashicorp/hcl/v2"
	"github.com/zclconf/go-cty/cty"
	"github.com/zclconf/go-cty/cty/function"

	"verif/harness/tla"
)

// ---- model types / values -> cty ----

func DecodeType(v any) (cty.Type, bool) {
	m := tla.Rec(v)
	k := tla.Str(m["k"])
	el := tla.Seq(m["e"])
	switch k {
	case "num":
		return cty.Number, true
	case "str":
		return cty.String, true
	case "bool":
		return cty.Bool, true
	case "dyn":
		return cty.DynamicPseudoType, true
	case "list", "set", "map":
		et, ok := DecodeType(el[0])
		if !ok {
			return cty.NilType, false
		}
		switch k {
		case "list":
			return cty.List(et), true
		case "set":
			return cty.Set(et), true
		}
		return cty.Map(et), true
	case "tup":
		ts := make([]cty.Type, len(el))
		for i, x := range el {
			t, ok := DecodeType(x)
			if !ok {
				return cty.NilType, false
			}
			ts[i] = t
		}
		return cty.Tuple(ts), true
	case "obj":
		names := tla.Strs(m["a"])
		at := map[string]cty.Type{}
		for i, x := range el {
			t, ok := DecodeType(x)
			if !ok {
				return cty.NilType, false
			}
			at[names[i]] = t
		}
		return cty.Object(at), true
	}
	return cty.NilType, false // "oom", "none"
}

func numVal(n2 int) cty.Value {
	f := new(big.Float).SetInt64(int64(n2))
	f.Quo(f, big.NewFloat(2))
	return cty.NumberVal(f)
}

// DecodeValue converts a model value to cty. ok=false when the model value is
// (or contains) "oom" or an untracked placeholder.
func DecodeValue(v any) (cty.Value, bool) {
	m := tla.Rec(v)
	k := tla.Str(m["k"])
	switch k {
	case "num":
		return numVal(tla.Int(m["n"])), true
	case "str":
		return cty.StringVal(tla.Str(m["s"])), true
	case "bool":
		return cty.BoolVal(tla.Int(m["n"]) == 1), true
	case "null":
		t, ok := DecodeType(m["ty"])
		if !ok {
			return cty.NilVal, false
		}
		return cty.NullVal(t), true
	case "unk":
		t, ok := DecodeType(m["ty"])
		if !ok {
			return cty.NilVal, false
		}
		return cty.UnknownVal(t), true
	case "oom":
		return cty.NilVal, false
	}
	es := tla.Seq(m["e"])
	vals := make([]cty.Value, len(es))
	for i, x := range es {
		ev, ok := DecodeValue(x)
		if !ok {
			return cty.NilVal, false
		}
		vals[i] = ev
	}
	switch k {
	case "tup":
		return cty.TupleVal(vals), true
	case "obj", "map":
		ks := tla.Strs(m["ks"])
		mv := map[string]cty.Value{}
		for i, key := range ks {
			mv[key] = vals[i]
		}
		if k == "obj" {
			return cty.ObjectVal(mv), true
		}
		t, ok := DecodeType(m["ty"])
		if !ok {
			return cty.NilVal, false
		}
		if len(mv) == 0 {
			return cty.MapValEmpty(t), true
		}
		if !cty.CanMapVal(mv) {
			return cty.NilVal, false
		}
		return cty.MapVal(mv), true
	case "list", "set":
		t, ok := DecodeType(m["ty"])
		if !ok {
			return cty.NilVal, false
		}
		if len(vals) == 0 {
			if k == "list" {
				return cty.ListValEmpty(t), true
			}
			return cty.SetValEmpty(t), true
		}
		if k == "list" {
			if !cty.CanListVal(vals) {
				return cty.NilVal, false
			}
			return cty.ListVal(vals), true
		}
		if !cty.CanSetVal(vals) {
			return cty.NilVal, false
		}
		return cty.SetVal(vals), true
	}
	panic(fmt.Sprintf("DecodeValue: unknown kind %q", k))
}

// ---- the shared scope (must equal MC_E1!Scope) ----

func Scope() map[string]cty.Value {
	return map[string]cty.Value{
		"n1":  cty.NumberIntVal(1),
		"n2":  cty.NumberIntVal(2),
		"nh":  cty.NumberFloatVal(0.5),
		"s":   cty.StringVal("a"),
		"sn":  cty.StringVal("1"),
		"b":   cty.True,
		"nul": cty.NullVal(cty.DynamicPseudoType),
		"ns":  cty.NullVal(cty.String),
		"l":   cty.ListVal([]cty.Value{cty.NumberIntVal(1), cty.NumberIntVal(2)}),
		"ls":  cty.ListVal([]cty.Value{cty.StringVal("a"), cty.StringVal("b")}),
		"le":  cty.ListValEmpty(cty.Object(map[string]cty.Type{"a": cty.Number})),
		"t":   cty.TupleVal([]cty.Value{cty.NumberIntVal(1), cty.StringVal("a")}),
		"o":   cty.ObjectVal(map[string]cty.Value{"a": cty.NumberIntVal(1), "b": cty.StringVal("x")}),
		"m":   cty.MapVal(map[string]cty.Value{"a": cty.StringVal("x"), "b": cty.StringVal("y")}),
		"st":  cty.SetVal([]cty.Value{cty.StringVal("a"), cty.StringVal("b")}),
		"lo": cty.ListVal([]cty.Value{
			cty.ObjectVal(map[string]cty.Value{"a": cty.NumberIntVal(1)}),
			cty.ObjectVal(map[string]cty.Value{"a": cty.NumberIntVal(2)}),
		}),
		"oo": cty.ObjectVal(map[string]cty.Value{"a": cty.ObjectVal(map[string]cty.Value{"b": cty.NumberIntVal(1)})}),
	}
}

// Functions implements the spec's function table (HclExpr!FnParams).
func Functions() map[string]function.Function {
	m := baseFunctions()
	m["ns::id"] = m["id"]
	m["a::b::upper"] = m["upper"]
	return m
}

func baseFunctions() map[string]function.Function {
	str := func(name string, allowNull bool) function.Parameter {
		return function.Parameter{Name: name, Type: cty.String, AllowNull: allowNull}
	}
	return map[string]function.Function{
		"try": tryfunc.TryFunc,
		"can": tryfunc.CanFunc,
		"id": function.New(&function.Spec{
			Params: []function.Parameter{{Name: "v", Type: cty.DynamicPseudoType, AllowNull: true, AllowUnknown: true, AllowDynamicType: true, AllowMarked: true}},
			Type:   func(args []cty.Value) (cty.Type, error) { return args[0].Type(), nil },
			Impl:   func(args []cty.Value, retType cty.Type) (cty.Value, error) { return args[0], nil },
		}),
		"upper": function.New(&function.Spec{
			Params: []function.Parameter{str("s", false)},
			Type:   function.StaticReturnType(cty.String),
			Impl: func(args []cty.Value, retType cty.Type) (cty.Value, error) {
				b := []byte(args[0].AsString())
				for i, c := range b {
					if c >= 'a' && c <= 'z' {
						b[i] = c - 32
					}
				}
				return cty.StringVal(string(b)), nil
			},
		}),
		"add": function.New(&function.Spec{
			Params: []function.Parameter{{Name: "a", Type: cty.Number}, {Name: "b", Type: cty.Number}},
			Type:   function.StaticReturnType(cty.Number),
			Impl:   func(args []cty.Value, retType cty.Type) (cty.Value, error) { return args[0].Add(args[1]), nil },
		}),
		"cat": function.New(&function.Spec{
			VarParam: &function.Parameter{Name: "parts", Type: cty.String},
			Type:     function.StaticReturnType(cty.String),
			Impl: func(args []cty.Value, retType cty.Type) (cty.Value, error) {
				s := ""
				for _, a := range args {
					s += a.AsString()
				}
				return cty.StringVal(s), nil
			},
		}),
		"nn": function.New(&function.Spec{
			Params: []function.Parameter{str("s", true)},
			Type:   function.StaticReturnType(cty.String),
			Impl: func(args []cty.Value, retType cty.Type) (cty.Value, error) {
				if args[0].IsNull() {
					return cty.StringVal("null"), nil
				}
				return args[0], nil
			},
		}),
		"fail": function.New(&function.Spec{
			Type: function.StaticReturnType(cty.String),
			Impl: func(args []cty.Value, retType cty.Type) (cty.Value, error) {
				return cty.NilVal, fmt.Errorf("application function failed")
			},
		}),
		"len": function.New(&function.Spec{
			Params: []function.Parameter{{Name: "c", Type: cty.DynamicPseudoType}},
			Type:   function.StaticReturnType(cty.Number),
			Impl: func(args []cty.Value, retType cty.Type) (cty.Value, error) {
				t := args[0].Type()
				if t.IsCollectionType() || t.IsTupleType() {
					return args[0].Length(), nil
				}
				if t.IsObjectType() {
					return cty.NumberIntVal(int64(len(t.AttributeTypes()))), nil
				}
				return cty.NilVal, function.NewArgErrorf(0, "value has no length")
			},
		}),
	}
}

func Ctx() *hcl.EvalContext {
	return &hcl.EvalContext{Variables: Scope(), Functions: Functions()}
}
