// Package c14: tokens tile the source and every reported position is faithful.
package c14

import (
	"bytes"
	"fmt"
	"strings"

	"github.com/apparentlymart/go-textseg/v15/textseg"
	"github.com/hashicorp/hcl/v2"
	"github.com/hashicorp/hcl/v2/hclsyntax"

	"verif/harness/core"
	"verif/harness/e1"
	"verif/harness/tla"
)

var rep = map[string]string{
	"a": "a", "1": "1", "SP": " ", "TAB": "\t", "NL": "\n", "CR": "\r", "DQ": `"`, "BS": `\`, "DOLLAR": "$", "PCT": "%",
	"LBRACE": "{", "RBRACE": "}", "HASH": "#", "SLASH": "/", "STAR": "*", "LT": "<", "MINUS": "-", "DOT": ".", "EQ": "=",
	"NUL": "\x00", "BAD": "\xff", "EXT3": "\u20dd", "ZWJ": "\u200d", "VS": "\ufe0f", "MB": "é", "COMB": "́", "ASTRAL": "😀",
	"NBSP": "\u00a0", "FF": "\f", "HOPEN": "<<a\n",
}

// refPos computes the position of byte offset ofs independently: newlines and
// grapheme clusters (textseg) counted from the start of the source.
func refPos(src []byte, ofs int, start hcl.Pos) hcl.Pos {
	p := start
	b := src[:ofs]
	for len(b) > 0 {
		adv, seq, _ := textseg.ScanGraphemeClusters(b, true)
		if (len(seq) == 1 && seq[0] == '\n') || (len(seq) == 2 && seq[0] == '\r' && seq[1] == '\n') {
			p.Line++
			p.Column = 1
		} else {
			p.Column++
		}
		b = b[adv:]
	}
	p.Byte = start.Byte + ofs
	return p
}

// onClusterBoundary reports whether offset ofs is a grapheme cluster boundary of src.
func onClusterBoundary(src []byte, ofs int) bool {
	if ofs == 0 || ofs == len(src) {
		return true
	}
	b := src
	at := 0
	for len(b) > 0 {
		adv, _, _ := textseg.ScanGraphemeClusters(b, true)
		at += adv
		if at == ofs {
			return true
		}
		if at > ofs {
			return false
		}
		b = b[adv:]
	}
	return false
}

type lexFn struct {
	name string
	fn   func([]byte, string, hcl.Pos) (hclsyntax.Tokens, hcl.Diagnostics)
}

var lexers = []lexFn{{"LexConfig", hclsyntax.LexConfig}, {"LexExpression", hclsyntax.LexExpression}, {"LexTemplate", hclsyntax.LexTemplate}}

// CheckTiling applies the tiling/position relation to the tokens of src. bounds (optional) are the
// TLA+ reference positions at class boundaries (byte offset -> position).
func CheckTiling(c *core.Check, src []byte, start hcl.Pos, bounds map[int]hcl.Pos, vec map[string]any) bool {
	bomLen := 0
	if bytes.HasPrefix(src, []byte("\xEF\xBB\xBF")) {
		bomLen = 3
	}
	for _, lx := range lexers {
		var toks hclsyntax.Tokens
		c.Count("evaluations", 1)
		if rec, p := core.Guard(func() { toks, _ = lx.fn(src, "x.hcl", start) }); p {
			c.Violation("panic/"+lx.name, fmt.Sprintf("%s(%q) panicked: %v", lx.name, src, rec), vec)
			return false
		}
		bad := func(kind, what string) bool {
			c.Violation(kind+"/"+lx.name, fmt.Sprintf("%s(%q): %s", lx.name, src, what), vec)
			return false
		}
		if len(toks) == 0 || toks[len(toks)-1].Type != hclsyntax.TokenEOF {
			return bad("no-eof", "the stream does not end with an EOF token")
		}
		prevEnd := bomLen
		// once a token boundary splits a grapheme cluster, columns on that line are outside the
		// statement ("wherever token boundaries fall on grapheme-cluster boundaries")
		taintedLine := -1
		for i, t := range toks {
			so := t.Range.Start.Byte - start.Byte
			eo := t.Range.End.Byte - start.Byte
			if so < prevEnd || eo < so || eo > len(src) {
				return bad("overlap-or-order", fmt.Sprintf("token %d (%s) has byte range %d..%d after previous end %d (source length %d)", i, t.Type, so, eo, prevEnd, len(src)))
			}
			if !bytes.Equal(src[so:eo], t.Bytes) {
				return bad("bytes-differ", fmt.Sprintf("token %d (%s) carries %q but its range slices %q", i, t.Type, t.Bytes, src[so:eo]))
			}
			for _, g := range src[prevEnd:so] {
				if g != ' ' && g != '\t' {
					return bad("gap-not-blank", fmt.Sprintf("the gap before token %d (%s) contains %q", i, t.Type, src[prevEnd:so]))
				}
			}
			if t.Type == hclsyntax.TokenEOF {
				if i != len(toks)-1 {
					return bad("eof-not-last", "an EOF token occurs before the end of the stream")
				}
				if eo != len(src) || so != len(src) {
					return bad("eof-position", fmt.Sprintf("EOF token at %d..%d, source length %d", so, eo, len(src)))
				}
			}
			// positions: wherever the boundary falls on a grapheme cluster boundary
			for _, edge := range []struct {
				ofs int
				pos hcl.Pos
				nm  string
			}{{so, t.Range.Start, "start"}, {eo, t.Range.End, "end"}} {
				if bomLen > 0 {
					continue // a BOM only shifts byte offsets; columns are checked on BOM-free inputs
				}
				if !onClusterBoundary(src, edge.ofs) {
					taintedLine = edge.pos.Line
					continue
				}
				want := refPos(src, edge.ofs, start)
				if edge.pos.Line == taintedLine && want.Line == taintedLine {
					want.Column = edge.pos.Column
				}
				if edge.pos != want {
					return bad("position", fmt.Sprintf("token %d (%s %q) %s position is %+v, counting newlines and grapheme clusters gives %+v", i, t.Type, t.Bytes, edge.nm, edge.pos, want))
				}
				if mp, ok := bounds[edge.ofs]; ok && mp != want && edge.pos.Line != taintedLine {
					c.Broken("position model drift at offset %d of %q: HclLexPos says %+v, textseg counting says %+v", edge.ofs, src, mp, want)
					return false
				}
			}
			prevEnd = eo
		}
	}
	return true
}

// SourceOf instantiates the class string of an MC_C14 state (for other checks that only need the bytes).
func SourceOf(st core.State) []byte {
	var sb strings.Builder
	for _, cl := range tla.Strs(st.Vars["s"]) {
		sb.WriteString(rep[cl])
	}
	return []byte(sb.String())
}

func Handle(c *core.Check, st core.State) {
	classes := tla.Strs(st.Vars["s"])
	if len(classes) == 0 {
		return
	}
	c.Count("vectors_replayed", 1)
	var sb strings.Builder
	ofs := []int{0}
	for _, cl := range classes {
		sb.WriteString(rep[cl])
		ofs = append(ofs, sb.Len())
	}
	src := []byte(sb.String())
	bs := tla.Seq(st.Vars["bounds"])
	first := tla.Rec(bs[0])
	start := hcl.Pos{Byte: tla.Int(first["byte"]), Line: tla.Int(first["line"]), Column: tla.Int(first["col"])}
	bounds := map[int]hcl.Pos{}
	for i, b := range bs {
		m := tla.Rec(b)
		// only class boundaries that are cluster boundaries carry a defined column
		bounds[ofs[i]] = hcl.Pos{Byte: tla.Int(m["byte"]), Line: tla.Int(m["line"]), Column: tla.Int(m["col"])}
	}
	for o := range bounds {
		if !onClusterBoundary(src, o) {
			delete(bounds, o)
		}
	}
	vec := map[string]any{"state": st.Raw, "source": string(src), "classes": strings.Join(classes, " ")}
	if CheckTiling(c, src, start, bounds, vec) {
		c.Nontrivial(string(src))
		if len(classes) >= 4 && (strings.Contains(string(src), "\n") || strings.Contains(string(src), "é")) {
			c.Sample(map[string]any{"source": string(src), "classes": strings.Join(classes, " ")})
		}
	}
}

// ---- range fidelity for error-free parses ----

// sigText joins the bytes of the significant tokens of a source slice (comments and newlines,
// which are inter-token material, dropped).
func sigText(s string) string {
	toks, _ := hclsyntax.LexExpression([]byte(s), "x.hcl", hcl.InitialPos)
	var sb strings.Builder
	for _, t := range toks {
		switch t.Type {
		case hclsyntax.TokenComment, hclsyntax.TokenNewline, hclsyntax.TokenEOF:
		default:
			sb.Write(t.Bytes)
		}
	}
	return sb.String()
}

func sliceIs(src []byte, r hcl.Range, want string) bool {
	return r.Start.Byte >= 0 && r.End.Byte <= len(src) && r.Start.Byte <= r.End.Byte && string(src[r.Start.Byte:r.End.Byte]) == want
}

// CheckRanges verifies that recorded ranges slice the source to exactly the construct.
func CheckRanges(c *core.Check, src []byte, vec map[string]any) bool {
	f, diags := hclsyntax.ParseConfig(src, "x.hcl", hcl.InitialPos)
	if diags.HasErrors() {
		return false
	}
	c.Count("evaluations", 1)
	ok := true
	bad := func(kind, what string) {
		if ok {
			c.Violation("range/"+kind, fmt.Sprintf("%q: %s", src, what), vec)
		}
		ok = false
	}
	var walkBody func(b *hclsyntax.Body)
	checkPos := func(r hcl.Range, what string) {
		for _, e := range []struct {
			p  hcl.Pos
			nm string
		}{{r.Start, "start"}, {r.End, "end"}} {
			if e.p.Byte < 0 || e.p.Byte > len(src) {
				bad("out-of-bounds", fmt.Sprintf("%s %s byte %d outside the source", what, e.nm, e.p.Byte))
				return
			}
			if onClusterBoundary(src, e.p.Byte) && !bytes.HasPrefix(src, []byte("\xEF\xBB\xBF")) {
				if want := refPos(src, e.p.Byte, hcl.InitialPos); want != e.p {
					bad("position", fmt.Sprintf("%s %s is %+v, counting gives %+v", what, e.nm, e.p, want))
					return
				}
			}
		}
	}
	walkBody = func(b *hclsyntax.Body) {
		for name, a := range b.Attributes {
			if !sliceIs(src, a.NameRange, name) {
				bad("attribute-name", fmt.Sprintf("NameRange of attribute %q slices %q", name, a.NameRange.SliceBytes(src)))
			}
			if !sliceIs(src, a.EqualsRange, "=") {
				bad("equals", fmt.Sprintf("EqualsRange of attribute %q slices %q", name, a.EqualsRange.SliceBytes(src)))
			}
			checkPos(a.NameRange, "attribute name")
			checkPos(a.Expr.Range(), "expression")
			// the expression's range re-parses to an equivalent expression
			es := a.Expr.Range().SliceBytes(src)
			re, rd := hclsyntax.ParseExpression(es, "e.hcl", hcl.InitialPos)
			if rd.HasErrors() {
				bad("expression-reparse", fmt.Sprintf("expression range of %q slices %q, which does not parse: %s", name, es, rd.Error()))
			} else {
				v0, d0 := a.Expr.Value(e1.Ctx())
				v1, d1 := re.Value(e1.Ctx())
				if d0.HasErrors() != d1.HasErrors() || (!d0.HasErrors() && !v0.RawEquals(v1)) {
					bad("expression-reparse-differs", fmt.Sprintf("expression range of %q slices %q, which evaluates differently (%s vs %s)", name, es, e1.Describe(v1), e1.Describe(v0)))
				}
			}
			checkExprRanges(src, a.Expr, bad)
		}
		for _, bl := range b.Blocks {
			if !sliceIs(src, bl.TypeRange, bl.Type) {
				bad("block-type", fmt.Sprintf("TypeRange of block %q slices %q", bl.Type, bl.TypeRange.SliceBytes(src)))
			}
			if !sliceIs(src, bl.OpenBraceRange, "{") {
				bad("open-brace", fmt.Sprintf("OpenBraceRange slices %q", bl.OpenBraceRange.SliceBytes(src)))
			}
			if !sliceIs(src, bl.CloseBraceRange, "}") {
				bad("close-brace", fmt.Sprintf("CloseBraceRange slices %q", bl.CloseBraceRange.SliceBytes(src)))
			}
			checkPos(bl.TypeRange, "block type")
			checkPos(bl.OpenBraceRange, "open brace")
			checkPos(bl.CloseBraceRange, "close brace")
			for i, lr := range bl.LabelRanges {
				ls := string(lr.SliceBytes(src))
				bare := ls == bl.Labels[i]
				quoted := len(ls) >= 2 && ls[0] == '"' && ls[len(ls)-1] == '"'
				if !bare && !quoted {
					bad("label", fmt.Sprintf("LabelRanges[%d] slices %q for label %q", i, ls, bl.Labels[i]))
				}
				if quoted {
					le, ld := hclsyntax.ParseExpression([]byte(ls), "l.hcl", hcl.InitialPos)
					if ld.HasErrors() {
						bad("label", fmt.Sprintf("LabelRanges[%d] slices %q, which is not a string literal", i, ls))
					} else if lv, _ := le.Value(nil); !lv.IsKnown() || lv.IsNull() || lv.AsString() != bl.Labels[i] {
						bad("label", fmt.Sprintf("LabelRanges[%d] slices %q, which does not denote %q", i, ls, bl.Labels[i]))
					}
				}
				checkPos(lr, "label")
			}
			walkBody(bl.Body)
		}
	}
	walkBody(f.Body.(*hclsyntax.Body))
	return true
}

// rangeNesting: the range of every sub-expression lies inside the range of the expression that contains it.
type rangeNesting struct {
	stack []hcl.Range
	bad   func(string, string)
	src   []byte
}

func (w *rangeNesting) Enter(n hclsyntax.Node) hcl.Diagnostics {
	r := n.Range()
	if _, anon := n.(*hclsyntax.AnonSymbolExpr); !anon && len(w.stack) > 0 {
		p := w.stack[len(w.stack)-1]
		if r.Start.Byte < p.Start.Byte || r.End.Byte > p.End.Byte {
			w.bad("nesting", fmt.Sprintf("%T range %q is not inside its parent's range %q", n, r.SliceBytes(w.src), p.SliceBytes(w.src)))
		}
	}
	if _, anon := n.(*hclsyntax.AnonSymbolExpr); anon {
		r = hcl.Range{Start: hcl.Pos{Byte: 0}, End: hcl.Pos{Byte: len(w.src)}}
	}
	w.stack = append(w.stack, r)
	return nil
}

func (w *rangeNesting) Exit(n hclsyntax.Node) hcl.Diagnostics {
	w.stack = w.stack[:len(w.stack)-1]
	return nil
}

func checkExprRanges(src []byte, e hclsyntax.Expression, bad func(string, string)) {
	hclsyntax.Walk(e, &rangeNesting{bad: bad, src: src})
	hclsyntax.VisitAll(e, func(n hclsyntax.Node) hcl.Diagnostics {
		switch t := n.(type) {
		case *hclsyntax.BinaryOpExpr:
			lhs, rhs := t.LHS.Range(), t.RHS.Range()
			if lhs.End.Byte > rhs.Start.Byte || t.SrcRange.Start.Byte > lhs.Start.Byte || t.SrcRange.End.Byte < rhs.End.Byte {
				bad("binary-op", fmt.Sprintf("binary operation range %v does not enclose its operands %v, %v", t.SrcRange, lhs, rhs))
			}
		case *hclsyntax.UnaryOpExpr:
			sym := string(t.SymbolRange.SliceBytes(src))
			if sym != "-" && sym != "!" {
				bad("unary-symbol", fmt.Sprintf("unary SymbolRange slices %q", sym))
			}
		case *hclsyntax.FunctionCallExpr:
			// a namespaced name is several tokens (ns :: fn) that may be separated by blanks
			if sl := string(t.NameRange.SliceBytes(src)); !sliceIs(src, t.NameRange, t.Name) && (strings.TrimSpace(sl) != sl || sigText(sl) != t.Name) {
				bad("call-name", fmt.Sprintf("call NameRange slices %q for %q", t.NameRange.SliceBytes(src), t.Name))
			}
			if !sliceIs(src, t.OpenParenRange, "(") || !sliceIs(src, t.CloseParenRange, ")") {
				bad("call-parens", fmt.Sprintf("call paren ranges slice %q and %q", t.OpenParenRange.SliceBytes(src), t.CloseParenRange.SliceBytes(src)))
			}
		case *hclsyntax.TupleConsExpr:
			if !sliceIs(src, t.OpenRange, "[") {
				bad("tuple-open", fmt.Sprintf("tuple OpenRange slices %q", t.OpenRange.SliceBytes(src)))
			}
		case *hclsyntax.ObjectConsExpr:
			if !sliceIs(src, t.OpenRange, "{") {
				bad("object-open", fmt.Sprintf("object OpenRange slices %q", t.OpenRange.SliceBytes(src)))
			}
		case *hclsyntax.IndexExpr:
			if !sliceIs(src, t.OpenRange, "[") {
				bad("index-open", fmt.Sprintf("index OpenRange slices %q", t.OpenRange.SliceBytes(src)))
			}
			if br := string(t.BracketRange.SliceBytes(src)); !strings.HasPrefix(br, "[") || !strings.HasSuffix(br, "]") ||
				t.BracketRange.Start.Byte > t.Key.Range().Start.Byte || t.BracketRange.End.Byte < t.Key.Range().End.Byte {
				bad("index-brackets", fmt.Sprintf("index BracketRange slices %q (key %q)", br, t.Key.Range().SliceBytes(src)))
			}
		case *hclsyntax.ForExpr:
			o, cl := string(t.OpenRange.SliceBytes(src)), string(t.CloseRange.SliceBytes(src))
			tplFor := strings.HasPrefix(o, "%{") && strings.HasSuffix(o, "}") && strings.Contains(o, "for") &&
				strings.HasPrefix(cl, "%{") && strings.HasSuffix(cl, "}") && strings.Contains(cl, "endfor")
			if !((o == "[" && cl == "]") || (o == "{" && cl == "}") || tplFor) {
				bad("for-brackets", fmt.Sprintf("for expression Open/CloseRange slice %q and %q", o, cl))
			}
		case *hclsyntax.SplatExpr:
			if m := sigText(string(t.MarkerRange.SliceBytes(src))); m != ".*" && m != "[*]" {
				bad("splat-marker", fmt.Sprintf("splat MarkerRange slices %q", t.MarkerRange.SliceBytes(src)))
			}
		case *hclsyntax.ScopeTraversalExpr:
			for _, step := range t.Traversal {
				r := step.SourceRange()
				s := string(r.SliceBytes(src))
				switch st := step.(type) {
				case hcl.TraverseRoot:
					if s != st.Name {
						bad("traversal-root", fmt.Sprintf("root step range slices %q for %q", s, st.Name))
					}
				case hcl.TraverseAttr:
					if strings.TrimSpace(s) != s || sigText(s) != "."+st.Name {
						bad("traversal-attr", fmt.Sprintf("attribute step range slices %q for .%s", s, st.Name))
					}
				case hcl.TraverseIndex:
					t := strings.TrimSpace(s)
					if !(strings.HasPrefix(t, "[") && strings.HasSuffix(t, "]")) && !strings.HasPrefix(t, ".") {
						bad("traversal-index", fmt.Sprintf("index step range slices %q", s))
					}
				}
			}
		}
		return nil
	})
}
