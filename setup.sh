#!/bin/bash
# Offline setup: compile the harness once (warms the Go build cache) and run SANY over every spec module.
set -u
cd "$(dirname "$0")"
export VERIF_DIR="$(pwd)"
export GOFLAGS=-mod=mod GOPROXY=off
unset GOTOOLCHAIN GOSUMDB
mkdir -p .bin evidence replays
( cd harness && cp /repo/go.sum go.sum && cat go.sum.extra >> go.sum 2>/dev/null; go build -tags verif -o ../.bin/vcheck ./cmd/vcheck ) || { echo "setup: harness build failed"; exit 1; }
rc=0
for f in spec/*.tla; do
  m=$(basename "$f" .tla)
  out=$(cd spec && java -cp /opt/veriftools/tla/tla2tools.jar:/opt/veriftools/tla/CommunityModules-deps.jar tla2sany.SANY "$m.tla" 2>&1)
  if echo "$out" | grep -qE '\*\*\* Errors|Fatal errors|Could not'; then echo "SANY failed for $m"; echo "$out" | tail -20; rc=1; fi
done
rm -rf spec/states spec/*.toolbox 2>/dev/null
exit $rc
