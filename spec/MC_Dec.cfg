SPECIFICATION Spec
INVARIANT TypeConforms
CHECK_DEADLOCK FALSE
