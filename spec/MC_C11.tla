------------------------------ MODULE MC_C11 ------------------------------
(***************************************************************************)
(* Generator for C11 (generated source reads back as its value).           *)
(* A vector is an abstract value: strings are class sequences (HclLexStr), *)
(* numbers are indices into the replayer's fixed number list, object/map   *)
(* keys are class sequences or whole keywords.  TLC builds the value by    *)
(* one action per constructor and checks the escape law on every string.   *)
(***************************************************************************)
EXTENDS HclLexStr

CONSTANTS MaxLen,     \* maximal string length (in classes)
          MaxD,       \* nesting depth of collections
          Alphabet    \* subset of Classes used for this run

VARIABLES v, d

vars == <<v, d>>

\* value records: [k, n, cs, kw, e, keys]
\*   str: cs = class sequence, or kw # "" for a whole keyword / fixed word
\*   num: n = index into the replayer's number table     bool: n \in {0,1}    null: n = type index
\*   tup/list/set: e = elements      obj/map: e = elements, keys = key strings (as str values)
VR(k, n, cs, kw, e, keys) == [k |-> k, n |-> n, cs |-> cs, kw |-> kw, e |-> e, keys |-> keys]
VStr(cs)  == VR("str", 0, cs, "", <<>>, <<>>)
VWord(w)  == VR("str", 0, <<>>, w, <<>>, <<>>)
VNum(i)   == VR("num", i, <<>>, "", <<>>, <<>>)
VBool(b)  == VR("bool", b, <<>>, "", <<>>, <<>>)
VNull(t)  == VR("null", t, <<>>, "", <<>>, <<>>)

Words == {"for", "in", "if", "null", "true", "else", "endif", "a-b", "1a", "a.b", "", "-", "-a", "-07", "_", "a_1", "a-"}
NNumbers == 12

KeyVals == {VWord(w) : w \in Words} \cup {VStr(<<c>>) : c \in Alphabet} \cup {VStr(<<"a", "SP", "b">>), VStr(<<"DOLLAR", "LBRACE">>)}

Prims == {VNum(i) : i \in 1..NNumbers} \cup {VBool(0), VBool(1)} \cup {VNull(t) : t \in 1..3} \cup {VWord(w) : w \in Words}

Init == /\ v = VStr(<<>>) /\ d = 0

\* grow a string by one class
AddChar == /\ d = 0 /\ v.k = "str" /\ v.kw = "" /\ Len(v.cs) < MaxLen
           /\ \E c \in Alphabet : v' = VStr(Append(v.cs, c))
           /\ UNCHANGED d

\* replace the empty start value by a primitive
PickPrim == /\ d = 0 /\ v = VStr(<<>>)
            /\ v' \in Prims
            /\ UNCHANGED d

Wrap == /\ d < MaxD
        /\ \/ \E k \in {"tup", "list", "set"} : v' = VR(k, 0, <<>>, "", <<v>>, <<>>)
           \/ v' = VR("tup", 0, <<>>, "", <<v, VNum(1)>>, <<>>)
           \/ v' = VR("tup", 0, <<>>, "", <<>>, <<>>)
           \/ \E key \in KeyVals, k \in {"obj", "map"} : v' = VR(k, 0, <<>>, "", <<v>>, <<key>>)
           \/ \E key \in KeyVals : v' = VR("obj", 0, <<>>, "", <<VNum(2), v>>, <<VWord("zz"), key>>)
        /\ d' = d + 1

Next == AddChar \/ PickPrim \/ Wrap
Spec == Init /\ [][Next]_vars

\* the escape law of the specification, checked on every generated string
RECURSIVE AllStrs(_)
AllStrs(x) == (IF x.k = "str" /\ x.kw = "" THEN {x.cs} ELSE {})
              \cup UNION {AllStrs(x.e[i]) : i \in 1..Len(x.e)}
              \cup UNION {AllStrs(x.keys[i]) : i \in 1..Len(x.keys)}

EscapeRoundTrip == \A s \in AllStrs(v) : Unescape(Escape(s)) = s /\ ~HasIntroducer(Escape(s))
=============================================================================
