SPECIFICATION DSpec
CHECK_DEADLOCK FALSE
