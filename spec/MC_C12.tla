------------------------------ MODULE MC_C12 ------------------------------
EXTENDS HclWriteTree

MCNames == {"a", "b"}
MCTypes == {"t", "u"}
MCLabelSets == {<<>>, <<"x">>, <<"x", "y">>}
\* payload table: the Go replayer maps (vk, vn) to concrete values, traversals and raw tokens
MCVals == {[vk |-> "val", vn |-> 0], [vk |-> "val", vn |-> 1],
           [vk |-> "trav", vn |-> 0], [vk |-> "raw", vn |-> 0]}
MCInits == {"empty", "parsed", "oneline", "emptyblk"}
MCInitsParsed == {"parsed"}
=============================================================================
