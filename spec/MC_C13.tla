------------------------------ MODULE MC_C13 ------------------------------
(* All class strings up to MaxN over Alphabet, each with the recogniser's verdict. *)
EXTENDS Json8259

CONSTANTS MaxN, Alphabet

VARIABLES s, st

vars == <<s, st>>

Init == s = <<>> /\ st = Start
Next == /\ Len(s) < MaxN
        /\ \E c \in Alphabet : s' = Append(s, c) /\ st' = Feed(st, c)
        \* extending a dead prefix by non-structural characters teaches nothing: prune
        /\ (st.mode = "dead" => Len(s) < MaxN - 1)
Spec == Init /\ [][Next]_vars

\* the incremental configuration equals a fresh run (determinism / totality of Feed)
Incremental == st = Run(Start, s, 1)
\* a dead configuration never recovers
DeadIsFinal == [][st.mode = "dead" => st'.mode = "dead"]_vars

Full == AllClasses
Reduced == {"LB", "RB", "LK", "RK", "COMMA", "COLON", "DQ", "BS", "SP", "NLWS", "CH", "N0", "N1", "MINUS", "DOT", "EXP", "LIT"}
=============================================================================
