----------------------------- MODULE HclStruct -----------------------------
(***************************************************************************)
(* The structural language of the native syntax (hclsyntax/spec.md         *)
(* "Structural Elements", "Comments and Whitespace") as a layout machine   *)
(* (property C02).                                                         *)
(*                                                                         *)
(* A behaviour writes one configuration file left to right.  The state     *)
(* holds the lexemes written so far (`out`) and the abstract body tree     *)
(* they denote (`tree`, a flat pre-order list of items with their depth    *)
(* and parent).  Every action is one structural production together with   *)
(* its layout choices; non-canonical choices are charged to a layout       *)
(* budget so that TLC enumerates every rendering with at most MaxL         *)
(* deviations from the canonical layout.                                   *)
(***************************************************************************)
EXTENDS Integers, Sequences, FiniteSets, TLC

CONSTANTS MaxItems, MaxDepth, MaxL, AttrNames, BlockTypes,
          Values,      \* attribute value lexemes
          LabelMode    \* "full": every label spelling; "few": a small representative set

VARIABLES out,      \* sequence of lexemes (strings) written so far
          tree,     \* sequence of items [k, name, labels, depth, parent, id, oneline]
          open,     \* stack of ids of the blocks currently open (innermost last)
          cost,     \* layout deviations used
          closed,   \* TRUE once the file has been finished (optional missing final newline, ...)
          lastEol   \* did the last production end with a newline lexeme?

vars == <<out, tree, open, cost, closed, lastEol>>

Item(k, name, labels, depth, parent, id) ==
    [k |-> k, name |-> name, labels |-> labels, depth |-> depth, parent |-> parent, id |-> id]

---------------------------------------------------------------------------
(* Label spellings: the escape relation of quoted labels (spec.md string   *)
(* literals) given as an explicit table from label MEANING to the source   *)
(* spellings that denote it.  Meanings are named symbolically because TLC  *)
(* has no character operators; the replayer holds the same table.          *)
LabelMeanings == {"x", "sp", "dq", "nl", "bs", "dollar", "tpl", "uni", "tab", "kw"}
Spellings(m) ==
    CASE m = "x"      -> {"bare:x", "q:x", "q:\\u0078"}
      [] m = "sp"     -> {"q:a b"}
      [] m = "dq"     -> {"q:a\\\"b", "q:a\\u0022b"}
      [] m = "nl"     -> {"q:a\\nb", "q:a\\u000ab"}
      [] m = "bs"     -> {"q:a\\\\b"}
      [] m = "dollar" -> {"q:a$b", "q:$"}              \* a lone dollar sign is literal (two different meanings kept apart by the replayer)
      [] m = "tpl"    -> {"q:$${a}", "q:%%{a}"}        \* escaped template introducers
      [] m = "uni"    -> {"q:\\u00e9", "q:\\U000000e9", "q:UTF8E9"}
      [] m = "tab"    -> {"q:a\\tb", "q:a\\rb"}
      [] m = "kw"     -> {"bare:for", "bare:null", "q:for"}
LabelSpellings == UNION {Spellings(m) : m \in LabelMeanings}

---------------------------------------------------------------------------
(* Layout vocabulary.  The first element of each tuple is the canonical    *)
(* choice (cost 0).                                                        *)
Indents   == <<"", "  ", "\t">>
Gaps      == <<" ", "", "  ", "\t", " /* c */ ", " /* c\nd */ ">>   \* between tokens of one line (an inline comment is whitespace, even when it spans lines)
Trailers  == <<"", " # c", " // c", " /* c */">>         \* after the last token of a line, before the newline
Eols      == <<"\n", "\r\n">>
Leads     == <<"", "\n", "# c\n", "// c\n", "/* c */\n", "/* c\nd */\n", "  \n">>   \* whole lines before an item

Cost(seq, x) == IF x = seq[1] THEN 0 ELSE 1
Range(seq) == {seq[i] : i \in 1..Len(seq)}

Depth == Len(open)
Parent == IF open = <<>> THEN 0 ELSE open[Len(open)]
NextId == Len(tree) + 1


---------------------------------------------------------------------------
Init == /\ out \in {<<>>, <<"BOM">>}          \* a leading byte-order mark is tolerated
        /\ tree = <<>> /\ open = <<>> /\ closed = FALSE /\ lastEol = TRUE
        /\ cost = IF out = <<>> THEN 0 ELSE 1

CanAdd == ~closed /\ Len(tree) < MaxItems

\* name = value
EmitAttr ==
    /\ CanAdd
    /\ \E n \in AttrNames, v \in Values, ld \in Range(Leads), ind \in Range(Indents), g1 \in Range(Gaps), g2 \in Range(Gaps),
          tr \in Range(Trailers), eol \in Range(Eols) :
          LET c == Cost(Leads, ld) + Cost(Indents, ind) + Cost(Gaps, g1) + Cost(Gaps, g2) + Cost(Trailers, tr) + Cost(Eols, eol) IN
          /\ cost + c <= MaxL
          /\ cost' = cost + c
          /\ out' = out \o <<ld, ind, n, g1, "=", g2, v, tr, eol>>
          /\ tree' = Append(tree, Item("attr", n, <<>>, Depth, Parent, NextId))
    /\ lastEol' = TRUE
    /\ UNCHANGED <<open, closed>>

LabelSeqs == IF LabelMode = "full"
             THEN {<<>>} \cup {<<l>> : l \in LabelSpellings} \cup {<<"q:x", l>> : l \in {"bare:x", "q:a b", "q:a\\\"b"}}
             ELSE {<<>>, <<"q:x">>, <<"bare:x", "q:a b">>}

\* type labels... {   (newline)  -- a multi-line block is opened
EmitBlockOpen ==
    /\ CanAdd /\ Depth < MaxDepth
    /\ \E t \in BlockTypes, ls \in LabelSeqs, ld \in Range(Leads), ind \in Range(Indents), g \in Range(Gaps) \ {""},
          tr \in Range(Trailers), eol \in Range(Eols) :
          LET c == Cost(Leads, ld) + Cost(Indents, ind) + Cost(Gaps, g) + Cost(Trailers, tr) + Cost(Eols, eol) IN
          /\ cost + c <= MaxL
          /\ cost' = cost + c
          /\ out' = out \o <<ld, ind, t>> \o [i \in 1..(2 * Len(ls)) |-> IF i % 2 = 1 THEN g ELSE ls[i \div 2]] \o <<g, "{", tr, eol>>
          /\ tree' = Append(tree, Item("block", t, ls, Depth, Parent, NextId))
          /\ open' = Append(open, NextId)
    /\ lastEol' = TRUE
    /\ UNCHANGED closed

\* }
EmitBlockClose ==
    /\ ~closed /\ open # <<>>
    /\ \E ld \in {"", "# c\n", "\n"}, ind \in Range(Indents), tr \in Range(Trailers), eol \in Range(Eols) :
          LET c == Cost(Leads, ld) + Cost(Indents, ind) + Cost(Trailers, tr) + Cost(Eols, eol) IN
          /\ cost + c <= MaxL
          /\ cost' = cost + c
          /\ out' = out \o <<ld, ind, "}", tr, eol>>
    /\ open' = SubSeq(open, 1, Len(open) - 1)
    /\ lastEol' = TRUE
    /\ UNCHANGED <<tree, closed>>

\* type labels { [name = value] }   -- the one-line block form: at most one attribute, no nested block
EmitOneLine ==
    /\ CanAdd /\ Depth < MaxDepth
    /\ \E t \in BlockTypes, ls \in {<<>>, <<"q:x">>}, inner \in {"none"} \cup AttrNames, g \in Range(Gaps) \ {""}, eol \in Range(Eols) :
          LET c == Cost(Gaps, g) + Cost(Eols, eol) IN
          /\ cost + c <= MaxL
          /\ (inner # "none" => Len(tree) + 1 < MaxItems)
          /\ cost' = cost + c
          /\ out' = out \o <<t>> \o [i \in 1..(2 * Len(ls)) |-> IF i % 2 = 1 THEN g ELSE ls[i \div 2]] \o <<g, "{">>
                        \o (IF inner = "none" THEN <<>> ELSE <<g, inner, g, "=", g, "1", g>>) \o <<"}", eol>>
          /\ tree' = IF inner = "none"
                     THEN Append(tree, Item("block", t, ls, Depth, Parent, NextId))
                     ELSE tree \o <<Item("block", t, ls, Depth, Parent, NextId), Item("attr", inner, <<>>, Depth + 1, NextId, NextId + 1)>>
    /\ lastEol' = TRUE
    /\ UNCHANGED <<open, closed>>

\* end of file: all blocks closed; the final newline may be missing, trailing blank/comment lines may follow
Finish ==
    /\ ~closed /\ open = <<>>
    /\ \E tail \in {"", "\n", "# end", "# end\n", "/* end */", "DROPEOL"} :
          LET c == IF tail = "" THEN 0 ELSE 1 IN
          /\ cost + c <= MaxL
          /\ cost' = cost + c
          /\ (tail = "DROPEOL" => Len(out) > 1)
          /\ out' = Append(out, tail)
    /\ closed' = TRUE
    /\ UNCHANGED <<tree, open, lastEol>>

Next == EmitAttr \/ EmitBlockOpen \/ EmitBlockClose \/ EmitOneLine \/ Finish
Spec == Init /\ [][Next]_vars

---------------------------------------------------------------------------
(* Model-level properties *)

\* does some body define an attribute name twice?  (the only tree-level reason for rejection)
HasDuplicate ==
    \E i, j \in 1..Len(tree) : i < j /\ tree[i].k = "attr" /\ tree[j].k = "attr"
                                  /\ tree[i].parent = tree[j].parent /\ tree[i].name = tree[j].name

\* the tree is a well-formed pre-order forest: parents precede children and depths are consistent
WellFormed ==
    \A i \in 1..Len(tree) :
        /\ tree[i].id = i
        /\ tree[i].parent < i
        /\ (tree[i].parent = 0 => tree[i].depth = 0)
        /\ (tree[i].parent # 0 => tree[tree[i].parent].k = "block" /\ tree[i].depth = tree[tree[i].parent].depth + 1)

\* braces written so far are balanced exactly when no block is open
Braces(k) == Cardinality({i \in 1..Len(out) : out[i] = k})
Balanced == (Braces("{") - Braces("}")) = Len(open)

Bounded == cost <= MaxL /\ Len(tree) <= MaxItems
=============================================================================
