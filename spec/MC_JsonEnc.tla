----------------------------- MODULE MC_JsonEnc -----------------------------
(***************************************************************************)
(* Generator for C03's "all admissible JSON encodings": a decoding         *)
(* specification from a fixed family that covers every block-reading spec  *)
(* kind, a body of up to MaxItems items, and then EVERY valid encoding     *)
(* choice of JsonEnc for that body.  A vector is a state of phase "enc":   *)
(* (spec, body, ch, doc).                                                   *)
(***************************************************************************)
EXTENDS JsonEnc, SequencesExt

CONSTANTS MaxItems, NParts, Part

VARIABLES spec, body, phase, ch, doc

vars == <<spec, body, phase, ch, doc>>

StrLit(s) == NTpl("q", <<NTLit(s)>>)
A == SAttr("a", TNum, FALSE)
PList == SBlockList("p", 0, 0, A)
EncSpecs == {
    A,
    PList,
    SBlock("p", FALSE, A),
    SBlockSet("p", 0, 0, A),
    SBlockTuple("p", 0, 0, SObject(<<"a", "n">>, <<A, SBlockList("p", 0, 0, A)>>)),
    SBlockAttrs("p", TDyn, FALSE),
    SBlockMap("q", 1, A),
    SBlockMap("q", 2, A),
    SBlockObject("q", 2, STuple(<<SLabel(0), SLabel(1), A>>)),
    SBlockList("q", 0, 0, STuple(<<SLabel(0), A>>)),
    SObject(<<"f", "g", "h">>, <<PList, SBlockMap("q", 1, A), A>>),
    STuple(<<SBlockList("r", 0, 0, SLit(1)), PList, SBlockList("q", 0, 0, SLabel(0))>>)}

Inners == {<<>>, <<IAttr("a", NNum(2))>>, <<IAttr("a", NNum(4)), IBlock("p", <<>>, <<IAttr("a", NNum(2))>>)>>}
ItemKinds ==
    {IAttr("a", NNum(2)), IAttr("a", StrLit("x")), IAttr("b", NTuple(<<NNum(2)>>)), IBlock("r", <<>>, <<>>)}
    \cup {IBlock("p", <<>>, b) : b \in Inners}
    \cup {IBlock("q", ls, b) : ls \in {<<"x">>, <<"y">>, <<"x", "y">>, <<"x", "z">>, <<"w", "y">>}, b \in {<<>>, <<IAttr("a", NNum(2))>>}}

NoCh == [body |-> "obj", grp |-> "dup", lab |-> "nest", cmt |-> 0]
SpecSeq == SetToSeq(EncSpecs)

Init == /\ \E i \in 1..Len(SpecSeq) : i % NParts = Part /\ spec = SpecSeq[i]
        /\ body = <<>> /\ phase = "body" /\ ch = NoCh /\ doc = JObj(<<>>)

AddItem == /\ phase = "body" /\ Len(body) < MaxItems
           /\ \E it \in ItemKinds :
                 /\ (it.k = "attr" => ~\E i \in 1..Len(body) : body[i].k = "attr" /\ body[i].name = it.name)
                 /\ body' = Append(body, it)
           /\ UNCHANGED <<spec, phase, ch, doc>>

Encode == /\ phase = "body" /\ JsonExpressible(spec, body)
          /\ \E c \in EncChoices : /\ Valid(body, c)
                                /\ ch' = c
                                /\ doc' = Enc(body, c, TRUE)
          /\ phase' = "enc"
          /\ UNCHANGED <<spec, body>>

Next == AddItem \/ Encode
Spec == Init /\ [][Next]_vars

\* every encoding mentions every attribute expression of the body exactly once
EncKeepsAttrs == phase = "enc" => CountExprs(doc) = CountAttrs(body)
\* the file-level document is an object or an array of objects
TopShape == phase = "enc" => (doc.k = "obj" \/ (doc.k = "arr" /\ \A i \in 1..Len(doc.sub) : doc.sub[i].k = "obj"))
=============================================================================
