------------------------------- MODULE MC_E1 -------------------------------
(***************************************************************************)
(* Generator for engine E1: TLC enumerates expression ASTs by wrapping the *)
(* expression built so far in one more grammar production (one action per  *)
(* production; siblings come from small typed pools), and records the      *)
(* specification's denotation `pred = Eval(e, Scope)` in the state.        *)
(* Every reachable state is one test vector for the Go replayer.           *)
(***************************************************************************)
EXTENDS HclExpr, SequencesExt

CONSTANTS MaxD,        \* nesting depth of generated ASTs
          Level2,      \* which wrapper families are allowed above depth 1: "all" | "core" | "heredoc"
          NeedPred,    \* FALSE: do not compute the denotation (for replayers that only need the program)
          NParts, Part \* the leaves are split into NParts classes; this run starts from class Part (0-based)
                       \* (several TLC processes enumerate disjoint parts of the state space in parallel)

VARIABLES e, d, pred, last, fv

vars == <<e, d, pred, last, fv>>

---------------------------------------------------------------------------
(* The evaluation scope: one value of every kind. *)
ScopeNames == {"n1", "n2", "nh", "s", "sn", "b", "nul", "ns", "l", "ls", "le", "t", "o", "m", "st", "lo", "oo"}
Scope == [x \in ScopeNames |->
    CASE x = "n1"  -> Num(2)
      [] x = "n2"  -> Num(4)
      [] x = "nh"  -> Num(1)
      [] x = "s"   -> Str("a")
      [] x = "sn"  -> Str("1")
      [] x = "b"   -> True
      [] x = "nul" -> Null(TDyn)
      [] x = "ns"  -> Null(TStr)
      [] x = "l"   -> List(TNum, <<Num(2), Num(4)>>)
      [] x = "ls"  -> List(TStr, <<Str("a"), Str("b")>>)
      [] x = "le"  -> List(TObj(<<"a">>, <<TNum>>), <<>>)      \* an EMPTY list whose element type has attributes
      [] x = "t"   -> Tup(<<Num(2), Str("a")>>)
      [] x = "o"   -> Obj(<<"a", "b">>, <<Num(2), Str("x")>>)
      [] x = "m"   -> Map(TStr, <<"a", "b">>, <<Str("x"), Str("y")>>)
      [] x = "st"  -> SetV(TStr, <<Str("a"), Str("b")>>)
      [] x = "lo"  -> List(TObj(<<"a">>, <<TNum>>), <<Obj(<<"a">>, <<Num(2)>>), Obj(<<"a">>, <<Num(4)>>)>>)
      [] x = "oo"  -> Obj(<<"a">>, <<Obj(<<"b">>, <<Num(2)>>)>>)]

StrLit(s) == NTpl("q", <<NTLit(s)>>)

Leaves ==
    {NNum(0), NNum(2), NNum(4), NNum(1), NNum(3), NBool(TRUE), NBool(FALSE), NNull,
     StrLit("a"), StrLit(""), StrLit("1"), StrLit("true"), NVar("zz"),
     \* string literals that need escape sequences in source: newline, quote, backslash, a literal
     \* template introducer, a multi-byte letter
     StrLit("n\nl"), StrLit("q\"t"), StrLit("a\\b"), StrLit("${x}"), StrLit("%{y}")}
    \cup {NVar(x) : x \in ScopeNames}
    \* compound leaves: objects whose ATTRIBUTE NAMES are computed from values, so that every
    \* depth-1 production is also applied to an operand whose type depends on content
    \cup {NFor("object", 1, "v", NVar("m"), NVar("v"), NVar("k"), NNone),
          NFor("group", 1, "v", NVar("m"), NVar("v"), NVar("k"), NNone),
          NObject(<<NParen(NVar("s")), NNum(2)>>),
          \* ... and results of the other operand-producing constructs
          NCond(NVar("b"), NVar("n1"), NVar("s")),
          NSplat("full", NVar("lo"), NAttr(NAnon, "a")),
          NFor("tuple", 0, "v", NVar("l"), NNone, NVar("v"), NBin("==", NVar("v"), NVar("s"))),
          NIndex(NVar("o"), NVar("s")),
          NCall("cat", FALSE, <<NVar("s"), StrLit("a")>>),
          NTpl("q", <<NTLit("a"), NInterp(0, NVar("s"))>>),
          NUn("-", NVar("n1")),
          NTuple(<<NVar("s"), StrLit("a")>>),
          NParen(NParen(NVar("n1"))),
          \* an object with computed attribute names INSIDE an unmarked tuple
          NTuple(<<NFor("object", 1, "v", NVar("m"), NVar("v"), NVar("k"), NNone)>>)}

PNum  == {NVar("n1"), NNum(4), NNum(0), NVar("sn"), NVar("s"), NVar("nul")}
PBool == {NVar("b"), NBool(FALSE), NVar("nul"), NVar("s")}
PAny  == {NVar("n1"), NVar("s"), NVar("t"), NVar("nul"), NVar("l"), NVar("o")}
PColl == {NVar("l"), NVar("t"), NVar("o"), NVar("m"), NVar("st"), NVar("lo"), NVar("le"), NVar("nul"), NVar("s")}
PKey  == {NNum(0), NNum(2), StrLit("a"), NVar("n1"), NVar("s"), NNum(1), NVar("nul")}

---------------------------------------------------------------------------
(* Wrapper families: each is the set of ASTs obtained from x by one production *)
WUn(x)    == {NUn("-", x), NUn("!", x)}
WArith(x) == {NBin(op, x, y) : op \in ArithOps, y \in PNum} \cup {NBin(op, y, x) : op \in ArithOps, y \in PNum}
WCmp(x)   == {NBin(op, x, y) : op \in CmpOps, y \in {NVar("n1"), NVar("sn"), NVar("s")}}
             \cup {NBin(op, y, x) : op \in CmpOps, y \in {NVar("n1"), NVar("nul")}}
WEq(x)    == {NBin(op, x, y) : op \in EqOps, y \in PAny \cup {NVar("sn"), NNum(2)}}
             \cup {NBin(op, y, x) : op \in EqOps, y \in {NVar("n1"), NVar("nul")}}
             \* two containers of the SAME shape whose elements are different expressions of one type
             \* (with unknown elements in the same positions nothing is known about their equality)
             \cup {NBin(op, NTuple(<<x, StrLit("a")>>), NTuple(<<y, StrLit("a")>>)) : op \in EqOps, y \in {NVar("s"), NVar("sn"), NVar("n2")}}
             \cup {NBin(op, NObject(<<NKeyId("a"), x>>), NObject(<<NKeyId("a"), y>>)) : op \in EqOps, y \in {NVar("sn"), NVar("n2")}}
WLogic(x) == {NBin(op, x, y) : op \in LogicOps, y \in PBool \cup {NVar("zz")}}
             \cup {NBin(op, y, x) : op \in LogicOps, y \in PBool \cup {NVar("zz")}}
WCond(x)  == {NCond(x, a, b) : a \in {NVar("n1"), NVar("s"), NNull, NVar("t")}, b \in {NVar("n2"), NVar("sn"), NVar("l")}}
             \cup {NCond(c, x, b) : c \in {NVar("b"), NBool(FALSE), NVar("nul"), NVar("s")}, b \in {NVar("n1"), NVar("s"), NNull, NVar("zz"), NVar("t"), NVar("o")}}
             \cup {NCond(c, a, x) : c \in {NVar("b"), NBool(FALSE), NVar("sn")}, a \in {NVar("n1"), NVar("s"), NNull, NVar("zz"), NVar("l")}}
             \* arms of the same shape whose NESTED types differ (the mismatch is described element by element)
             \* (an object with a tuple-typed attribute unifies with no other object or map type)
             \cup {NCond(NVar("b"), x, NTuple(<<NObject(<<NKeyId("a"), NTuple(<<>>)>>)>>)),
                   NCond(NVar("b"), NTuple(<<NObject(<<NKeyId("a"), NTuple(<<>>)>>)>>), x),
                   NCond(NVar("b"), x, NObject(<<NKeyId("a"), NObject(<<NKeyId("a"), NTuple(<<>>)>>)>>))}
WParen(x) == {NParen(x)}
WTuple(x) == {NTuple(<<x>>), NTuple(<<x, NVar("s")>>), NTuple(<<NVar("n1"), x>>), NTuple(<<>>)}
WObject(x) ==
    {NObject(<<NKeyId("a"), x>>),
     NObject(<<NKeyId("a"), x, NKeyId("b"), NVar("s")>>),
     NObject(<<NKeyId("b"), NVar("n1"), NKeyId("a"), x>>),
     NObject(<<NKeyId("a"), NVar("n1"), NKeyId("a"), x>>),
     NObject(<<NParen(x), NVar("n1")>>),
     NObject(<<NParen(x), NVar("n1"), NKeyId("a"), NVar("s")>>),
     NObject(<<NTpl("q", <<NTLit("a"), NInterp(0, x)>>), NVar("n1")>>),
     NObject(<<NKeyId("null"), x>>),
     NObject(<<NNum(2), x>>),
     NObject(<<>>)}
WIndex(x) == {NIndex(x, k) : k \in PKey} \cup {NIndex(c, x) : c \in PColl}
WAttr(x)  == {NAttr(x, "a"), NAttr(x, "b"), NAttr(x, "c")}
WLegacy(x) == {NLegacy(x, 0), NLegacy(x, 2)}
WSplat(x) ==
    {NSplat(kd, x, ea) : kd \in {"attr", "full"}, ea \in {NAnon, NAttr(NAnon, "a"), NAttr(NAttr(NAnon, "a"), "b")}}
    \* a legacy index as the LAST step of an attribute-only splat, and in the middle of one
    \cup {NSplat("attr", x, NLegacy(NAnon, 0)), NSplat("attr", x, NLegacy(NAttr(NAnon, "a"), 0)),
          NSplat("attr", x, NAttr(NLegacy(NAnon, 2), "a")), NSplat("full", x, NLegacy(NAnon, 0))}
    \cup {NSplat("full", x, NIndex(NAnon, NNum(0))), NSplat("full", x, NIndex(NAttr(NAnon, "a"), StrLit("b")))}
    \cup {NSplat("full", c, NIndex(NAnon, x)) : c \in {NVar("lo"), NVar("t")}}
WFor(x) ==
    {NFor("tuple", 0, "v", x, NNone, NVar("v"), NNone),
     NFor("tuple", 1, "v", x, NNone, NVar("k"), NNone),
     NFor("tuple", 1, "v", x, NNone, NTuple(<<NVar("k"), NVar("v")>>), NNone),
     NFor("tuple", 0, "v", x, NNone, NVar("v"), NBin("==", NVar("v"), NVar("n1"))),
     NFor("tuple", 0, "v", x, NNone, NVar("v"), NVar("v")),
     NFor("tuple", 0, "s", x, NNone, NVar("s"), NNone),
     NFor("object", 1, "v", x, NVar("k"), NVar("v"), NNone),
     NFor("object", 0, "v", x, NVar("v"), NVar("v"), NNone),
     NFor("object", 0, "v", x, StrLit("a"), NVar("v"), NNone),
     NFor("group", 0, "v", x, StrLit("a"), NVar("v"), NNone),
     NFor("group", 1, "v", x, NVar("v"), NVar("k"), NNone)}
    \cup {NFor("tuple", 0, "v", c, NNone, x, NNone) : c \in {NVar("l"), NVar("le"), NVar("o")}}
    \cup {NFor("tuple", 0, "v", c, NNone, NVar("v"), x) : c \in {NVar("l"), NVar("le"), NVar("st")}}
    \* object-producing and grouping for expressions with a filter
    \cup {NFor("object", 1, "v", c, NVar("k"), NVar("v"), x) : c \in {NVar("m"), NVar("o")}}
    \cup {NFor("group", 1, "v", NVar("m"), NVar("v"), NVar("k"), x),
          NFor("object", 1, "v", x, NVar("k"), NVar("v"), NBin("==", NVar("v"), NVar("n1"))),
          NFor("object", 1, "v", x, NVar("k"), NVar("v"), NBool(FALSE))}
    \cup {NFor("object", 1, "v", c, x, NVar("v"), NNone) : c \in {NVar("l"), NVar("m")}}
    \cup {NFor("object", 1, "v", c, NVar("k"), x, NNone) : c \in {NVar("m"), NVar("t")}}
WCall(x) ==
    {NCall(f, FALSE, <<x>>) : f \in FnNames \cup {"nosuch"}}
    \cup {NCall("add", FALSE, <<x, NVar("n1")>>), NCall("add", FALSE, <<NVar("sn"), x>>),
          NCall("cat", FALSE, <<NVar("s"), x>>), NCall("cat", TRUE, <<x>>), NCall("cat", TRUE, <<NVar("s"), x>>),
          NCall("add", TRUE, <<x>>), NCall("id", TRUE, <<x>>), NCall("fail", FALSE, <<>>), NCall("cat", FALSE, <<>>)}
    \* try / can: the first argument that succeeds; arguments that fail for some operands only
    \cup {NCall("try", FALSE, <<x, NVar("s")>>), NCall("try", FALSE, <<NAttr(x, "a"), x>>),
          NCall("try", FALSE, <<NIndex(NVar("o"), x), StrLit("d")>>), NCall("try", FALSE, <<NIndex(NVar("l"), x), NIndex(NVar("m"), x), NNull>>),
          NCall("try", FALSE, <<NCall("upper", FALSE, <<x>>), NCall("add", FALSE, <<x, NVar("n1")>>)>>),
          NCall("try", FALSE, <<NCall("fail", FALSE, <<>>), x>>), NCall("try", FALSE, <<>>), NCall("try", FALSE, <<NVar("zz")>>),
          NCall("can", FALSE, <<NIndex(NVar("o"), x)>>), NCall("can", FALSE, <<NAttr(x, "a")>>), NCall("can", FALSE, <<x, x>>),
          NCall("can", FALSE, <<NCall("add", FALSE, <<x, NVar("n1")>>)>>)}
WTpl(x) ==
    {NTpl("q", <<NInterp(0, x)>>),
     NTpl("q", <<NTLit("a"), NInterp(0, x)>>),
     NTpl("q", <<NInterp(0, x), NTLit("b")>>),
     NTpl("q", <<NTLit(" a "), NInterp(1, x), NTLit(" a ")>>),
     NTpl("q", <<NTLit(" a "), NInterp(2, x), NTLit(" a ")>>),
     NTpl("q", <<NTLit(" a "), NInterp(3, x), NTLit(" ")>>),
     NTpl("q", <<NInterp(0, x), NInterp(0, NVar("n1"))>>),
     \* a literal that a strip marker trims to nothing still makes the template a string template
     NTpl("q", <<NInterp(2, x), NTLit(" ")>>),
     NTpl("q", <<NTLit(" "), NInterp(1, x)>>),
     NTpl("q", <<NTLit(" "), NInterp(3, x), NTLit("  ")>>),
     NTpl("q", <<NInterp(3, x)>>),
     NTpl("q", <<NTIf(0, x, NTpl("q", <<NTLit("a")>>), NTpl("q", <<NTLit("b")>>))>>),
     NTpl("q", <<NTIf(0, x, NTpl("q", <<NTLit("a")>>), NNone)>>),
     NTpl("q", <<NTLit("x"), NTIf(0, NVar("b"), NTpl("q", <<NInterp(0, x)>>), NNone)>>),
     NTpl("q", <<NTIf(0, NBool(FALSE), NTpl("q", <<NInterp(0, x)>>), NTpl("q", <<NTLit("b")>>))>>),
     NTpl("q", <<NTLit(" a "), NTIf(63, x, NTpl("q", <<NTLit(" a ")>>), NTpl("q", <<NTLit(" b ")>>)), NTLit(" a ")>>),
     NTpl("q", <<NTLit(" a "), NTIf(18, x, NTpl("q", <<NTLit(" a ")>>), NNone), NTLit(" a ")>>),
     NTpl("q", <<NTFor(0, 0, "v", x, NTpl("q", <<NInterp(0, NVar("v"))>>))>>),
     NTpl("q", <<NTFor(0, 1, "v", x, NTpl("q", <<NInterp(0, NVar("k")), NTLit("a")>>))>>),
     NTpl("q", <<NTLit("x"), NTFor(6, 0, "v", x, NTpl("q", <<NTLit(" a "), NInterp(0, NVar("v")), NTLit(" ")>>)), NTLit(" a")>>),
     NTpl("q", <<NTFor(0, 0, "v", NVar("l"), NTpl("q", <<NInterp(0, x)>>))>>),
     \* nested quoted templates: both levels unwrap / only the inner one does
     NTpl("q", <<NInterp(0, NTpl("q", <<NInterp(0, x)>>))>>),
     NTpl("q", <<NTLit("a"), NInterp(0, NTpl("q", <<NTLit("b"), NInterp(0, x)>>))>>),
     NTpl("q", <<NTLit("${x}"), NInterp(0, x), NTLit("q\"t")>>)}

Core(x) == WUn(x) \cup WParen(x) \cup WAttr(x)
           \cup {NBin("+", x, NVar("n1")), NBin("*", NVar("n2"), x), NBin("==", x, NVar("n1")), NBin("&&", x, NVar("b")),
                 NBin("||", NBool(FALSE), x), NBin("<", x, NVar("n2")), NBin("-", NVar("n1"), x),
                 NCond(x, NVar("n1"), NVar("s")), NCond(NVar("b"), x, NNull), NCond(NBool(FALSE), NVar("zz"), x),
                 NTuple(<<x>>), NObject(<<NKeyId("a"), x>>), NObject(<<NParen(x), NVar("n1")>>),
                 NIndex(x, NNum(0)), NIndex(x, StrLit("a")), NIndex(NVar("l"), x), NIndex(NVar("o"), x),
                 NLegacy(x, 0), NSplat("full", x, NAttr(NAnon, "a")), NSplat("attr", x, NAnon),
                 NFor("tuple", 0, "v", x, NNone, NVar("v"), NNone), NFor("object", 1, "v", x, NVar("k"), NVar("v"), NNone),
                 NFor("tuple", 0, "v", NVar("l"), NNone, x, NNone),
                 NCall("id", FALSE, <<x>>), NCall("upper", FALSE, <<x>>), NCall("cat", TRUE, <<x>>),
                 NTpl("q", <<NInterp(0, x)>>), NTpl("q", <<NTLit("a"), NInterp(0, x)>>),
                 NTpl("q", <<NTIf(0, x, NTpl("q", <<NTLit("a")>>), NNone)>>),
                 NTpl("q", <<NTFor(0, 0, "v", x, NTpl("q", <<NInterp(0, NVar("v"))>>))>>)}

\* heredoc templates (only generated when Level2 = "heredoc"): 1-3 lines with varying indentation,
\* literal and interpolated parts, blank lines; in plain and flush form
HLines(x) ==
    {<<NHLine(0, <<NTLit("a")>>)>>,
     <<NHLine(2, <<NTLit("a")>>), NHLine(4, <<NTLit("b c")>>)>>,
     <<NHLine(2, <<NTLit("a"), NInterp(0, x)>>), NHLine(1, <<NTLit("b")>>)>>,
     <<NHLine(0, <<NInterp(0, x)>>)>>,
     <<NHLine(2, <<NInterp(0, x), NTLit("a")>>), NHLine(3, <<NTLit("x")>>)>>,
     <<NHLine(3, <<NTLit("a")>>), NHLine(2, <<>>), NHLine(3, <<NTLit("b")>>)>>,
     <<NHLine(2, <<NTLit("a")>>), NHLine(0, <<>>), NHLine(4, <<NInterp(0, x), NInterp(0, NVar("s"))>>)>>,
     <<NHLine(1, <<NTLit("x"), NInterp(0, x), NTLit("b c")>>)>>,
     <<NHLine(0, <<NInterp(2, x)>>)>>,
     <<NHLine(2, <<NInterp(3, x)>>), NHLine(1, <<NTLit("b")>>)>>,
     \* lines that START with an interpolation or directive at column 0 between indented lines
     <<NHLine(4, <<NTLit("a")>>), NHLine(0, <<NInterp(0, x)>>), NHLine(4, <<NTLit("b")>>)>>,
     <<NHLine(0, <<NInterp(0, x), NTLit("a")>>), NHLine(2, <<NTLit("b")>>)>>,
     <<NHLine(3, <<NTLit("a")>>), NHLine(2, <<NTLit("b")>>), NHLine(0, <<NInterp(0, x)>>)>>,
     <<NHLine(2, <<NTLit("a")>>), NHLine(0, <<NTIf(0, NVar("b"), NTpl("q", <<NInterp(0, x)>>), NNone)>>), NHLine(2, <<NTLit("b")>>)>>,
     <<NHLine(2, <<NTLit("a")>>), NHLine(1, <<NInterp(0, x)>>), NHLine(2, <<>>)>>,
     <<>>}
HLeaves == {NTpl(k, ls) : k \in {"h", "hf"}, ls \in UNION {HLines(x) : x \in {NVar("s"), NVar("n1"), NVar("nul"), NVar("l"), NBin("+", NVar("n1"), NVar("n2")),
                                                                                        \* an interpolation whose expression contains "=" and item separators
                                                                                        NAttr(NObject(<<NKeyId("a"), NVar("s"), NKeyId("b"), NVar("n1")>>), "a")}}}
WHere(x) == {NTuple(<<x>>), NTuple(<<NVar("s"), x>>), NCall("upper", FALSE, <<x>>), NCall("cat", FALSE, <<x, NVar("s")>>),
             NObject(<<NKeyId("a"), x>>), NCond(NVar("b"), x, NVar("s")), NBin("==", x, NVar("s")), NIndex(NVar("m"), x)}

Result(x) == IF NeedPred THEN Eval(x, Scope) ELSE ROom

LeafSeq == SetToSeq(IF Level2 = "heredoc" THEN HLeaves ELSE Leaves)
Init == /\ \E i \in 1..Len(LeafSeq) : i % NParts = Part /\ e = LeafSeq[i]
        /\ d = 0
        /\ pred = Result(e)
        /\ last = "leaf"
        /\ fv = FreeVars(e)

Step(fam, S) == /\ e' \in S
                /\ d' = d + 1
                /\ pred' = Result(e')
                /\ last' = fam
                /\ fv' = FreeVars(e')

Full == (d = 0 \/ Level2 = "all") /\ Level2 # "heredoc"

Next ==
    /\ d < MaxD
    /\ \/ (Full /\ Step("un", WUn(e)))
       \/ (Full /\ Step("arith", WArith(e)))
       \/ (Full /\ Step("cmp", WCmp(e)))
       \/ (Full /\ Step("eq", WEq(e)))
       \/ (Full /\ Step("logic", WLogic(e)))
       \/ (Full /\ Step("cond", WCond(e)))
       \/ (Full /\ Step("paren", WParen(e)))
       \/ (Full /\ Step("tuple", WTuple(e)))
       \/ (Full /\ Step("object", WObject(e)))
       \/ (Full /\ Step("index", WIndex(e)))
       \/ (Full /\ Step("attr", WAttr(e)))
       \/ (Full /\ Step("legacy", WLegacy(e)))
       \/ (Full /\ Step("splat", WSplat(e)))
       \/ (Full /\ Step("for", WFor(e)))
       \/ (Full /\ Step("call", WCall(e)))
       \/ (Full /\ Step("tpl", WTpl(e)))
       \/ (~Full /\ Level2 # "heredoc" /\ Step("core", Core(e)))
       \/ (Level2 = "heredoc" /\ Step("heredoc-in", WHere(e)))

Spec == Init /\ [][Next]_vars

---------------------------------------------------------------------------
(* Model-level properties of the specified semantics *)

RECURSIVE WhollyKnown(_)
WhollyKnown(v) == v.k # "unk" /\ \A i \in 1..Len(v.e) : WhollyKnown(v.e[i])

\* C05 (converse direction) at design level: an error-free evaluation in a
\* scope without unknowns never yields an unknown
KnownInKnownOut == (~pred.err /\ ~IsOom(pred.v)) => WhollyKnown(pred.v)

\* Eval is total: a value, an error, or an explicit "no statement"
Total == pred.err \in BOOLEAN /\ pred.v.k \in {"num", "str", "bool", "null", "unk", "tup", "obj", "list", "set", "map", "oom"}

\* C07 at design level: evaluation depends only on the free variables
DependsOnlyOnFreeVars ==
    LET pruned == [x \in (ScopeNames \cap fv) |-> Scope[x]]
    IN Eval(e, pruned) = pred
=============================================================================
