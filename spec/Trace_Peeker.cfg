SPECIFICATION TraceSpec
INVARIANT NeverEmpty
POSTCONDITION TraceAccepted
CHECK_DEADLOCK FALSE
