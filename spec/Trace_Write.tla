----------------------------- MODULE Trace_Write -----------------------------
(***************************************************************************)
(* Trace validation for HclWriteTree: long random edit histories executed  *)
(* on the real hclwrite tree by a driver are replayed against the          *)
(* specification's actions; after every call the projection of the real    *)
(* file (per body: item ids in order; per item: kind, name, labels) must   *)
(* equal the specification's state.                                        *)
(*   {"op": ..., "b": body, "name", "name2", "vk", "vn", "labels", "h",    *)
(*    "proj": [[body id, [item ids]], ...], "items": [[id, kind, name, labels], ...]} *)
(***************************************************************************)
EXTENDS HclWriteTree, Json

Trace == ndJsonDeserialize("trace_write.ndjson")

VARIABLE l

tvars == <<body, item, nextId, hist, init, l>>

\* the first line of the trace is a reset event naming the initial file
TraceInit == Init /\ l = 1 /\ init = "empty"

Ev == Trace[l]
V == [vk |-> Ev.vk, vn |-> Ev.vn]

Act ==
    CASE Ev.op = "SetAttr"        -> SetAttr(Ev.b, Ev.name, V)
      [] Ev.op = "RemoveAttr"     -> RemoveAttr(Ev.b, Ev.name)
      [] Ev.op = "RenameAttr"     -> RenameAttr(Ev.b, Ev.name, Ev.name2)
      [] Ev.op = "AppendNewBlock" -> AppendNewBlock(Ev.b, Ev.name, Ev.labels) /\ nextId = Ev.h
      [] Ev.op = "NewBlock"       -> NewBlock(Ev.name, Ev.labels) /\ nextId = Ev.h
      [] Ev.op = "AppendBlock"    -> AppendBlock(Ev.b, Ev.h)
      [] Ev.op = "RemoveBlock"    -> RemoveBlock(Ev.b, Ev.h)
      [] Ev.op = "SetType"        -> SetType(Ev.h, Ev.name)
      [] Ev.op = "SetLabels"      -> SetLabels(Ev.h, Ev.labels)
      [] Ev.op = "Clear"          -> Clear(Ev.b)
      [] Ev.op = "Decorate"       -> Decorate(Ev.b, Ev.name)

\* the real file after the call, as logged, equals the specification's next state
ProjOK ==
    /\ \A i \in 1..Len(Ev.proj) : body'[Ev.proj[i][1]] = Ev.proj[i][2]
    /\ \A i \in 1..Len(Ev.items) :
          LET it == item'[Ev.items[i][1]] IN
          it.k = Ev.items[i][2] /\ it.name = Ev.items[i][3] /\ it.labels = Ev.items[i][4]

\* a "reset" event starts the next history from a fresh file
TReset == /\ l <= Len(Trace) /\ Ev.op = "reset"
          /\ init' = Ev.init
          /\ hist' = <<>>
          /\ nextId' = NInit + 1
          /\ item' = ItemsOf(Ev.init) /\ body' = BodiesOf(Ev.init)
          /\ l' = l + 1

TraceNext == \/ TReset
             \/ /\ l <= Len(Trace) /\ Ev.op # "reset"
                /\ Act
                /\ ProjOK
                /\ l' = l + 1
TraceSpec == TraceInit /\ [][TraceNext]_tvars
TraceAccepted == TLCGet("stats").diameter - 1 = Len(Trace)
=============================================================================
