--------------------------- MODULE MC_Trace_Write ---------------------------
EXTENDS Trace_Write
MCNames == {"a", "b", "c"}
MCTypes == {"t", "u"}
MCLabelSets == {<<>>, <<"x">>, <<"x", "y">>}
MCVals == {[vk |-> "val", vn |-> 0], [vk |-> "val", vn |-> 1], [vk |-> "trav", vn |-> 0], [vk |-> "raw", vn |-> 0]}
MCInits == {"empty", "parsed", "oneline", "emptyblk"}
=============================================================================
