------------------------------ MODULE JsonEnc ------------------------------
(***************************************************************************)
(* The admissible JSON encodings of an abstract body (json/spec.md         *)
(* "Bodies", "Blocks", "Comments"), for property C03: "the same            *)
(* configuration expressed in ANY of the JSON forms the JSON specification *)
(* allows".                                                                *)
(*                                                                         *)
(* An abstract body is the item list of HclDec (attributes with an         *)
(* expression, blocks with labels and a nested body).  An encoding is a    *)
(* JSON document tree; the forms the JSON syntax specification allows are  *)
(*                                                                         *)
(*   body   : one object  |  (file level only) an array of objects whose   *)
(*            contents are concatenated                                    *)
(*   blocks : one property per block, repeating the property name          *)
(*            | one property per block type holding an array of blocks     *)
(*            | one property per block type holding ONE label object in    *)
(*              which blocks that share a label prefix share the nesting   *)
(*   labels : an object per label level  |  an array of such objects at    *)
(*            the type level | an array of bodies at the innermost level   *)
(*   "//"   : a property named "//" is a comment wherever a body's         *)
(*            properties are read                                          *)
(*                                                                         *)
(* Enc(items, ch, top) builds the document for the choice record ch; the   *)
(* replayer only prints the tree.  Valid(items, ch) says when the choice   *)
(* is admissible for the body, KeepsOrder(ch) whether the encoding keeps   *)
(* the order of blocks of DIFFERENT types (otherwise only the order        *)
(* within each type survives, json/spec.md "ordering").                    *)
(***************************************************************************)
EXTENDS HclDec

\* uniform document nodes: k in {"obj", "arr", "prop", "expr", "str"}
J(k, s, sub, x) == [k |-> k, s |-> s, sub |-> sub, x |-> x]
JExpr(x)        == J("expr", "", <<>>, x)
JStr(s)         == J("str", s, <<>>, NNone)
JObj(props)     == J("obj", "", props, NNone)
JArr(elems)     == J("arr", "", elems, NNone)
JProp(name, v)  == J("prop", name, <<v>>, NNone)
JComment(i)     == JProp("//", IF i = 1 THEN JStr("a comment") ELSE JArr(<<JStr("any"), JObj(<<JProp("value", JStr("is ignored"))>>)>>))

BodyForms  == {"obj", "each", "split"}
GroupForms == {"dup", "array", "merge"}
LabelForms == {"nest", "arrtype", "arrleaf"}
EncChoices == [body : BodyForms, grp : GroupForms, lab : LabelForms, cmt : 0..2]

Blocks(items) == SelectSeq(items, LAMBDA it : it.k = "block")
TypesOf(items) == {items[i].name : i \in {j \in 1..Len(items) : items[j].k = "block"}}
OfType(items, t) == SelectSeq(items, LAMBDA it : it.k = "block" /\ it.name = t)
FirstOfType(items, i) == items[i].k = "block" /\ ~\E j \in 1..(i - 1) : items[j].k = "block" /\ items[j].name = items[i].name

RECURSIVE Enc(_, _, _), MergeLabels(_, _, _), FlatOrder(_, _)

\* distinct labels at position `depth` in first-occurrence order
RECURSIVE DistinctAt(_, _, _, _)
DistinctAt(bs, depth, i, acc) ==
    IF i > Len(bs) THEN acc
    ELSE LET l == bs[i].labels[depth] IN
         DistinctAt(bs, depth, i + 1, IF \E j \in 1..Len(acc) : acc[j] = l THEN acc ELSE Append(acc, l))
WithLabel(bs, depth, l) == SelectSeq(bs, LAMBDA b : b.labels[depth] = l)

\* one block's labels and body
BlockValue(b, ch) ==
    LET inner == Enc(b.body, ch, FALSE)
        leaf  == IF ch.lab = "arrleaf" THEN JArr(<<inner>>) ELSE inner
        nest[i \in 0..Len(b.labels)] ==
            IF i = 0 THEN leaf ELSE JObj(<<JProp(b.labels[Len(b.labels) - i + 1], nest[i - 1])>>)
    IN IF ch.lab = "arrtype" THEN JArr(<<nest[Len(b.labels)]>>) ELSE nest[Len(b.labels)]

\* several blocks of one type as ONE label object; blocks sharing a prefix share the nesting,
\* blocks with identical labels become an array of bodies at the innermost level
MergeLabels(bs, depth, ch) ==
    IF depth > Len(bs[1].labels)
    THEN IF Len(bs) = 1 /\ ch.lab # "arrleaf" THEN Enc(bs[1].body, ch, FALSE)
         ELSE JArr([i \in 1..Len(bs) |-> Enc(bs[i].body, ch, FALSE)])
    ELSE LET ls == DistinctAt(bs, depth, 1, <<>>) IN
         JObj([i \in 1..Len(ls) |-> JProp(ls[i], MergeLabels(WithLabel(bs, depth, ls[i]), depth + 1, ch))])

\* the order in which the merged form lists the blocks (as label paths)
FlatOrder(bs, depth) ==
    IF depth > Len(bs[1].labels) THEN [i \in 1..Len(bs) |-> bs[i].labels]
    ELSE LET ls == DistinctAt(bs, depth, 1, <<>>)
             parts[i \in 0..Len(ls)] == IF i = 0 THEN <<>> ELSE parts[i - 1] \o FlatOrder(WithLabel(bs, depth, ls[i]), depth + 1)
         IN parts[Len(ls)]

\* merging is possible when every block of the type has the same, non-zero number of labels and
\* sharing prefixes does not reorder the blocks
Mergeable(bs) ==
    /\ Len(bs[1].labels) > 0
    /\ \A i \in 1..Len(bs) : Len(bs[i].labels) = Len(bs[1].labels)
    /\ FlatOrder(bs, 1) = [i \in 1..Len(bs) |-> bs[i].labels]

GroupValue(bs, ch) ==
    IF ch.grp = "merge" /\ Mergeable(bs) THEN MergeLabels(bs, 1, ch)
    \* the elements of the array are blocks: an array directly inside it would be an array of arrays
    ELSE JArr([i \in 1..Len(bs) |-> BlockValue(bs[i], [ch EXCEPT !.lab = IF @ = "arrtype" \/ (@ = "arrleaf" /\ bs[i].labels = <<>>) THEN "nest" ELSE @])])

\* the properties of one body, in order
Props(items, ch) ==
    LET one[i \in 1..Len(items)] ==
            IF items[i].k = "attr" THEN <<JProp(items[i].name, JExpr(items[i].val))>>
            ELSE IF ch.grp = "dup" THEN <<JProp(items[i].name, BlockValue(items[i], ch))>>
            ELSE IF FirstOfType(items, i) THEN <<JProp(items[i].name, GroupValue(OfType(items, items[i].name), ch))>>
            ELSE <<>>
        cat[i \in 0..Len(items)] == IF i = 0 THEN <<>> ELSE cat[i - 1] \o one[i]
    IN cat[Len(items)]

Enc(items, ch, top) ==
    LET ps  == Props(items, ch)
        cps == IF ch.cmt = 0 THEN ps ELSE <<JComment(ch.cmt)>> \o ps
    IN IF ~top \/ ch.body = "obj" THEN JObj(cps)
       ELSE IF ch.body = "each"
            THEN JArr((IF ch.cmt = 0 THEN <<>> ELSE <<JObj(<<JComment(ch.cmt)>>)>>) \o [i \in 1..Len(ps) |-> JObj(<<ps[i]>>)])
       ELSE LET h == (Len(cps) + 1) \div 2 IN
            JArr(<<JObj(SubSeq(cps, 1, h)), JObj(SubSeq(cps, h + 1, Len(cps)))>>)

\* choices that make no difference for a body are normalised away, so that TLC does not
\* enumerate the same document twice
RECURSIVE HasBlocks(_)
HasBlocks(items) == \E i \in 1..Len(items) : items[i].k = "block"
Valid(items, ch) ==
    /\ (~HasBlocks(items) => ch.grp = "dup" /\ ch.lab = "nest")
    /\ (ch.grp = "merge" => ch.lab # "arrtype")
    /\ (Len(items) < 2 => ch.body # "split")

\* model-level sanity: an encoding mentions every attribute expression exactly once
RECURSIVE CountExprs(_), CountAttrs(_)
SumSeq(f, n) == LET acc[i \in 0..n] == IF i = 0 THEN 0 ELSE acc[i - 1] + f[i] IN acc[n]
CountExprs(d) == IF d.k = "expr" THEN 1 ELSE SumSeq([i \in 1..Len(d.sub) |-> CountExprs(d.sub[i])], Len(d.sub))
CountAttrs(items) == SumSeq([i \in 1..Len(items) |-> IF items[i].k = "attr" THEN 1 ELSE CountAttrs(items[i].body)], Len(items))

\* does the encoding keep the relative order of blocks of different types?
KeepsOrder(ch) == ch.grp = "dup"
=============================================================================
