------------------------------ MODULE MC_C17 ------------------------------
EXTENDS SplatConc
MCG == {1, 2, 3}
Distinct == [g \in MCG |-> g]
\* one goroutine over a non-empty list, two over an empty list (type probe in child contexts)
MixedKinds == [g \in MCG |-> IF g = 1 THEN "full" ELSE "empty"]
AllFull == [g \in MCG |-> "full"]
OneEmpty == [g \in MCG |-> IF g = 3 THEN "empty" ELSE "full"]
\* two goroutines sharing one context: documented as unsupported; must violate ReadOwn
Shared == [g \in MCG |-> IF g = 3 THEN 3 ELSE 1]
\* the schedule is observation only: do not let it multiply states
View == <<values, pc, got>>
=============================================================================
