----------------------------- MODULE HclLexStr -----------------------------
(***************************************************************************)
(* Quoted string literals of the native syntax (hclsyntax/spec.md          *)
(* "Template Expressions": quoted templates, escape sequences) over an     *)
(* alphabet of CHARACTER CLASSES - TLC has no character operators, so a    *)
(* string is a sequence of class names and the replayer picks concrete     *)
(* representatives per class.                                              *)
(*                                                                         *)
(*   Escape   : string content  -> source characters between the quotes    *)
(*   Unescape : source characters -> string content (the reader)           *)
(*   law      : Unescape(Escape(s)) = s                                    *)
(***************************************************************************)
EXTENDS Integers, Sequences, FiniteSets, TLC

\* content classes
\*   a b      ordinary printable letters          SP       space
\*   NL CR TAB  newline, carriage return, tab     DQ BS    double quote, backslash
\*   DOLLAR PCT LBRACE RBRACE  template-relevant punctuation
\*   CTRL     a non-printable BMP character       ASTRAL   a non-printable / unassigned astral character
\*   MB       a printable multi-byte letter       COMB     a combining mark
Classes == {"a", "b", "SP", "NL", "CR", "TAB", "DQ", "BS", "DOLLAR", "PCT", "LBRACE", "RBRACE", "CTRL", "ASTRAL", "MB", "COMB"}

\* source-level units: either a literal character class or an escape unit
EscUnit(c) ==
    CASE c = "NL"  -> <<"\\n">>
      [] c = "CR"  -> <<"\\r">>
      [] c = "TAB" -> <<"\\t">>
      [] c = "DQ"  -> <<"\\\"">>
      [] c = "BS"  -> <<"\\\\">>
      [] c = "CTRL"   -> <<"\\uCTRL">>
      [] c = "ASTRAL" -> <<"\\UASTRAL">>
      [] OTHER -> <<c>>

RECURSIVE Escape(_)
Escape(s) ==
    IF s = <<>> THEN <<>>
    ELSE IF Head(s) \in {"DOLLAR", "PCT"} /\ Len(s) > 1 /\ s[2] = "LBRACE"
         THEN <<Head(s), Head(s)>> \o Escape(Tail(s))          \* $${ and %%{ : an escaped template introducer
    ELSE EscUnit(Head(s)) \o Escape(Tail(s))

UnescUnit(u) ==
    CASE u = "\\n" -> "NL" [] u = "\\r" -> "CR" [] u = "\\t" -> "TAB" [] u = "\\\"" -> "DQ" [] u = "\\\\" -> "BS"
      [] u = "\\uCTRL" -> "CTRL" [] u = "\\UASTRAL" -> "ASTRAL" [] OTHER -> u

RECURSIVE Unescape(_)
Unescape(src) ==
    IF src = <<>> THEN <<>>
    ELSE IF Len(src) >= 3 /\ src[1] \in {"DOLLAR", "PCT"} /\ src[2] = src[1] /\ src[3] = "LBRACE"
         THEN <<src[1]>> \o Unescape(Tail(Tail(src)))          \* "$${" reads as "${" (the brace is consumed next)
    ELSE <<UnescUnit(Head(src))>> \o Unescape(Tail(src))

\* a source sequence opens a template sequence iff an unescaped DOLLAR/PCT is directly followed by LBRACE
RECURSIVE HasIntroducer(_)
HasIntroducer(src) ==
    IF Len(src) < 2 THEN FALSE
    ELSE IF Len(src) >= 3 /\ src[1] \in {"DOLLAR", "PCT"} /\ src[2] = src[1] /\ src[3] = "LBRACE" THEN HasIntroducer(Tail(Tail(Tail(src))))
    ELSE IF src[1] \in {"DOLLAR", "PCT"} /\ src[2] = "LBRACE" THEN TRUE
    ELSE HasIntroducer(Tail(src))

\* is the content an identifier (so that an object key may be written bare)?
IsIdentifier(s) == s # <<>> /\ Head(s) \in {"a", "b", "MB"} /\ \A i \in 1..Len(s) : s[i] \in {"a", "b", "MB", "COMB"}
=============================================================================
