SPECIFICATION Spec
CONSTANTS
  AttrNames <- MCAttrNames
  BlockTypes <- MCBlockTypes
  MaxDepth = 2
CHECK_DEADLOCK FALSE
