----------------------------- MODULE MC_E1Deep -----------------------------
(***************************************************************************)
(* Deep / bushy generator for engine E1, run in TLC's SIMULATION mode.     *)
(*                                                                         *)
(* MC_E1 enumerates every AST of depth <= 2 exhaustively; its wrappers     *)
(* take their siblings from small pools of leaves, so only one operand of  *)
(* a production is ever non-trivial.  This module keeps TWO expressions    *)
(* under construction (e and e2): a step wraps either of them in any       *)
(* production of MC_E1 (one action per production, as there), or JOINS     *)
(* them with a production that has two operand positions (binary operator, *)
(* conditional, constructor, index, call, template, for, splat with a      *)
(* computed index), after which e2 starts again from a leaf.  Random walks *)
(* of length MaxD therefore give ASTs with several non-trivial operands    *)
(* and nesting up to MaxD.  The specification's denotation of e            *)
(* (pred = Eval(e, Scope)) is part of every state, exactly as in MC_E1, so *)
(* the same replayers consume the states, and the same model-level         *)
(* properties (Total, KnownInKnownOut, DependsOnlyOnFreeVars) are checked  *)
(* on every visited state.  Successors are drawn with TLC!RandomElement, so *)
(* one step costs one evaluation of Eval instead of one per candidate.     *)
(***************************************************************************)
EXTENDS MC_E1

VARIABLES e2, d2

dvars == <<e, d, pred, last, fv, e2, d2>>

\* leaves of the second expression: the leaves of MC_E1 plus the iterator names, so that a
\* join which binds them (for expressions, template for) has a body that uses them at depth
DeepLeaves == Leaves \cup {NVar("v"), NVar("k")}

AllBinOps == ArithOps \cup CmpOps \cup EqOps \cup LogicOps

Join(x, y) ==
    {NBin(op, x, y) : op \in AllBinOps}
    \cup {NCond(x, y, NVar("s")), NCond(x, NVar("n1"), y), NCond(NVar("b"), x, y), NCond(NBool(FALSE), x, y)}
    \cup {NTuple(<<x, y>>), NTuple(<<x, NVar("s"), y>>),
          NObject(<<NKeyId("a"), x, NKeyId("b"), y>>), NObject(<<NParen(x), y>>),
          NObject(<<NKeyId("a"), x, NKeyId("a"), y>>)}
    \cup {NIndex(x, y), NSplat("full", x, NIndex(NAnon, y))}
    \cup {NCall("add", FALSE, <<x, y>>), NCall("cat", FALSE, <<x, y>>), NCall("cat", TRUE, <<x, y>>),
          NCall("try", FALSE, <<x, y>>), NCall("can", FALSE, <<NIndex(x, y)>>)}
    \cup {NTpl("q", <<NInterp(0, x), NInterp(0, y)>>),
          NTpl("q", <<NTLit("a"), NInterp(2, x), NTLit(" "), NInterp(1, y)>>),
          NTpl("q", <<NTIf(0, x, NTpl("q", <<NInterp(0, y)>>), NNone)>>),
          NTpl("q", <<NTIf(0, x, NTpl("q", <<NTLit("a")>>), NTpl("q", <<NInterp(0, y)>>))>>),
          NTpl("q", <<NTFor(0, 0, "v", x, NTpl("q", <<NInterp(0, y)>>))>>),
          NTpl("q", <<NTFor(0, 1, "v", x, NTpl("q", <<NInterp(0, y), NTLit("a")>>))>>)}
    \cup {NFor("tuple", 0, "v", x, NNone, y, NNone),
          NFor("tuple", 1, "v", x, NNone, y, NNone),
          NFor("tuple", 0, "v", x, NNone, NVar("v"), y),
          NFor("object", 1, "v", x, NVar("k"), y, NNone),
          NFor("object", 1, "v", x, y, NVar("v"), NNone),
          NFor("group", 1, "v", x, y, NVar("v"), NNone),
          NFor("object", 1, "v", x, NVar("k"), NVar("v"), y)}

DInit == /\ e \in DeepLeaves
         /\ e2 \in {NVar("s"), NVar("n1"), NVar("l"), NVar("o"), NVar("v")}   \* re-drawn from all leaves after every join
         /\ d = 0 /\ d2 = 0
         /\ pred = Result(e)
         /\ last = "leaf"
         /\ fv = FreeVars(e)

FamNames == {"un", "arith", "cmp", "eq", "logic", "cond", "paren", "tuple", "object", "index", "attr",
             "legacy", "splat", "for", "call", "tpl"}

Family(f, x) ==
    CASE f = "un" -> WUn(x) [] f = "arith" -> WArith(x) [] f = "cmp" -> WCmp(x) [] f = "eq" -> WEq(x)
      [] f = "logic" -> WLogic(x) [] f = "cond" -> WCond(x) [] f = "paren" -> WParen(x) [] f = "tuple" -> WTuple(x)
      [] f = "object" -> WObject(x) [] f = "index" -> WIndex(x) [] f = "attr" -> WAttr(x) [] f = "legacy" -> WLegacy(x)
      [] f = "splat" -> WSplat(x) [] f = "for" -> WFor(x) [] f = "call" -> WCall(x) [] f = "tpl" -> WTpl(x)

\* wrap the first expression in one production (its denotation is recomputed)
Wrap1(f) == /\ e' = RandomElement(Family(f, e))
            /\ d' = d + 1
            /\ pred' = Result(e')
            /\ last' = f
            /\ fv' = FreeVars(e')
            /\ UNCHANGED <<e2, d2>>

\* wrap the second expression (a silent step as far as the vector is concerned)
Wrap2(f) == /\ e2' = RandomElement(Family(f, e2))
            /\ d2' = d2 + 1
            /\ UNCHANGED <<e, d, pred, last, fv>>

\* join the two expressions; the second one starts again from a leaf
JoinStep(swap) ==
            /\ e' = RandomElement(IF swap THEN Join(e2, e) ELSE Join(e, e2))
            /\ d' = (IF d > d2 THEN d ELSE d2) + 1
            /\ pred' = Result(e')
            /\ last' = "join"
            /\ fv' = FreeVars(e')
            /\ e2' = RandomElement(DeepLeaves)
            /\ d2' = 0

\* one random successor per state: the kind of step and the production are drawn first, so a
\* step of the walk costs one evaluation of Eval
DNext == /\ d < MaxD
         /\ \E c \in {RandomElement(1..10)} : \E f \in {RandomElement(FamNames)} :
               IF c <= 4 THEN Wrap1(f)
               ELSE IF c <= 7 /\ d2 < 2 THEN Wrap2(f)
               ELSE JoinStep(c = 10)

DSpec == DInit /\ [][DNext]_dvars
=============================================================================
