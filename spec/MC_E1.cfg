SPECIFICATION Spec
INVARIANTS Total KnownInKnownOut DependsOnlyOnFreeVars
CHECK_DEADLOCK FALSE
