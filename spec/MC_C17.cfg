SPECIFICATION Spec
CONSTANTS
  G <- MCG
  Ctx <- Distinct
  Kind <- OneEmpty
  NOuter = 2
  NInner = 1
INVARIANTS ReadOwn NoLeak
VIEW View
CHECK_DEADLOCK FALSE
