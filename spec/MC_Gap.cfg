SPECIFICATION GSpec
INVARIANT GapInWindow
INVARIANT Increasing
CONSTANTS
  MaxD = 0
  Level2 = "core"
CHECK_DEADLOCK FALSE
