SPECIFICATION GSpec
INVARIANT GapInWindow
INVARIANT Increasing
CONSTANTS
  NeedPred = FALSE
  MaxD = 0
  Level2 = "core"
CHECK_DEADLOCK FALSE
