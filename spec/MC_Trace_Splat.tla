-------------------------- MODULE MC_Trace_Splat --------------------------
EXTENDS Trace_Splat
TG == {1, 2, 3, 4}
TGCtx == [g \in TG |-> g]
TG3 == {1, 2, 3}
TG3Ctx == [g \in TG3 |-> g]
\* goroutine 1 evaluates a non-empty list; even-numbered ones an empty list (kinds fixed by the driver)
TG3Kind == [g \in TG3 |-> IF g = 1 THEN "full" ELSE "empty"]
TGKind == [g \in TG |-> IF g % 2 = 1 THEN "full" ELSE "empty"]
=============================================================================
