------------------------------- MODULE MC_Dec -------------------------------
(***************************************************************************)
(* Generator for the decoder properties (C08, C03): TLC first builds a     *)
(* decoding specification by wrapping (one action per spec kind), then a   *)
(* body item by item; every state of the body phase is a vector            *)
(* (spec, body) with the model's implied type and decoded value.           *)
(***************************************************************************)
EXTENDS HclDec, SequencesExt

CONSTANTS MaxSpecD, MaxItems,
          ItemMode,      \* "all": the whole item pool; "few": a small pool for longer bodies
          NParts, Part   \* parallel enumeration: this run starts from the leaf specs of class Part (0-based) of NParts

VARIABLES spec, sd, body, phase, pred, ity, jsonok

vars == <<spec, sd, body, phase, pred, ity, jsonok>>

StrLit(s) == NTpl("q", <<NTLit(s)>>)
BoolAttr == SAttr("b", TBool, FALSE)

LeafSpecs == {SAttr("a", TNum, FALSE), SAttr("a", TNum, TRUE), SAttr("a", TStr, FALSE), SAttr("a", TDyn, FALSE),
              BoolAttr, SLit(1), SLabel(0), STuple(<<SLabel(0), SLabel(1)>>),
              SBlockAttrs("p", TStr, FALSE), SBlockAttrs("p", TDyn, FALSE), SBlockAttrs("p", TNum, TRUE)}

\* a second block type next to the wrapped spec's own, so that schemas list several block types
\* and bodies interleave them (block sequence across types, C03)
RBlocks == SBlockList("r", 0, 0, SLit(1))

LitFor(t) == IF t = TNum THEN {SLit(1)} ELSE IF t = TStr THEN {SLit(2)} ELSE {}

WrapSpec(x) ==
    {SBlock("p", FALSE, x), SBlock("p", TRUE, x),
     SBlockList("p", 0, 0, x), SBlockList("p", 1, 1, x), SBlockTuple("p", 0, 0, x), SBlockSet("p", 0, 2, x),
     SBlockMap("q", 1, x), SBlockMap("q", 2, x), SBlockObject("q", 1, x), SBlockObject("q", 2, x),
     SObject(<<"f", "g">>, <<x, BoolAttr>>), SObject(<<"f">>, <<x>>), STuple(<<x, BoolAttr>>),
     SObject(<<"f", "g">>, <<x, RBlocks>>), STuple(<<RBlocks, x>>),
     STransform(x), SValidate(x), SRefine(x)}
    \cup {SDefault(x, d) : d \in LitFor(ImpliedType(x))}

Inners == {<<>>,
           <<IAttr("a", NNum(2))>>, <<IAttr("a", StrLit("x"))>>, <<IAttr("a", NTuple(<<NNum(2)>>))>>,
           <<IAttr("a", NNum(2)), IAttr("b", NBool(TRUE))>>,
           <<IBlock("p", <<>>, <<IAttr("a", NNum(2))>>)>>,
           <<IAttr("a", NNum(4)), IBlock("p", <<>>, <<>>)>>}

ItemKinds ==
    {IAttr("a", v) : v \in {NNum(2), NNum(26), StrLit("x"), NTuple(<<NNum(2)>>), NNull, NBool(TRUE),
                             NVar("n1"), NVar("u"), NVar("d"), NVar("nn"),
                             \* strings whose VALUE contains a template introducer (written escaped in both syntaxes)
                             StrLit("%{y}"), StrLit("a${x}"),
                             \* object values (also inside a tuple) with a member named like the JSON syntax's
                             \* comment property: only BODIES ignore "//", values keep it (json/spec.md)
                             NObject(<<StrLit("//"), NNum(2), NKeyId("k"), StrLit("x")>>),
                             NTuple(<<NObject(<<StrLit("//"), StrLit("x")>>)>>)}}
    \cup {IAttr("b", NBool(TRUE)), IAttr("c", NNum(2)), IBlock("r", <<>>, <<>>)}
    \cup {IBlock("p", ls, b) : ls \in {<<>>, <<"x">>}, b \in Inners}
    \cup {IBlock("q", ls, b) : ls \in {<<"x">>, <<"y">>, <<"x", "y">>}, b \in Inners}
    \* blocks with three and four labels; siblings that share their first three labels
    \cup {IBlock("q", ls, b) : ls \in {<<"x", "y", "z">>, <<"x", "y", "w">>, <<"x", "y", "z", "v1">>, <<"x", "y", "z", "v2">>, <<"x", "u", "z", "v1">>},
                               b \in {<<>>, <<IAttr("a", NNum(2))>>}}

\* the evaluation context of the decoded bodies: a known number, an unknown number, the dynamic
\* unknown and a typed null (kept in sync with harness/dec.Ctx)
\* the small pool: blocks of one type whose dynamically typed attribute is unset / a number / a
\* string / unknown, a labelled type with two keys, an unexpected block and an attribute
FewItems == {IBlock("p", <<>>, <<>>), IBlock("p", <<>>, <<IAttr("a", NNum(2))>>), IBlock("p", <<>>, <<IAttr("a", StrLit("x"))>>),
             IBlock("p", <<>>, <<IAttr("a", NVar("d"))>>), IBlock("p", <<>>, <<IAttr("a", NTuple(<<NNum(2)>>))>>),
             IBlock("q", <<"x">>, <<IAttr("a", NNum(2))>>), IBlock("q", <<"y">>, <<>>), IBlock("q", <<"x">>, <<IAttr("a", StrLit("x"))>>),
             IAttr("a", NNum(2))}

EmptyEnv == [x \in {"n1", "u", "d", "nn"} |->
               CASE x = "n1" -> Num(2) [] x = "u" -> Unk(TNum) [] x = "d" -> DynVal [] OTHER -> Null(TStr)]
NoPred == R(Oom, FALSE)

LeafSeq == SetToSeq(LeafSpecs)
Init == /\ (\E i \in 1..Len(LeafSeq) : i % NParts = Part /\ spec = LeafSeq[i]) /\ sd = 0 /\ body = <<>> /\ phase = "spec" /\ pred = NoPred /\ ity = TDyn /\ jsonok = TRUE

Wrap == /\ phase = "spec" /\ sd < MaxSpecD
        /\ spec' \in WrapSpec(spec)
        /\ sd' = sd + 1
        /\ UNCHANGED <<body, phase, pred, ity, jsonok>>

Start == /\ phase = "spec" /\ WellFormedSpec(spec, FALSE)
         /\ phase' = "body"
         /\ pred' = Decode(spec, <<>>, EmptyEnv)
         /\ ity' = ImpliedType(spec)
         /\ UNCHANGED <<spec, sd, body, jsonok>>

AddItem == /\ phase = "body" /\ Len(body) < MaxItems
           /\ \E it \in (IF ItemMode = "few" THEN FewItems ELSE ItemKinds) :
                 /\ (it.k = "attr" => ~\E i \in 1..Len(body) : body[i].k = "attr" /\ body[i].name = it.name)
                 /\ body' = Append(body, it)
                 /\ pred' = Decode(spec, body', EmptyEnv)
                 /\ jsonok' = JsonExpressible(spec, body')
           /\ UNCHANGED <<spec, sd, phase, ity>>

Next == Wrap \/ Start \/ AddItem
Spec == Init /\ [][Next]_vars

\* C08 at design level: the specified value always conforms to the implied type
TypeConforms == (phase = "body" /\ ~IsOom(pred.v)) => Conforms(TypeOf(pred.v), ity)
=============================================================================
