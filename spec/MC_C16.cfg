SPECIFICATION Spec
INVARIANT RoundTrip
CHECK_DEADLOCK FALSE
