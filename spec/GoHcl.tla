------------------------------- MODULE GoHcl -------------------------------
(***************************************************************************)
(* gohcl: tagged Go structs <-> HCL bodies (property C16).                 *)
(*                                                                         *)
(* The family of struct types is fixed in the replayer (harness/c16):      *)
(*   Root  { name string (attr); count *int (attr, pointer); opt string    *)
(*           (optional attr); tags map[string]string (optional attr);      *)
(*           list []string (optional attr); req []string and reqmap         *)
(*           map[string]string (REQUIRED attrs: nil is written as null);    *)
(*           inner *Inner (block);                                          *)
(*           items []Item (repeated labelled block);                       *)
(*           pitems []*Item (repeated labelled block of pointers) }        *)
(*   Inner { flag bool (attr); note string (optional attr) }               *)
(*   Item  { key string (label); v int (attr); leaves []Leaf (block) }     *)
(*   Leaf  { id string (label); id2 string (label); w string (attr) }      *)
(*                                                                         *)
(* An abstract value is built field by field; strings are indices into    *)
(* the replayer's table of escape-relevant strings.  The abstract body a   *)
(* value encodes to is (attributes present) + (block sequence), and        *)
(* decoding is its inverse: the model-level round trip law is checked on   *)
(* every generated value.                                                  *)
(***************************************************************************)
EXTENDS Integers, Sequences, FiniteSets, TLC

CONSTANTS NStr,        \* strings are 1..NStr (indices into the replayer's table)
          MaxSeq       \* maximal length of slices / number of map entries

VARIABLES val, step

vars == <<val, step>>

Leaf(id, id2, w) == [id |-> id, id2 |-> id2, w |-> w]
Item(key, v, leaves) == [key |-> key, v |-> v, leaves |-> leaves]
Inner(flag, note) == [set |-> TRUE, flag |-> flag, note |-> note]
NoInner == [set |-> FALSE, flag |-> FALSE, note |-> 0]

\* note = 0 / opt = 0 : the optional string attribute holds its zero value (not written)
\* req / reqmap: [nil, e] - a nil slice/map is a value of its own (encoded as null)
Zero == [name |-> 1, count |-> -1, opt |-> 0, tags |-> <<>>, list |-> <<>>, req |-> [nil |-> TRUE, e |-> <<>>], reqmap |-> [nil |-> TRUE, e |-> <<>>],
         inner |-> NoInner, items |-> <<>>, pitems |-> <<>>]

Strs == 1..NStr

Init == val = Zero /\ step = 0

SetName  == \E s \in Strs : val' = [val EXCEPT !.name = s]
SetCount == \E n \in {-1, 0, 1, 7} : val' = [val EXCEPT !.count = n]          \* -1: nil pointer
SetOpt   == \E s \in Strs : val' = [val EXCEPT !.opt = s]
AddTag   == /\ Len(val.tags) < MaxSeq
            /\ \E k \in Strs, v \in Strs :
                  /\ ~\E i \in 1..Len(val.tags) : val.tags[i].k = k
                  /\ val' = [val EXCEPT !.tags = Append(@, [k |-> k, v |-> v])]
AddList  == /\ Len(val.list) < MaxSeq
            /\ \E s \in Strs : val' = [val EXCEPT !.list = Append(@, s)]
SetReq   == \/ val' = [val EXCEPT !.req = [nil |-> FALSE, e |-> <<>>]]
            \/ (Len(val.req.e) < MaxSeq /\ \E s \in Strs : val' = [val EXCEPT !.req = [nil |-> FALSE, e |-> Append(@.e, s)]])
SetReqMap == \/ val' = [val EXCEPT !.reqmap = [nil |-> FALSE, e |-> <<>>]]
             \/ (Len(val.reqmap.e) < MaxSeq /\ \E k \in {1, 11}, v \in {1, 5} :
                    /\ ~\E i \in 1..Len(val.reqmap.e) : val.reqmap.e[i].k = k
                    /\ val' = [val EXCEPT !.reqmap = [nil |-> FALSE, e |-> Append(@.e, [k |-> k, v |-> v])]])
SetInner == \E f \in BOOLEAN, n \in {0} \cup Strs : val' = [val EXCEPT !.inner = Inner(f, n)]
LeafSets == {<<>>} \cup {<<Leaf(a, b, w)>> : a \in {1, 2}, b \in {1}, w \in {1, 3}} \cup {<<Leaf(1, 1, 1), Leaf(2, 3, 4)>>}
AddItem  == /\ Len(val.items) < MaxSeq
            /\ \E k \in Strs, v \in {0, 5}, ls \in LeafSets : val' = [val EXCEPT !.items = Append(@, Item(k, v, ls))]
AddPItem == /\ Len(val.pitems) < MaxSeq
            /\ \E k \in Strs, v \in {0, 5} : val' = [val EXCEPT !.pitems = Append(@, Item(k, v, <<>>))]

CONSTANT MaxSteps
Next == /\ step < MaxSteps
        /\ step' = step + 1
        /\ (SetName \/ SetCount \/ SetOpt \/ AddTag \/ AddList \/ SetReq \/ SetReqMap \/ SetInner \/ AddItem \/ AddPItem)
Spec == Init /\ [][Next]_vars

---------------------------------------------------------------------------
(* The abstract body of a value and its inverse *)
Attrs(v) == [name |-> v.name, count |-> v.count, opt |-> v.opt, tags |-> v.tags, list |-> v.list, req |-> v.req, reqmap |-> v.reqmap]
Blocks(v) == (IF v.inner.set THEN <<[type |-> "inner", labels |-> <<>>, inner |-> v.inner]>> ELSE <<>>)
             \o [i \in 1..Len(v.items) |-> [type |-> "item", labels |-> <<v.items[i].key>>, item |-> v.items[i]]]
             \o [i \in 1..Len(v.pitems) |-> [type |-> "pitem", labels |-> <<v.pitems[i].key>>, item |-> v.pitems[i]]]

BlocksOfType(bs, t) == LET idx == {i \in 1..Len(bs) : bs[i].type = t} IN
                       [j \in 1..Cardinality(idx) |-> bs[CHOOSE i \in idx : Cardinality({x \in idx : x < i}) = j - 1]]

DecodeStruct(a, bs) ==
    LET inners == BlocksOfType(bs, "inner")
        items == BlocksOfType(bs, "item")
        pitems == BlocksOfType(bs, "pitem")
    IN [name |-> a.name, count |-> a.count, opt |-> a.opt, tags |-> a.tags, list |-> a.list, req |-> a.req, reqmap |-> a.reqmap,
        inner |-> IF Len(inners) = 0 THEN NoInner ELSE inners[1].inner,
        items |-> [i \in 1..Len(items) |-> items[i].item],
        pitems |-> [i \in 1..Len(pitems) |-> pitems[i].item]]

RoundTrip == DecodeStruct(Attrs(val), Blocks(val)) = val
=============================================================================
