----------------------------- MODULE HclLexPos -----------------------------
(***************************************************************************)
(* Source positions (hcl.Pos; spec.md / hclsyntax "Source ranges"): byte   *)
(* offset, line (incremented at LF, a CR LF pair counts once) and column   *)
(* (one per grapheme cluster, a tab is one column) as a machine over       *)
(* character classes (property C14).                                       *)
(*                                                                         *)
(* classes and their fixed representatives (byte widths):                  *)
(*   a 1 SP TAB NL CR DQ BS DOLLAR PCT LBRACE RBRACE HASH SLASH STAR LT    *)
(*   MINUS DOT EQ NUL : one byte each;  BAD : one invalid byte (0xFF)      *)
(*   MB : U+00E9 (2 bytes)   COMB : U+0301 (2 bytes)   ASTRAL : U+1F600 (4)*)
(*   EXT3 : U+20DD combining enclosing circle (3 bytes, Extend)            *)
(*   ZWJ  : U+200D zero width joiner (3 bytes, extends the cluster)        *)
(*   VS   : U+FE0F variation selector-16 (3 bytes, Extend)                 *)
(*   NBSP : U+00A0 no-break space (2 bytes; Unicode white space that is    *)
(*          not a blank of the language)     FF : form feed (a control)    *)
(*   HOPEN: the four bytes "<<a" LF, a heredoc introducer with its line    *)
(*          end (one class, so that short class strings contain heredocs   *)
(*          whose closing line "a" carries arbitrary neighbours)           *)
(***************************************************************************)
EXTENDS Integers, Sequences, FiniteSets, TLC

LexClasses == {"a", "1", "SP", "TAB", "NL", "CR", "DQ", "BS", "DOLLAR", "PCT", "LBRACE", "RBRACE", "HASH", "SLASH", "STAR",
               "LT", "MINUS", "DOT", "EQ", "NUL", "BAD", "MB", "COMB", "ASTRAL", "EXT3", "ZWJ", "VS", "NBSP", "FF", "HOPEN"}

Width(c) == CASE c \in {"MB", "COMB", "NBSP"} -> 2 [] c \in {"EXT3", "ZWJ", "VS"} -> 3 [] c \in {"ASTRAL", "HOPEN"} -> 4 [] OTHER -> 1
Extenders == {"COMB", "EXT3", "ZWJ", "VS"}

\* control characters never join a cluster (UAX #29 GB4/GB5); an invalid byte is a cluster of its own
Control == {"NL", "CR", "TAB", "NUL", "BAD", "FF"}

Pos(b, l, c) == [byte |-> b, line |-> l, col |-> c]

\* Grapheme cluster state after the last character (the part of UAX #29 this alphabet needs):
\*   "ctrl"      at the start of input or after a control character: nothing can attach
\*   "emoji"     the current cluster is an emoji (ExtPict) possibly followed by Extend characters
\*   "emojizwj"  ... followed by a zero width joiner: the next emoji joins the same cluster (GB11)
\*   "other"     any other cluster: Extend characters and ZWJ attach, nothing else does
\* Advance returns the new position and the new cluster state.
AdvanceSt(p, st, prev, c) ==
    LET b == p.byte + Width(c)
        same == Pos(b, p.line, p.col)
        next == Pos(b, p.line, p.col + 1)
    IN CASE c \in {"NL", "HOPEN"} -> [pos |-> Pos(b, p.line + 1, 1), st |-> "ctrl"]      \* also after CR: the pair is one newline
         [] c \in Control \ {"NL"} -> [pos |-> next, st |-> "ctrl"]
         [] c \in {"COMB", "EXT3", "VS"} ->
                (IF st = "ctrl" THEN [pos |-> next, st |-> "other"]
                 \* (in the dependency's segmenter an emoji cluster stays an emoji cluster through any mix
                 \*  of Extend characters and joiners; only a joiner directly before an emoji glues it)
                 ELSE [pos |-> same, st |-> IF st \in {"emoji", "emojizwj"} THEN "emoji" ELSE "other"])
         [] c = "ZWJ" ->
                (IF st = "ctrl" THEN [pos |-> next, st |-> "other"]
                 \* (the dependency's segmenter also lets a run of joiners keep the emoji sequence open)
                 ELSE [pos |-> same, st |-> IF st \in {"emoji", "emojizwj"} THEN "emojizwj" ELSE "other"])
         [] c = "ASTRAL" ->
                (IF st = "emojizwj" THEN [pos |-> same, st |-> "emoji"] ELSE [pos |-> next, st |-> "emoji"])
         [] OTHER -> [pos |-> next, st |-> "other"]

\* positions (and cluster states) at every class boundary of s, starting from p0
RECURSIVE BoundStates(_, _, _, _)
BoundStates(s, i, p, st) ==
    IF i > Len(s) THEN <<[pos |-> p, st |-> st]>>
    ELSE LET r == AdvanceSt(p, st, IF i = 1 THEN "" ELSE s[i-1], s[i])
         IN <<[pos |-> p, st |-> st]>> \o BoundStates(s, i + 1, r.pos, r.st)

Boundaries(s, i, p, prev) == LET bs == BoundStates(s, 1, p, "ctrl") IN [k \in 1..Len(bs) |-> bs[k].pos]

\* a boundary before index i (1-based, i = Len(s)+1 is the end) is a cluster boundary iff the
\* character at i starts a new column or line - except that LF after CR continues the CR's cluster
ClusterBoundary(s, i) ==
    IF i = 1 \/ i = Len(s) + 1 THEN TRUE
    ELSE LET bs == BoundStates(s, 1, Pos(0, 1, 1), "ctrl") IN
         ~(s[i-1] = "CR" /\ s[i] = "NL") /\ (bs[i+1].pos.col # bs[i].pos.col \/ bs[i+1].pos.line # bs[i].pos.line)
=============================================================================
