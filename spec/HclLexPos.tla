----------------------------- MODULE HclLexPos -----------------------------
(***************************************************************************)
(* Source positions (hcl.Pos; spec.md / hclsyntax "Source ranges"): byte   *)
(* offset, line (incremented at LF, a CR LF pair counts once) and column   *)
(* (one per grapheme cluster, a tab is one column) as a machine over       *)
(* character classes (property C14).                                       *)
(*                                                                         *)
(* classes and their fixed representatives (byte widths):                  *)
(*   a 1 SP TAB NL CR DQ BS DOLLAR PCT LBRACE RBRACE HASH SLASH STAR LT    *)
(*   MINUS DOT EQ NUL : one byte each;  BAD : one invalid byte (0xFF)      *)
(*   MB : U+00E9 (2 bytes)   COMB : U+0301 (2 bytes)   ASTRAL : U+1F600 (4)*)
(***************************************************************************)
EXTENDS Integers, Sequences, FiniteSets, TLC

LexClasses == {"a", "1", "SP", "TAB", "NL", "CR", "DQ", "BS", "DOLLAR", "PCT", "LBRACE", "RBRACE", "HASH", "SLASH", "STAR",
               "LT", "MINUS", "DOT", "EQ", "NUL", "BAD", "MB", "COMB", "ASTRAL"}

Width(c) == CASE c \in {"MB", "COMB"} -> 2 [] c = "ASTRAL" -> 4 [] OTHER -> 1

\* control characters never join a cluster (UAX #29 GB4/GB5); an invalid byte is a cluster of its own
Control == {"NL", "CR", "TAB", "NUL", "BAD"}

Pos(b, l, c) == [byte |-> b, line |-> l, col |-> c]

\* position after reading class c when the previous class was prev ("" at the start of input)
Advance(p, prev, c) ==
    LET b == p.byte + Width(c) IN
    CASE c = "NL" -> (IF prev = "CR"
                      THEN Pos(b, p.line + 1, 1)          \* CR LF: the pair is one newline (the CR had taken a column)
                      ELSE Pos(b, p.line + 1, 1))
      [] c = "COMB" -> (IF prev = "" \/ prev \in Control THEN Pos(b, p.line, p.col + 1)
                        ELSE Pos(b, p.line, p.col))       \* extends the previous cluster
      [] OTHER -> Pos(b, p.line, p.col + 1)

\* positions at every class boundary of s, starting from p0: sequence of length Len(s)+1
RECURSIVE Boundaries(_, _, _, _)
Boundaries(s, i, p, prev) ==
    IF i > Len(s) THEN <<p>>
    ELSE <<p>> \o Boundaries(s, i + 1, Advance(p, prev, s[i]), s[i])

\* a boundary before index i (1-based, i = Len(s)+1 is the end) is a cluster boundary
\* unless it would split CR LF or separate a base character from its combining mark
ClusterBoundary(s, i) ==
    IF i = 1 \/ i = Len(s) + 1 THEN TRUE
    ELSE ~(s[i-1] = "CR" /\ s[i] = "NL") /\ ~(s[i] = "COMB" /\ s[i-1] \notin Control)
=============================================================================
