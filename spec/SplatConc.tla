----------------------------- MODULE SplatConc -----------------------------
(***************************************************************************)
(* SplatConcCore (state, actions, Spec) plus the properties checked by TLC. *)
(* The split keeps the recursive definitions below out of the module the    *)
(* TLAPS proofs (spec/proofs/SplatConcProofs.tla) extend: tlapm does not     *)
(* accept RECURSIVE operators.                                              *)
(***************************************************************************)
EXTENDS SplatConcCore

---------------------------------------------------------------------------
\* the sequence of values goroutine g reads when it runs alone
RECURSIVE SeqOuter(_, _), SeqInner(_, _, _)
SeqInner(g, i, j) == IF j > NInner THEN <<>> ELSE <<Item(g, "inner", i, j)>> \o SeqInner(g, i, j + 1)
SeqOuter(g, i) == IF i > NOuter THEN <<>> ELSE <<Item(g, "outer", i, 0)>> \o SeqInner(g, i, 1) \o SeqOuter(g, i + 1)
Alone(g) == IF Kind[g] = "empty" THEN <<Probe(g, "outer"), Probe(g, "inner")>> ELSE SeqOuter(g, 1)

IsPrefix(a, b) == Len(a) <= Len(b) /\ SubSeq(b, 1, Len(a)) = a

\* every read returns what the same goroutine set: concurrent == sequential
ReadOwn == \A g \in G : IsPrefix(got[g], Alone(g))
\* when everybody is done nothing is left in the shared tree
AllDone == \A g \in G : pc[g].ph = "done"
NoLeak == AllDone => \A s \in Syms, c \in CtxIds : values[s][c] = Absent
=============================================================================
