----------------------------- MODULE SplatConc -----------------------------
(***************************************************************************)
(* Concurrent evaluation of one shared, parsed splat expression (property  *)
(* C17).  The syntax tree holds per-evaluation state: every anonymous      *)
(* symbol of a splat has a map  values : EvalContext -> Value  protected   *)
(* by a read/write lock.  Each goroutine g evaluates the expression in its *)
(* own context Ctx[g]; the methods setValue / Value / clearValue hold the  *)
(* lock for their whole body, so each is one atomic action here, and the   *)
(* actions of different goroutines interleave freely.                      *)
(*                                                                         *)
(* Program of one evaluation of  src[*].inner[*]  (two nested symbols):    *)
(*   for each outer item i:   Set(outer, i); Read(outer)      -- inner src *)
(*        for each inner item j: Set(inner, j); Read(inner)                *)
(*        Clear(inner)                                                     *)
(*   Clear(outer)                                                          *)
(* With NInner = 0 the inner loop is absent (a plain  src[*].attr ).       *)
(***************************************************************************)
EXTENDS Integers, Sequences, FiniteSets, TLC

CONSTANTS G,        \* set of goroutines
          Ctx,      \* function goroutine -> evaluation context id
          NOuter, NInner

VARIABLES values,   \* [sym -> [ctx -> value or "absent"]]
          pc,       \* [g -> program counter record]
          got,      \* [g -> sequence of values read so far]
          sched     \* sequence of <<op, g>>: the interleaving taken (the schedule to replay)

vars == <<values, pc, got, sched>>

Syms == {"outer", "inner"}
CtxIds == {Ctx[g] : g \in G}
Absent == <<"absent">>
Item(g, sym, i, j) == <<g, sym, i, j>>      \* values are tagged with their goroutine

\* pc: [ph, i, j]; ph in set_o read_o set_i read_i clear_i clear_o done
PC(ph, i, j) == [ph |-> ph, i |-> i, j |-> j]

Init == /\ values = [s \in Syms |-> [c \in CtxIds |-> Absent]]
        /\ pc = [g \in G |-> IF NOuter = 0 THEN PC("clear_o", 0, 0) ELSE PC("set_o", 1, 0)]
        /\ got = [g \in G |-> <<>>]
        /\ sched = <<>>

Log(op, g) == sched' = Append(sched, <<op, g>>)

SetOuter(g) == /\ pc[g].ph = "set_o"
               /\ values' = [values EXCEPT !["outer"][Ctx[g]] = Item(g, "outer", pc[g].i, 0)]
               /\ pc' = [pc EXCEPT ![g] = PC("read_o", pc[g].i, 0)]
               /\ Log("set", g) /\ UNCHANGED got

ReadOuter(g) == /\ pc[g].ph = "read_o"
                /\ got' = [got EXCEPT ![g] = Append(@, values["outer"][Ctx[g]])]
                /\ pc' = [pc EXCEPT ![g] = IF NInner > 0 THEN PC("set_i", pc[g].i, 1)
                                           ELSE IF pc[g].i < NOuter THEN PC("set_o", pc[g].i + 1, 0)
                                           ELSE PC("clear_o", pc[g].i, 0)]
                /\ Log("read", g) /\ UNCHANGED values

SetInner(g) == /\ pc[g].ph = "set_i"
               /\ values' = [values EXCEPT !["inner"][Ctx[g]] = Item(g, "inner", pc[g].i, pc[g].j)]
               /\ pc' = [pc EXCEPT ![g] = PC("read_i", pc[g].i, pc[g].j)]
               /\ Log("set", g) /\ UNCHANGED got

ReadInner(g) == /\ pc[g].ph = "read_i"
                /\ got' = [got EXCEPT ![g] = Append(@, values["inner"][Ctx[g]])]
                /\ pc' = [pc EXCEPT ![g] = IF pc[g].j < NInner THEN PC("set_i", pc[g].i, pc[g].j + 1)
                                           ELSE PC("clear_i", pc[g].i, pc[g].j)]
                /\ Log("read", g) /\ UNCHANGED values

ClearInner(g) == /\ pc[g].ph = "clear_i"
                 /\ values' = [values EXCEPT !["inner"][Ctx[g]] = Absent]
                 /\ pc' = [pc EXCEPT ![g] = IF pc[g].i < NOuter THEN PC("set_o", pc[g].i + 1, 0) ELSE PC("clear_o", pc[g].i, 0)]
                 /\ Log("clear", g) /\ UNCHANGED got

ClearOuter(g) == /\ pc[g].ph = "clear_o"
                 /\ values' = [values EXCEPT !["outer"][Ctx[g]] = Absent]
                 /\ pc' = [pc EXCEPT ![g] = PC("done", 0, 0)]
                 /\ Log("clear", g) /\ UNCHANGED got

Next == \E g \in G : SetOuter(g) \/ ReadOuter(g) \/ SetInner(g) \/ ReadInner(g) \/ ClearInner(g) \/ ClearOuter(g)
Spec == Init /\ [][Next]_vars

---------------------------------------------------------------------------
\* the sequence of values goroutine g reads when it runs alone
RECURSIVE SeqOuter(_, _), SeqInner(_, _, _)
SeqInner(g, i, j) == IF j > NInner THEN <<>> ELSE <<Item(g, "inner", i, j)>> \o SeqInner(g, i, j + 1)
SeqOuter(g, i) == IF i > NOuter THEN <<>> ELSE <<Item(g, "outer", i, 0)>> \o SeqInner(g, i, 1) \o SeqOuter(g, i + 1)

IsPrefix(a, b) == Len(a) <= Len(b) /\ SubSeq(b, 1, Len(a)) = a

\* every read returns what the same goroutine set: concurrent == sequential
ReadOwn == \A g \in G : IsPrefix(got[g], SeqOuter(g, 1))
\* when everybody is done nothing is left in the shared tree
NoLeak == (\A g \in G : pc[g].ph = "done") => \A s \in Syms, c \in CtxIds : values[s][c] = Absent
AllDone == \A g \in G : pc[g].ph = "done"
=============================================================================
