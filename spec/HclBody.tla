------------------------------ MODULE HclBody ------------------------------
(***************************************************************************)
(* The hcl.Body interface as a machine (spec.md "Schema-driven            *)
(* Processing"; property C04).                                             *)
(*                                                                         *)
(* A body is an item sequence.  Applying a schema with PartialContent      *)
(* returns the matching items and a NEW body (same items, larger hidden    *)
(* sets); Content additionally reports every visible item the schema does  *)
(* not cover.  The model is the common denotation of the four              *)
(* implementations (native, JSON, merged, dynamic-block expanded), which   *)
(* the replayer builds from the same abstract items.                       *)
(***************************************************************************)
EXTENDS Integers, Sequences, FiniteSets, TLC

CONSTANTS AttrNames, BlockTypes, MaxItems, MaxParts, MaxLabels

VARIABLES items,   \* sequence of items [k, name, nl, id]
          parts,   \* the schema split: sequence of schema parts; all but the last are applied
                   \* with PartialContent, the last with Content on the remaining body
          phase,
          pred     \* the model's prediction for this chain and for the one-step union

vars == <<items, parts, phase, pred>>

Attr(name, id)      == [k |-> "attr", name |-> name, nl |-> 0, id |-> id]
Block(type, nl, id) == [k |-> "block", name |-> type, nl |-> nl, id |-> id]

\* schema part: attrs = set of [name, req]; blocks = set of [type, nl]
EmptyPart == [attrs |-> {}, blocks |-> {}]

AttrNamesOf(S)  == {a.name : a \in S.attrs}
BlockTypesOf(S) == {b.type : b \in S.blocks}

---------------------------------------------------------------------------
(* One PartialContent step on (items, hidden sets) *)
Idx == 1..Len(items)

PartialStep(its, hA, hB, S) ==
    LET present(n) == \E i \in 1..Len(its) : its[i].k = "attr" /\ its[i].name = n
        gotAttrs == {n \in AttrNamesOf(S) : n \notin hA /\ present(n)}
        missing  == {a.name : a \in {x \in S.attrs : x.req /\ x.name \notin gotAttrs}}
        wantNl(t) == (CHOOSE b \in S.blocks : b.type = t).nl
        cand == {i \in 1..Len(its) : its[i].k = "block" /\ its[i].name \in BlockTypesOf(S) /\ its[i].name \notin hB}
        okB  == {i \in cand : its[i].nl = wantNl(its[i].name)}
        badB == cand \ okB
    IN [attrs  |-> gotAttrs,
        blocks |-> {its[i].id : i \in okB},
        errs   |-> {<<"missing", n, 0>> : n \in missing} \cup {<<"labels", its[i].name, its[i].id>> : i \in badB},
        hA     |-> hA \cup gotAttrs,
        hB     |-> hB \cup BlockTypesOf(S)]

\* Content = PartialContent + every visible item not covered is an error
ContentStep(its, hA, hB, S) ==
    LET p == PartialStep(its, hA, hB, S)
        extraA == {i \in 1..Len(its) : its[i].k = "attr" /\ its[i].name \notin p.hA}
        extraB == {i \in 1..Len(its) : its[i].k = "block" /\ its[i].name \notin p.hB}
    IN [p EXCEPT !.errs = @ \cup {<<"extra-attr", its[i].name, its[i].id>> : i \in extraA}
                            \cup {<<"extra-block", its[i].name, its[i].id>> : i \in extraB}]

RECURSIVE Chain(_, _, _, _, _)
\* apply parts[i..]: all but the last partially; returns sequence of step results
Chain(its, ps, i, hA, hB) ==
    IF i > Len(ps) THEN <<>>
    ELSE IF i = Len(ps) THEN <<ContentStep(its, hA, hB, ps[i])>>
    ELSE LET r == PartialStep(its, hA, hB, ps[i]) IN <<r>> \o Chain(its, ps, i + 1, r.hA, r.hB)

RECURSIVE UnionPart(_, _)
UnionPart(ps, i) == IF i > Len(ps) THEN EmptyPart
                    ELSE LET r == UnionPart(ps, i + 1) IN
                         [attrs |-> ps[i].attrs \cup r.attrs, blocks |-> ps[i].blocks \cup r.blocks]

Predict(its, ps) ==
    [steps |-> Chain(its, ps, 1, {}, {}),
     union |-> ContentStep(its, {}, {}, UnionPart(ps, 1))]

NoPred == [steps |-> <<>>, union |-> ContentStep(<<>>, {}, {}, EmptyPart)]

---------------------------------------------------------------------------
(* Generation *)
ItemKinds == {[k |-> "attr", name |-> n, nl |-> 0] : n \in AttrNames}
             \cup {[k |-> "block", name |-> t, nl |-> l] : t \in BlockTypes, l \in 0..MaxLabels}

Init == items = <<>> /\ parts = <<>> /\ phase = "items" /\ pred = NoPred

AddItem ==
    /\ phase = "items" /\ Len(items) < MaxItems
    /\ \E ik \in ItemKinds :
          \* attribute names are unique within a body (a duplicate is a parse error, property C02)
          /\ (ik.k = "attr" => ~\E i \in Idx : items[i].k = "attr" /\ items[i].name = ik.name)
          /\ items' = Append(items, [k |-> ik.k, name |-> ik.name, nl |-> ik.nl, id |-> Len(items) + 1])
    /\ UNCHANGED <<parts, phase, pred>>

\* a disjoint split of a well-formed schema: every attribute name / block type is assigned to at
\* most one part, with a required flag / label count
AttrOpts  == {[part |-> 0, req |-> FALSE]} \cup {[part |-> p, req |-> r] : p \in 1..MaxParts, r \in BOOLEAN}
BlockOpts == {[part |-> 0, nl |-> 0]} \cup {[part |-> p, nl |-> l] : p \in 1..MaxParts, l \in 0..MaxLabels}

MkParts(fa, fb, np) ==
    [p \in 1..np |->
        [attrs  |-> {[name |-> n, req |-> fa[n].req] : n \in {x \in AttrNames : fa[x].part = p}},
         blocks |-> {[type |-> t, nl |-> fb[t].nl] : t \in {x \in BlockTypes : fb[x].part = p}}]]

Finish ==
    /\ phase = "items"
    /\ \E np \in 2..MaxParts, fa \in [AttrNames -> AttrOpts], fb \in [BlockTypes -> BlockOpts] :
          /\ \A n \in AttrNames : fa[n].part <= np
          /\ \A t \in BlockTypes : fb[t].part <= np
          /\ parts' = MkParts(fa, fb, np)
          /\ pred' = Predict(items, parts')
    /\ phase' = "done"
    /\ UNCHANGED items

Next == AddItem \/ Finish
Spec == Init /\ [][Next]_vars

---------------------------------------------------------------------------
(* The laws of property C04, checked on the model *)
RECURSIVE UnionOver(_, _, _)
UnionOver(steps, i, f) == IF i > Len(steps) THEN {} ELSE
    (CASE f = "attrs" -> steps[i].attrs [] f = "blocks" -> steps[i].blocks [] f = "errs" -> steps[i].errs)
    \cup UnionOver(steps, i + 1, f)

Done == phase = "done"

\* two-step (k-step) processing is equivalent to one exhaustive step with the union schema
TwoStep == Done => /\ UnionOver(pred.steps, 1, "attrs")  = pred.union.attrs
                   /\ UnionOver(pred.steps, 1, "blocks") = pred.union.blocks
                   /\ UnionOver(pred.steps, 1, "errs")   = pred.union.errs

\* no item is returned by two different steps
ExactlyOnce == Done =>
    \A i, j \in 1..Len(pred.steps) : i # j =>
        /\ pred.steps[i].attrs \cap pred.steps[j].attrs = {}
        /\ pred.steps[i].blocks \cap pred.steps[j].blocks = {}

\* every item is accounted for: returned, or reported
Accounted == Done =>
    \A i \in Idx :
        LET it == items[i] IN
        IF it.k = "attr"
        THEN it.name \in pred.union.attrs \/ <<"extra-attr", it.name, it.id>> \in pred.union.errs
        ELSE it.id \in pred.union.blocks \/ <<"extra-block", it.name, it.id>> \in pred.union.errs
                                         \/ <<"labels", it.name, it.id>> \in pred.union.errs
=============================================================================
