------------------------------ MODULE MC_C04 ------------------------------
EXTENDS HclBody
MCAttrNames == {"a", "b"}
\* the second block type shares its name with an attribute: arguments and blocks live in separate
\* namespaces (native syntax), and a schema may ask for the same name in both
MCBlockTypes == {"p", "a"}
=============================================================================
