-------------------------- MODULE SplatConcProofs --------------------------
(***************************************************************************)
(* Machine-checked (TLAPS) proof, for ANY number of goroutines and any     *)
(* splat sizes, of the heart of property C17 on the SplatConc design:      *)
(* whenever a goroutine reads an anonymous symbol it reads the value it    *)
(* set itself, no matter how the lock-protected operations of the other    *)
(* goroutines interleave - provided every goroutine evaluates in its own   *)
(* context (Ctx injective), which is exactly the proviso of the property.  *)
(* TLC checks the same (and ReadOwn / NoLeak) exhaustively for 3           *)
(* goroutines; the proof removes that bound.                               *)
(***************************************************************************)
EXTENDS SplatConcCore, TLAPS

ASSUME ConstAssump ==
    /\ G \subseteq 1..99
    /\ Ctx \in [G -> 1..99]
    /\ \A a, b \in G : Ctx[a] = Ctx[b] => a = b
    /\ Kind \in [G -> {"full", "empty"}]
    /\ NOuter \in Nat /\ NInner \in Nat

\* what goroutine g must find when it performs the read its program counter points at
Expected(g) ==
    CASE pc[g].ph = "read_o"   -> Item(g, "outer", pc[g].i, 0)
      [] pc[g].ph = "read_i"   -> Item(g, "inner", pc[g].i, pc[g].j)
      [] pc[g].ph = "e_read_o" -> Probe(g, "outer")
      [] pc[g].ph = "e_read_i" -> Probe(g, "inner")
      [] OTHER -> Absent

TypeOK ==
    /\ DOMAIN values = Syms
    /\ \A s \in Syms : DOMAIN values[s] = CtxIds
    /\ DOMAIN pc = G
    /\ DOMAIN got = G

\* the inductive invariant: a goroutine that is about to read has its own value in its own slot
PCInv ==
    \A g \in G :
       /\ pc[g].ph = "read_o"   => values["outer"][Ctx[g]] = Item(g, "outer", pc[g].i, 0)
       /\ pc[g].ph = "read_i"   => values["inner"][Ctx[g]] = Item(g, "inner", pc[g].i, pc[g].j)
       /\ pc[g].ph = "e_read_o" => values["outer"][P1(g)] = Probe(g, "outer")
       /\ pc[g].ph = "e_read_i" => values["inner"][P2(g)] = Probe(g, "inner")

Inv == TypeOK /\ PCInv

LEMMA CtxFacts ==
    /\ \A g \in G : Ctx[g] \in CtxIds /\ P1(g) \in CtxIds /\ P2(g) \in CtxIds
    /\ \A g, h \in G : g # h => /\ Ctx[g] # Ctx[h] /\ P1(g) # P1(h) /\ P2(g) # P2(h)
    /\ \A g, h \in G : /\ Ctx[g] # P1(h) /\ Ctx[g] # P2(h) /\ P1(g) # P2(h)
  BY ConstAssump DEF CtxIds, P1, P2

LEMMA InitInv == Init => Inv
  BY ConstAssump DEF Init, Inv, TypeOK, PCInv, StartPC, PC, Syms

LEMMA NextInv == Inv /\ [Next]_vars => Inv'
<1> SUFFICES ASSUME Inv, [Next]_vars PROVE Inv'
  OBVIOUS
<1>0. CASE UNCHANGED vars
  BY <1>0 DEF vars, Inv, TypeOK, PCInv
<1>1. ASSUME NEW g \in G, SetOuter(g) PROVE Inv'
  BY <1>1, CtxFacts, ConstAssump DEF SetOuter, DoSet, Log, Inv, TypeOK, PCInv, PC, Item, Probe, Absent, Syms
<1>2. ASSUME NEW g \in G, ReadOuter(g) PROVE Inv'
  BY <1>2, CtxFacts, ConstAssump DEF ReadOuter, DoRead, Log, Inv, TypeOK, PCInv, PC, Item, Probe, Absent, Syms
<1>3. ASSUME NEW g \in G, SetInner(g) PROVE Inv'
  BY <1>3, CtxFacts, ConstAssump DEF SetInner, DoSet, Log, Inv, TypeOK, PCInv, PC, Item, Probe, Absent, Syms
<1>4. ASSUME NEW g \in G, ReadInner(g) PROVE Inv'
  BY <1>4, CtxFacts, ConstAssump DEF ReadInner, DoRead, Log, Inv, TypeOK, PCInv, PC, Item, Probe, Absent, Syms
<1>5. ASSUME NEW g \in G, ClearInner(g) PROVE Inv'
  BY <1>5, CtxFacts, ConstAssump DEF ClearInner, DoClear, Log, Inv, TypeOK, PCInv, PC, Item, Probe, Absent, Syms
<1>6. ASSUME NEW g \in G, ClearOuter(g) PROVE Inv'
  BY <1>6, CtxFacts, ConstAssump DEF ClearOuter, DoClear, Log, Inv, TypeOK, PCInv, PC, Item, Probe, Absent, Syms
<1>7. ASSUME NEW g \in G, EClearOuter(g) PROVE Inv'
  BY <1>7, CtxFacts, ConstAssump DEF EClearOuter, DoClear, Log, Inv, TypeOK, PCInv, PC, Item, Probe, Absent, Syms
<1>8. ASSUME NEW g \in G, ESetOuter(g) PROVE Inv'
  BY <1>8, CtxFacts, ConstAssump DEF ESetOuter, DoSet, Log, Inv, TypeOK, PCInv, PC, Item, Probe, Absent, Syms
<1>9. ASSUME NEW g \in G, EReadOuter(g) PROVE Inv'
  BY <1>9, CtxFacts, ConstAssump DEF EReadOuter, DoRead, Log, Inv, TypeOK, PCInv, PC, Item, Probe, Absent, Syms
<1>10. ASSUME NEW g \in G, ESetInner(g) PROVE Inv'
  BY <1>10, CtxFacts, ConstAssump DEF ESetInner, DoSet, Log, Inv, TypeOK, PCInv, PC, Item, Probe, Absent, Syms
<1>11. ASSUME NEW g \in G, EReadInner(g) PROVE Inv'
  BY <1>11, CtxFacts, ConstAssump DEF EReadInner, DoRead, Log, Inv, TypeOK, PCInv, PC, Item, Probe, Absent, Syms
<1>12. ASSUME NEW g \in G, EClearInner(g) PROVE Inv'
  BY <1>12, CtxFacts, ConstAssump DEF EClearInner, DoClear, Log, Inv, TypeOK, PCInv, PC, Item, Probe, Absent, Syms
<1>13. ASSUME NEW g \in G, EClearOuter2(g) PROVE Inv'
  BY <1>13, CtxFacts, ConstAssump DEF EClearOuter2, DoClear, Log, Inv, TypeOK, PCInv, PC, Item, Probe, Absent, Syms
<1> QED
  BY <1>0, <1>1, <1>2, <1>3, <1>4, <1>5, <1>6, <1>7, <1>8, <1>9, <1>10, <1>11, <1>12, <1>13 DEF Next

\* every read returns the reader's own value (action property), for behaviours of any length
ReadsOwn ==
    \A g \in G : got'[g] # got[g] => got'[g] = Append(got[g], Expected(g))

LEMMA StepReadsOwn == Inv /\ [Next]_vars => ReadsOwn
<1> SUFFICES ASSUME Inv, [Next]_vars PROVE ReadsOwn
  OBVIOUS
<1>0. CASE UNCHANGED vars
  BY <1>0 DEF vars, ReadsOwn
<1>1. ASSUME NEW h \in G, SetOuter(h) PROVE ReadsOwn
  BY <1>1, CtxFacts, ConstAssump DEF SetOuter, DoSet, Log, Inv, TypeOK, PCInv, PC, ReadsOwn, Expected
<1>2. ASSUME NEW h \in G, ReadOuter(h) PROVE ReadsOwn
  BY <1>2, CtxFacts, ConstAssump DEF ReadOuter, DoRead, Log, Inv, TypeOK, PCInv, PC, ReadsOwn, Expected
<1>3. ASSUME NEW h \in G, SetInner(h) PROVE ReadsOwn
  BY <1>3, CtxFacts, ConstAssump DEF SetInner, DoSet, Log, Inv, TypeOK, PCInv, PC, ReadsOwn, Expected
<1>4. ASSUME NEW h \in G, ReadInner(h) PROVE ReadsOwn
  BY <1>4, CtxFacts, ConstAssump DEF ReadInner, DoRead, Log, Inv, TypeOK, PCInv, PC, ReadsOwn, Expected
<1>5. ASSUME NEW h \in G, ClearInner(h) PROVE ReadsOwn
  BY <1>5, CtxFacts, ConstAssump DEF ClearInner, DoClear, Log, Inv, TypeOK, PCInv, PC, ReadsOwn, Expected
<1>6. ASSUME NEW h \in G, ClearOuter(h) PROVE ReadsOwn
  BY <1>6, CtxFacts, ConstAssump DEF ClearOuter, DoClear, Log, Inv, TypeOK, PCInv, PC, ReadsOwn, Expected
<1>7. ASSUME NEW h \in G, EClearOuter(h) PROVE ReadsOwn
  BY <1>7, CtxFacts, ConstAssump DEF EClearOuter, DoClear, Log, Inv, TypeOK, PCInv, PC, ReadsOwn, Expected
<1>8. ASSUME NEW h \in G, ESetOuter(h) PROVE ReadsOwn
  BY <1>8, CtxFacts, ConstAssump DEF ESetOuter, DoSet, Log, Inv, TypeOK, PCInv, PC, ReadsOwn, Expected
<1>9. ASSUME NEW h \in G, EReadOuter(h) PROVE ReadsOwn
  BY <1>9, CtxFacts, ConstAssump DEF EReadOuter, DoRead, Log, Inv, TypeOK, PCInv, PC, ReadsOwn, Expected
<1>10. ASSUME NEW h \in G, ESetInner(h) PROVE ReadsOwn
  BY <1>10, CtxFacts, ConstAssump DEF ESetInner, DoSet, Log, Inv, TypeOK, PCInv, PC, ReadsOwn, Expected
<1>11. ASSUME NEW h \in G, EReadInner(h) PROVE ReadsOwn
  BY <1>11, CtxFacts, ConstAssump DEF EReadInner, DoRead, Log, Inv, TypeOK, PCInv, PC, ReadsOwn, Expected
<1>12. ASSUME NEW h \in G, EClearInner(h) PROVE ReadsOwn
  BY <1>12, CtxFacts, ConstAssump DEF EClearInner, DoClear, Log, Inv, TypeOK, PCInv, PC, ReadsOwn, Expected
<1>13. ASSUME NEW h \in G, EClearOuter2(h) PROVE ReadsOwn
  BY <1>13, CtxFacts, ConstAssump DEF EClearOuter2, DoClear, Log, Inv, TypeOK, PCInv, PC, ReadsOwn, Expected
<1> QED
  BY <1>0, <1>1, <1>2, <1>3, <1>4, <1>5, <1>6, <1>7, <1>8, <1>9, <1>10, <1>11, <1>12, <1>13 DEF Next

THEOREM InvAlways == Spec => []Inv
  BY InitInv, NextInv, PTL DEF Spec

THEOREM ReadOwnAlways == Spec => [][ReadsOwn]_vars
<1>1. Inv /\ [Next]_vars => [ReadsOwn]_vars
  BY StepReadsOwn
<1> QED
  BY <1>1, InvAlways, PTL DEF Spec
=============================================================================
