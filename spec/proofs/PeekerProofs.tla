---------------------------- MODULE PeekerProofs ----------------------------
(* Machine-checked (TLAPS) proofs of the Peeker protocol's safety properties *)
(* for behaviours of ANY length: the newline stack is never empty, and the   *)
(* recovery flag is never cleared.                                           *)
EXTENDS Peeker, TLAPS

TypeOK == /\ stack \in Seq(BOOLEAN)
          /\ recovery \in BOOLEAN
          /\ ended \in BOOLEAN

Inv == TypeOK /\ Len(stack) >= 1

LEMMA InitInv == PInit => Inv
  BY DEF PInit, Inv, TypeOK

LEMMA NextInv == Inv /\ [PNext]_pvars => Inv'
<1> SUFFICES ASSUME Inv, [PNext]_pvars PROVE Inv'
  OBVIOUS
<1>1. CASE \E b \in BOOLEAN : Push(b)
  BY <1>1 DEF Push, Inv, TypeOK
<1>2. CASE \E b \in BOOLEAN : Pop(b)
  BY <1>2 DEF Pop, Inv, TypeOK
<1>3. CASE SetRecovery
  BY <1>3 DEF SetRecovery, Inv, TypeOK
<1>4. CASE \E n \in 1..64 : AssertEmpty(n)
  BY <1>4 DEF AssertEmpty, Inv, TypeOK
<1>5. CASE UNCHANGED pvars
  BY <1>5 DEF pvars, Inv, TypeOK
<1> QED
  BY <1>1, <1>2, <1>3, <1>4, <1>5 DEF PNext

THEOREM NeverEmptyAlways == PSpec => []NeverEmpty
<1>1. Inv => NeverEmpty
  BY DEF Inv, NeverEmpty
<1>2. PSpec => []Inv
  BY InitInv, NextInv, PTL DEF PSpec
<1> QED
  BY <1>1, <1>2, PTL

THEOREM RecoveryNeverCleared == PSpec => RecoveryMonotone
<1>1. [PNext]_pvars => [recovery => recovery']_pvars
  BY DEF PNext, Push, Pop, SetRecovery, AssertEmpty, pvars
<1> QED
  BY <1>1, PTL DEF PSpec, RecoveryMonotone
=============================================================================
