------------------------------ MODULE HclExpr ------------------------------
(***************************************************************************)
(* Abstract syntax and denotational semantics of the HCL native expression *)
(* language and template sub-language (hclsyntax/spec.md "Expressions",    *)
(* "Templates"; spec.md for the value layer in HclValues).                 *)
(*                                                                         *)
(* AST nodes are monomorphic records  [k, s, s2, n, sub]:                  *)
(*   num(n)  bool(n)  null  var(s)  anon                                   *)
(*   un(s=op; x)  bin(s=op; l, r)  cond(c, a, b)  paren(x)                 *)
(*   tuple(elems...)  object(k1, v1, k2, v2, ...)  keyid(s)                *)
(*   index(coll, key)  attr(s=name; x)  legacy(n; x)                       *)
(*   splat(s = "attr" | "full"; source, each)   -- each is over `anon`     *)
(*   for(s = "tuple" | "object" | "group", s2 = val var, n = key var idx;  *)
(*       coll, keyExpr | none, valExpr, cond | none)                       *)
(*   call(s = fn, n = 1 iff final argument expanded with "..."; args...)   *)
(*   tpl(s = "q" quoted | "h" heredoc | "hf" flush heredoc; parts...)      *)
(*     parts: tlit(s)  interp(n = strip flags; x)                          *)
(*            tif(n = strips; cond, then-tpl, else-tpl | none)             *)
(*            tfor(s2 = val var, n = key var idx, s = strips; coll, tpl)   *)
(*                                                                         *)
(* Eval(e, env) returns [v, err]: the value (also when erroneous: the      *)
(* placeholder the language yields) and whether evaluation is erroneous.   *)
(* v = Oom means the model makes no statement for this expression.         *)
(***************************************************************************)
EXTENDS HclValues

N(k, s, s2, n, sub) == [k |-> k, s |-> s, s2 |-> s2, n |-> n, sub |-> sub]
NNum(n2)       == N("num", "", "", n2, <<>>)
NBool(b)       == N("bool", "", "", IF b THEN 1 ELSE 0, <<>>)
NNull          == N("null", "", "", 0, <<>>)
NVar(x)        == N("var", x, "", 0, <<>>)
NAnon          == N("anon", "", "", 0, <<>>)
NNone          == N("none", "", "", 0, <<>>)
NUn(op, x)     == N("un", op, "", 0, <<x>>)
NBin(op, l, r) == N("bin", op, "", 0, <<l, r>>)
NCond(c, a, b) == N("cond", "", "", 0, <<c, a, b>>)
NParen(x)      == N("paren", "", "", 0, <<x>>)
NTuple(es)     == N("tuple", "", "", 0, es)
NObject(kvs)   == N("object", "", "", 0, kvs)
NKeyId(name)   == N("keyid", name, "", 0, <<>>)
NIndex(c, k)   == N("index", "", "", 0, <<c, k>>)
NAttr(x, name) == N("attr", name, "", 0, <<x>>)
NLegacy(x, i)  == N("legacy", "", "", i, <<x>>)
NSplat(kind, src, each) == N("splat", kind, "", 0, <<src, each>>)
\* key variable: n = 0 none, otherwise index into KeyVarNames
KeyVarNames == <<"k", "i">>
NFor(kind, kv, vv, coll, keyE, valE, condE) == N("for", kind, vv, kv, <<coll, keyE, valE, condE>>)
NCall(fn, expand, args) == N("call", fn, "", IF expand THEN 1 ELSE 0, args)
NTpl(kind, parts) == N("tpl", kind, "", 0, parts)
NTLit(s)       == N("tlit", s, "", 0, <<>>)
NHLine(indent, parts) == N("hline", "", "", indent, parts)
\* strip flags: bit 0 = "~" right after the opening marker (strips the literal before),
\*              bit 1 = "~" right before the closing marker (strips the literal after)
NInterp(strip, x) == N("interp", "", "", strip, <<x>>)
\* n packs the strip flags of the three markers: if (bits 0-1), else (bits 2-3), endif (bits 4-5)
NTIf(strips, c, thenT, elseT) == N("tif", "", "", strips, <<c, thenT, elseT>>)
\* for (bits 0-1), endfor (bits 2-3)
NTFor(strips, kv, vv, coll, bodyT) == N("tfor", "", vv, kv + 4 * strips, <<coll, bodyT>>)

Bit(n, i) == (n \div (2^i)) % 2 = 1

---------------------------------------------------------------------------
(* Result records *)
R(v, err) == [v |-> v, err |-> err]
ROom      == R(Oom, FALSE)
RErrDyn   == R(DynVal, TRUE)
\* erroneous result whose placeholder type the model does not track
UnkAny    == Unk(OomType)
RErrAny   == R(UnkAny, TRUE)

IsROom(r) == IsOom(r.v)

---------------------------------------------------------------------------
(* Function table (spec.md "Functions and Function Calls"): the harness   *)
(* registers Go implementations with exactly these signatures.            *)
(*   p: parameter type; nul: null allowed; unk: unknown passed through;    *)
(*   dyn: dynamic-typed values passed through                              *)
Param(t, nul, unk, dyn) == [t |-> t, nul |-> nul, unk |-> unk, dyn |-> dyn]
FnNames == {"id", "upper", "add", "cat", "nn", "fail", "len", "try", "can", "ns::id", "a::b::upper"}
\* namespaced function names (spec.md "Function Calls": identifiers separated by "::") are looked up
\* as one name; these two are further names of id and upper
Canon(f) == IF f = "ns::id" THEN "id" ELSE IF f = "a::b::upper" THEN "upper" ELSE f
\* functions whose parameters are expression closures (ext/customdecode): the arguments are not
\* evaluated before the call, the function evaluates them itself (ext/tryfunc/README.md)
LazyFns == {"try", "can"}
FnParams(f) ==
    CASE f = "id"    -> <<Param(TDyn, TRUE, TRUE, TRUE)>>
      [] f = "upper" -> <<Param(TStr, FALSE, FALSE, FALSE)>>
      [] f = "add"   -> <<Param(TNum, FALSE, FALSE, FALSE), Param(TNum, FALSE, FALSE, FALSE)>>
      [] f = "cat"   -> <<>>
      [] f = "nn"    -> <<Param(TStr, TRUE, FALSE, FALSE)>>
      [] f = "fail"  -> <<>>
      [] f = "len"   -> <<Param(TDyn, FALSE, FALSE, FALSE)>>
FnVarParam(f) == IF f = "cat" THEN <<Param(TStr, FALSE, FALSE, FALSE)>> ELSE <<>>
FnRet(f) == CASE f = "id" -> TDyn [] f = "add" -> TNum [] f = "len" -> TNum [] OTHER -> TStr

RECURSIVE CatAll(_, _)
CatAll(args, i) == IF i > Len(args) THEN "" ELSE args[i].s \o CatAll(args, i+1)

\* the function bodies, applied to converted, known, non-null-checked arguments
FnImpl(f, args) ==
    CASE f = "id"    -> R(args[1], FALSE)
      [] f = "upper" -> IF args[1].s \in DOMAIN UpperTab THEN R(Str(UpperTab[args[1].s]), FALSE) ELSE ROom
      [] f = "add"   -> R(Num(args[1].n + args[2].n), FALSE)
      [] f = "cat"   -> R(Str(CatAll(args, 1)), FALSE)
      [] f = "nn"    -> IF args[1].k = "null" THEN R(Str("null"), FALSE) ELSE R(args[1], FALSE)
      [] f = "fail"  -> RErrDyn
      [] f = "len"   -> IF args[1].k \in {"tup", "obj", "list", "set", "map"} THEN R(Num(2 * Len(args[1].e)), FALSE)
                        ELSE RErrDyn

---------------------------------------------------------------------------
(* Arithmetic on half-integers (field n = twice the value) *)
Abs(x) == IF x < 0 THEN -x ELSE x
TruncDiv(a, b) == IF (a < 0) = (b < 0) THEN Abs(a) \div Abs(b) ELSE -(Abs(a) \div Abs(b))

Arith(op, a, b) ==      \* a, b are n-fields; returns Num, Oom, or Null(TDyn) meaning "operation failed"
    CASE op = "+" -> Num(a + b)
      [] op = "-" -> Num(a - b)
      \* a zero obtained from negative operands is a negative zero in the dependency's
      \* floating representation (prints as "-0"): outside this model
      [] op = "*" -> IF a * b = 0 /\ (a < 0 \/ b < 0) THEN Oom
                     ELSE IF (a * b) % 2 = 0 THEN Num((a * b) \div 2) ELSE Oom
      \* x / 0 is an infinity in the dependency's number space (not representable here),
      \* 0 / 0 fails; the remainder by zero is likewise left to the dependency layer
      [] op = "/" -> IF b = 0 THEN (IF a = 0 THEN Null(TDyn) ELSE Oom)
                     ELSE IF a = 0 /\ b < 0 THEN Oom
                     ELSE IF Abs(2 * a) % Abs(b) = 0 THEN Num(TruncDiv(2 * a, b)) ELSE Oom
      [] op = "%" -> IF b = 0 THEN Oom
                     ELSE IF a < 0 /\ a - b * TruncDiv(a, b) = 0 THEN Oom
                     ELSE Num(a - b * TruncDiv(a, b))

Compare(op, a, b) ==
    CASE op = "<" -> Bool(a < b) [] op = "<=" -> Bool(a <= b)
      [] op = ">" -> Bool(a > b) [] op = ">=" -> Bool(a >= b)

ArithOps == {"+", "-", "*", "/", "%"}
CmpOps   == {"<", "<=", ">", ">="}
EqOps    == {"==", "!="}
LogicOps == {"&&", "||"}

---------------------------------------------------------------------------
(* Index and attribute access (hclsyntax/spec.md "Index Operator",         *)
(* "Attribute Access Operator"); [v, err]                                  *)
IndexVal(c, key) ==
    IF IsOom(c) \/ IsOom(key) THEN ROom
    ELSE IF c.k = "null" THEN RErrDyn
    ELSE IF key.k = "null" THEN RErrDyn
    ELSE IF TypeOf(c) = TDyn \/ TypeOf(key) = TDyn THEN R(DynVal, FALSE)
    ELSE IF TypeOf(c) = OomType \/ TypeOf(key) = OomType THEN ROom
    ELSE IF TypeOf(c).k \in {"list", "tup"} THEN
        LET kc == Convert(key, TNum) IN
        IF ~kc.ok THEN RErrDyn
        ELSE IF IsOom(kc.v) THEN ROom
        ELSE IF kc.v.k = "unk" \/ c.k = "unk" THEN
             (IF TypeOf(c).k = "tup" THEN R(DynVal, FALSE) ELSE R(Unk(TypeOf(c).e[1]), FALSE))
        ELSE IF kc.v.n % 2 # 0 \/ kc.v.n < 0 \/ kc.v.n \div 2 >= Len(c.e) THEN RErrDyn
        ELSE R(c.e[(kc.v.n \div 2) + 1], FALSE)
    ELSE IF TypeOf(c).k = "map" THEN
        LET kc == Convert(key, TStr) IN
        IF ~kc.ok THEN RErrDyn
        ELSE IF IsOom(kc.v) THEN ROom
        ELSE IF kc.v.k = "unk" \/ c.k = "unk" THEN R(Unk(TypeOf(c).e[1]), FALSE)
        ELSE IF KeyIdx(c.ks, kc.v.s) = 0 THEN RErrDyn
        ELSE R(c.e[KeyIdx(c.ks, kc.v.s)], FALSE)
    ELSE IF TypeOf(c).k = "obj" THEN
        LET kc == Convert(key, TStr) IN
        IF ~kc.ok THEN RErrDyn
        ELSE IF IsOom(kc.v) THEN ROom
        ELSE IF kc.v.k = "unk" THEN R(DynVal, FALSE)
        ELSE IF KeyIdx(TypeOf(c).a, kc.v.s) = 0 THEN RErrDyn
        ELSE IF c.k = "unk" THEN R(Unk(TypeOf(c).e[KeyIdx(TypeOf(c).a, kc.v.s)]), FALSE)
        ELSE R(c.e[KeyIdx(c.ks, kc.v.s)], FALSE)
    ELSE RErrDyn      \* sets and primitives have no indices

AttrVal(c, name) ==
    IF IsOom(c) THEN ROom
    ELSE IF c.k = "null" THEN RErrDyn
    ELSE IF TypeOf(c) = OomType THEN ROom
    ELSE IF TypeOf(c).k = "obj" THEN
        (IF KeyIdx(TypeOf(c).a, name) = 0 THEN RErrDyn
         ELSE IF c.k = "unk" THEN R(Unk(TypeOf(c).e[KeyIdx(TypeOf(c).a, name)]), FALSE)
         ELSE R(c.e[KeyIdx(c.ks, name)], FALSE))
    ELSE IF TypeOf(c).k = "map" THEN
        (IF c.k = "unk" THEN R(Unk(TypeOf(c).e[1]), FALSE)
         ELSE IF KeyIdx(c.ks, name) = 0 THEN RErrDyn
         ELSE R(c.e[KeyIdx(c.ks, name)], FALSE))
    ELSE IF TypeOf(c) = TDyn THEN R(DynVal, FALSE)
    ELSE RErrDyn

---------------------------------------------------------------------------
(* Iteration order of collections (spec.md: lists/tuples by index, maps    *)
(* and objects by key in lexical order, sets in their element order); the  *)
(* key given to the iterator is index / key string / the element itself.   *)
IterKeys(c) ==
    CASE c.k \in {"tup", "list"} -> [i \in 1..Len(c.e) |-> Num(2 * (i - 1))]
      [] c.k \in {"obj", "map"}  -> [i \in 1..Len(c.e) |-> Str(c.ks[i])]
      [] c.k = "set"             -> c.e
      [] OTHER -> <<>>

---------------------------------------------------------------------------
(* Template literal tables: whitespace trimming for strip markers.         *)
TrimRTab == [s \in {"", "a", " a ", "a ", " a", " ", "  ", "   ", "b", "x", "\n", "a\n", " \n "} |->
    CASE s = " a " -> " a" [] s = "a " -> "a" [] s = " " -> "" [] s = "  " -> "" [] s = "   " -> "" [] s = "\n" -> "" [] s = "a\n" -> "a"
      [] s = " \n " -> "" [] OTHER -> s]
TrimLTab == [s \in {"", "a", " a ", "a ", " a", " ", "  ", "   ", "b", "x", "\n", "a\n", " \n "} |->
    CASE s = " a " -> "a " [] s = " a" -> "a" [] s = " " -> "" [] s = "  " -> "" [] s = "   " -> "" [] s = "\n" -> "" [] s = " \n " -> ""
      [] OTHER -> s]

---------------------------------------------------------------------------
RECURSIVE Eval(_, _), EvalSeq(_, _, _), ForFold(_, _, _, _, _, _), SplatFold(_, _, _, _, _),
          TplFold(_, _, _, _), ObjFold(_, _, _, _), CallArgs(_, _, _, _)

\* evaluate sub-expressions i..Len(es) into [vs, err, oom]
EvalSeq(es, env, i) ==
    IF i > Len(es) THEN [vs |-> <<>>, err |-> FALSE, oom |-> FALSE]
    ELSE LET h == Eval(es[i], env)
             t == EvalSeq(es, env, i + 1)
         IN [vs |-> <<h.v>> \o t.vs, err |-> h.err \/ t.err, oom |-> IsROom(h) \/ t.oom]

Bind(env, name, v) == [x \in (DOMAIN env) \cup {name} |-> IF x = name THEN v ELSE env[x]]
BindKV(env, kvIdx, vv, k, v) ==
    LET e1 == IF kvIdx = 0 THEN env ELSE Bind(env, KeyVarNames[kvIdx], k) IN Bind(e1, vv, v)

\* --- unary ---
EvalUn(e, env) ==
    LET x == Eval(e.sub[1], env)
        tt == IF e.s = "-" THEN TNum ELSE TBool
    IN IF IsROom(x) THEN ROom
       ELSE IF TypeOf(x.v) = OomType THEN (IF x.err THEN R(Unk(tt), TRUE) ELSE ROom)
       ELSE LET c == Convert(x.v, tt) IN
            IF x.err \/ ~c.ok THEN R(Unk(tt), TRUE)
            ELSE IF IsOom(c.v) THEN ROom
            ELSE IF c.v.k = "null" THEN R(Unk(tt), TRUE)
            ELSE IF c.v.k = "unk" THEN R(Unk(tt), FALSE)
            ELSE IF e.s = "-" THEN (IF c.v.n = 0 THEN ROom ELSE R(Num(-c.v.n), FALSE))   \* -0: see Arith
            ELSE R(Bool(c.v.n = 0), FALSE)

\* --- binary ---
EvalBin(e, env) ==
    LET l == Eval(e.sub[1], env)
        r == Eval(e.sub[2], env)
        op == e.s
        pt == IF op \in ArithOps \cup CmpOps THEN TNum ELSE IF op \in LogicOps THEN TBool ELSE TDyn
        rt == IF op \in ArithOps THEN TNum ELSE TBool
    IN IF IsROom(l) \/ IsROom(r) THEN ROom
       ELSE IF TypeOf(l.v) = OomType \/ TypeOf(r.v) = OomType THEN
            (IF op \in LogicOps THEN ROom ELSE R(Unk(rt), TRUE))   \* an untracked placeholder only arises with an error
       ELSE LET lc == Convert(l.v, pt)
                rc == Convert(r.v, pt)
            IN IF ~lc.ok \/ ~rc.ok THEN R(Unk(rt), TRUE)
               ELSE IF IsOom(lc.v) \/ IsOom(rc.v) THEN ROom
               ELSE LET a == lc.v
                        b == rc.v
                        isT(x) == x.k = "bool" /\ x.n = 1
                        isF(x) == x.k = "bool" /\ x.n = 0
                    IN
                    \* short-circuit table of the logical operators: a known controlling
                    \* operand decides, and only its own diagnostics are kept
                    \* (DEV_ShortCircuitDropsOtherSideDiags)
                    IF op = "&&" /\ a.k = "unk" /\ b.k = "unk" /\ ~l.err THEN R(Unk(TBool), FALSE)
                    ELSE IF op = "&&" /\ isF(a) THEN R(False, l.err)
                    ELSE IF op = "&&" /\ isF(b) THEN R(False, r.err)
                    ELSE IF op = "&&" /\ a.k = "unk" /\ isT(b) THEN R(Unk(TBool), l.err)
                    ELSE IF op = "&&" /\ b.k = "unk" /\ isT(a) THEN R(Unk(TBool), r.err)
                    ELSE IF op = "||" /\ a.k = "unk" /\ b.k = "unk" /\ ~l.err THEN R(Unk(TBool), FALSE)
                    ELSE IF op = "||" /\ isT(a) THEN R(True, l.err)
                    ELSE IF op = "||" /\ isT(b) THEN R(True, r.err)
                    ELSE IF op = "||" /\ a.k = "unk" /\ isF(b) THEN R(Unk(TBool), l.err)
                    ELSE IF op = "||" /\ b.k = "unk" /\ isF(a) THEN R(Unk(TBool), r.err)
                    ELSE IF l.err \/ r.err THEN R(Unk(rt), TRUE)
                    ELSE IF op \in EqOps THEN
                        (IF (a.k = "unk" \/ b.k = "unk") THEN
                              (IF a.k = "null" \/ b.k = "null" \/ HasDynT(TypeOf(a)) \/ HasDynT(TypeOf(b)) \/ TypeOf(a) = TypeOf(b)
                               THEN R(Unk(TBool), FALSE) ELSE ROom)
                         ELSE LET q == Equals(a, b) IN
                              IF IsOom(q) THEN ROom
                              ELSE IF op = "==" THEN R(q, FALSE) ELSE R(Bool(q.n = 0), FALSE))
                    ELSE IF a.k = "null" \/ b.k = "null" THEN R(Unk(rt), TRUE)     \* operators do not accept null
                    ELSE IF a.k = "unk" \/ b.k = "unk" THEN R(Unk(rt), FALSE)
                    ELSE IF op \in ArithOps THEN
                        (LET q == Arith(op, a.n, b.n) IN
                         IF IsOom(q) THEN ROom ELSE IF q.k = "null" THEN R(Unk(TNum), TRUE) ELSE R(q, FALSE))
                    ELSE IF op \in CmpOps THEN R(Compare(op, a.n, b.n), FALSE)
                    ELSE IF op = "&&" THEN R(Bool(a.n = 1 /\ b.n = 1), FALSE)
                    ELSE R(Bool(a.n = 1 \/ b.n = 1), FALSE)

\* --- conditional ---
EvalCond(e, env) ==
    LET t == Eval(e.sub[2], env)
        f == Eval(e.sub[3], env)
    IN IF IsROom(t) \/ IsROom(f) THEN ROom
       ELSE IF TypeOf(t.v) = OomType \/ TypeOf(f.v) = OomType THEN ROom
       ELSE
       LET tt == TypeOf(t.v)
           ft == TypeOf(f.v)
           rt == IF t.v = Null(TDyn) THEN ft
                 ELSE IF f.v = Null(TDyn) THEN tt
                 ELSE IF tt = TDyn \/ ft = TDyn THEN TDyn
                 ELSE Unify2(tt, ft)
       IN IF rt = OomType THEN ROom
          ELSE IF rt = NoType THEN RErrDyn        \* inconsistent result types: reported before the predicate is looked at
          ELSE LET c == Eval(e.sub[1], env) IN
               IF IsROom(c) \/ TypeOf(c.v) = OomType THEN ROom
               ELSE IF c.v.k = "null" THEN R(Unk(rt), TRUE)
               ELSE IF c.v.k = "unk" THEN
                    (IF t.v.k = "null" /\ f.v.k = "null" THEN R(Null(rt), c.err) ELSE R(Unk(rt), c.err))
               ELSE LET cb == Convert(c.v, TBool) IN
                    IF ~cb.ok THEN R(Unk(rt), TRUE)
                    ELSE IF IsOom(cb.v) THEN ROom
                    ELSE LET ch == IF cb.v.n = 1 THEN t ELSE f
                             \* conversion of the chosen arm to the unified type
                             cv == IF rt = TDyn \/ TypeOf(ch.v) = rt THEN Ok(ch.v)
                                   ELSE IF ch.v.k = "null" /\ ch.v.ty = TDyn THEN Ok(Null(rt))
                                   ELSE IF ch.v.k = "unk" /\ ch.v.ty = TDyn THEN Ok(Unk(rt))
                                   ELSE Convert(ch.v, rt)
                         IN IF IsOom(cv.v) THEN ROom
                            ELSE IF ~cv.ok THEN R(Unk(rt), TRUE)
                            ELSE R(cv.v, c.err \/ ch.err)

\* --- object constructor: fold over (key, value) pairs from index i (step 2) ---
\* acc = [pk, pv, err, known, oom]
ObjFold(kvs, env, i, acc) ==
    IF i > Len(kvs) THEN acc
    ELSE LET ke == kvs[i]
             kr == IF ke.k = "keyid" THEN R(Str(ke.s), FALSE) ELSE Eval(ke, env)
             vr == Eval(kvs[i+1], env)
             err1 == acc.err \/ kr.err \/ vr.err
         IN IF IsROom(kr) \/ IsROom(vr) \/ TypeOf(kr.v) = OomType THEN [acc EXCEPT !.oom = TRUE]
            ELSE IF kr.err THEN ObjFold(kvs, env, i + 2, [acc EXCEPT !.err = TRUE, !.known = FALSE])
            ELSE IF kr.v.k = "null" THEN ObjFold(kvs, env, i + 2, [acc EXCEPT !.err = TRUE, !.known = FALSE])
            ELSE LET kc == Convert(kr.v, TStr) IN
                 IF ~kc.ok THEN ObjFold(kvs, env, i + 2, [acc EXCEPT !.err = TRUE, !.known = FALSE])
                 ELSE IF IsOom(kc.v) THEN [acc EXCEPT !.oom = TRUE]
                 ELSE IF kc.v.k = "unk" THEN ObjFold(kvs, env, i + 2, [acc EXCEPT !.err = err1, !.known = FALSE])
                 ELSE ObjFold(kvs, env, i + 2,
                        [acc EXCEPT !.err = err1, !.pk = Append(@, kc.v.s), !.pv = Append(@, vr.v)])

EvalObject(e, env) ==
    LET a == ObjFold(e.sub, env, 1, [pk |-> <<>>, pv |-> <<>>, err |-> FALSE, known |-> TRUE, oom |-> FALSE])
    IN IF a.oom THEN ROom
       ELSE IF ~a.known THEN R(DynVal, a.err)
       ELSE R(MkObj(a.pk, a.pv), a.err)

\* --- for expressions ---
\* acc = [ks, vs, err, known, oom]
ForFold(e, env, keys, elems, i, acc) ==
    IF i > Len(elems) \/ acc.oom THEN acc
    ELSE
    LET env2 == BindKV(env, e.n % 4, e.s2, keys[i], elems[i])
        hasCond == e.sub[4].k # "none"
        inc == IF hasCond THEN Eval(e.sub[4], env2) ELSE R(True, FALSE)
        skipErr == ForFold(e, env, keys, elems, i + 1, [acc EXCEPT !.err = TRUE, !.known = FALSE])
        skipUnk == ForFold(e, env, keys, elems, i + 1, [acc EXCEPT !.err = acc.err \/ inc.err, !.known = FALSE])
    IN IF IsROom(inc) \/ TypeOf(inc.v) = OomType THEN [acc EXCEPT !.oom = TRUE]
       ELSE IF inc.v.k = "null" THEN skipErr
       ELSE IF inc.v.k = "unk" /\ inc.v.ty.k \notin {"dyn", "bool", "str"} THEN [acc EXCEPT !.oom = TRUE]
       ELSE IF inc.v.k = "unk" THEN skipUnk
       ELSE LET ic == Convert(inc.v, TBool) IN
            IF ~ic.ok THEN skipErr
            ELSE IF IsOom(ic.v) THEN [acc EXCEPT !.oom = TRUE]
            ELSE IF ic.v.n = 0 THEN ForFold(e, env, keys, elems, i + 1, [acc EXCEPT !.err = acc.err \/ inc.err])
            ELSE
            IF e.s = "tuple" THEN
                LET vr == Eval(e.sub[3], env2) IN
                IF IsROom(vr) THEN [acc EXCEPT !.oom = TRUE]
                ELSE ForFold(e, env, keys, elems, i + 1,
                        [acc EXCEPT !.err = acc.err \/ inc.err \/ vr.err, !.vs = Append(@, vr.v)])
            ELSE
                LET kr == Eval(e.sub[2], env2) IN
                IF IsROom(kr) \/ TypeOf(kr.v) = OomType THEN [acc EXCEPT !.oom = TRUE]
                ELSE IF kr.v.k = "null" THEN skipErr
                ELSE IF kr.v.k = "unk" THEN
                     ForFold(e, env, keys, elems, i + 1, [acc EXCEPT !.err = acc.err \/ inc.err \/ kr.err, !.known = FALSE])
                ELSE LET kc == Convert(kr.v, TStr) IN
                     IF ~kc.ok THEN skipErr
                     ELSE IF IsOom(kc.v) THEN [acc EXCEPT !.oom = TRUE]
                     ELSE LET vr == Eval(e.sub[3], env2)
                              err2 == acc.err \/ inc.err \/ kr.err \/ vr.err
                          IN IF IsROom(vr) THEN [acc EXCEPT !.oom = TRUE]
                             ELSE IF e.s = "object" /\ KeyIdx(acc.ks, kc.v.s) # 0
                                  THEN ForFold(e, env, keys, elems, i + 1, [acc EXCEPT !.err = TRUE])   \* duplicate key
                             ELSE ForFold(e, env, keys, elems, i + 1,
                                    [acc EXCEPT !.err = err2, !.ks = Append(@, kc.v.s), !.vs = Append(@, vr.v)])

\* group values by key, keys in order of first appearance; returns parallel (keys, tuples)
RECURSIVE GroupBy(_, _, _, _, _)
GroupBy(ks, vs, i, gk, gv) ==
    IF i > Len(ks) THEN [ks |-> gk, vs |-> gv]
    ELSE LET j == KeyIdx(gk, ks[i]) IN
         IF j = 0 THEN GroupBy(ks, vs, i + 1, Append(gk, ks[i]), Append(gv, Tup(<<vs[i]>>)))
         ELSE GroupBy(ks, vs, i + 1, gk, [gv EXCEPT ![j] = Tup(Append(@.e, vs[i]))])

EvalFor(e, env) ==
    LET coll == Eval(e.sub[1], env) IN
    IF IsROom(coll) \/ TypeOf(coll.v) = OomType THEN ROom
    ELSE IF coll.v.k = "null" THEN RErrDyn
    ELSE IF TypeOf(coll.v) = TDyn THEN R(DynVal, coll.err)
    ELSE IF TypeOf(coll.v).k \notin {"tup", "obj", "list", "set", "map"} THEN RErrDyn
    ELSE
    LET hasCond == e.sub[4].k # "none"
        \* the predicate is first checked with the iteration variables unknown
        pre == IF hasCond THEN Eval(e.sub[4], BindKV(env, e.n % 4, e.s2, DynVal, DynVal)) ELSE R(True, FALSE)
    IN IF IsROom(pre) \/ TypeOf(pre.v) = OomType THEN ROom
       ELSE IF pre.v.k = "null" THEN RErrDyn
       ELSE IF ~Convert(pre.v, TBool).ok THEN RErrDyn
       ELSE IF IsOom(Convert(pre.v, TBool).v) THEN ROom
       ELSE IF pre.err THEN RErrDyn
       ELSE IF coll.v.k = "unk" THEN R(DynVal, coll.err)
       ELSE
       LET a == ForFold(e, env, IterKeys(coll.v), coll.v.e, 1,
                        [ks |-> <<>>, vs |-> <<>>, err |-> coll.err, known |-> TRUE, oom |-> FALSE])
       IN IF a.oom THEN ROom
          ELSE IF ~a.known THEN R(DynVal, a.err)
          ELSE IF e.s = "tuple" THEN R(Tup(a.vs), a.err)
          ELSE IF e.s = "object" THEN R(MkObj(a.ks, a.vs), a.err)
          ELSE LET g == GroupBy(a.ks, a.vs, 1, <<>>, <<>>) IN R(MkObj(g.ks, g.vs), a.err)

\* --- splat ---
\* acc = [vs, err, known, oom]
SplatFold(each, env, elems, i, acc) ==
    IF i > Len(elems) \/ acc.oom THEN acc
    ELSE LET r == Eval(each, Bind(env, "#anon", elems[i])) IN
         IF IsROom(r) THEN [acc EXCEPT !.oom = TRUE]
         ELSE SplatFold(each, env, elems, i + 1,
                [acc EXCEPT !.vs = Append(@, r.v), !.err = @ \/ r.err, !.known = @ /\ ~r.err])

EvalSplat(e, env) ==
    LET src == Eval(e.sub[1], env) IN
    IF IsROom(src) THEN ROom
    ELSE IF src.err THEN RErrDyn
    ELSE IF TypeOf(src.v) = OomType THEN ROom
    ELSE
    LET st == TypeOf(src.v)
        autoUp == st.k \notin {"tup", "list", "set"}
    IN IF src.v.k = "null" THEN (IF autoUp THEN R(Tup(<<>>), FALSE) ELSE RErrDyn)
       ELSE IF st = TDyn THEN R(DynVal, FALSE)
       ELSE IF src.v.k = "unk" THEN ROom                 \* needs the type probe: not modelled
       ELSE
       LET sv == IF autoUp THEN Tup(<<src.v>>) ELSE src.v
           a == SplatFold(e.sub[2], env, sv.e, 1, [vs |-> <<>>, err |-> FALSE, known |-> TRUE, oom |-> FALSE])
       IN IF a.oom THEN ROom
          ELSE IF ~a.known THEN RErrAny
          ELSE IF sv.k = "tup" THEN R(Tup(a.vs), a.err)
          ELSE IF Len(a.vs) = 0 THEN
               \* an empty list or set: the element type of the result is the type the traversal gives
               \* for an (unknown) element of the source's element type; a traversal that is invalid
               \* for that type is an error even though there is no element
               (IF e.sub[2].k = "anon" THEN R(List(sv.ty, <<>>), FALSE)
                ELSE LET p == SplatFold(e.sub[2], env, <<Unk(sv.ty)>>, 1, [vs |-> <<>>, err |-> FALSE, known |-> TRUE, oom |-> FALSE])
                     IN IF p.oom THEN ROom
                        ELSE IF p.err THEN RErrAny
                        ELSE IF TypeOf(p.vs[1]) = OomType THEN ROom
                        ELSE R(List(TypeOf(p.vs[1]), <<>>), FALSE))
          ELSE IF \A j \in 1..Len(a.vs) : TypeOf(a.vs[j]) = TypeOf(a.vs[1])
               THEN R(List(TypeOf(a.vs[1]), a.vs), a.err)
               ELSE RErrDyn

\* --- function calls ---
\* convert arguments i.. to their parameters; acc = [vs, err, oom, unk]
CallArgs(f, args, i, acc) ==
    IF i > Len(args) THEN acc
    ELSE LET ps == FnParams(f)
             p == IF i <= Len(ps) THEN ps[i] ELSE FnVarParam(f)[1]
         IN IF TypeOf(args[i]) = OomType THEN [acc EXCEPT !.oom = TRUE]
            ELSE LET c == Convert(args[i], p.t) IN
            IF ~c.ok THEN CallArgs(f, args, i + 1, [acc EXCEPT !.err = TRUE])
            ELSE IF IsOom(c.v) THEN [acc EXCEPT !.oom = TRUE]
            ELSE IF c.v.k = "null" /\ ~p.nul THEN CallArgs(f, args, i + 1, [acc EXCEPT !.err = TRUE, !.vs = Append(@, c.v)])
            ELSE IF c.v.k = "unk" /\ ~p.unk THEN CallArgs(f, args, i + 1, [acc EXCEPT !.unk = TRUE, !.vs = Append(@, c.v)])
            ELSE CallArgs(f, args, i + 1, [acc EXCEPT !.vs = Append(@, c.v)])

\* try(e1, e2, ...): the value of the first argument expression that evaluates without error; an
\* argument that succeeds but is not wholly known makes the whole result unknown (its final value
\* may still fail); no argument, or none that succeeds, is an error.
RECURSIVE TryFold(_, _, _), WhollyKnownV(_)
WhollyKnownV(v) == v.k # "unk" /\ \A i \in 1..Len(v.e) : WhollyKnownV(v.e[i])
TryFold(args, env, i) ==
    IF i > Len(args) THEN RErrDyn
    ELSE LET r == Eval(args[i], env) IN
         IF IsROom(r) THEN ROom
         ELSE IF r.err THEN TryFold(args, env, i + 1)
         ELSE IF IsOom(r.v) THEN ROom
         ELSE IF ~WhollyKnownV(r.v) THEN R(DynVal, FALSE)
         ELSE R(r.v, FALSE)
\* can(e): whether e evaluates without error (unknown while e's value is not wholly known)
EvalCan(args, env) ==
    IF Len(args) # 1 THEN RErrDyn
    ELSE LET r == Eval(args[1], env) IN
         IF IsROom(r) THEN ROom
         ELSE IF r.err THEN R(Bool(FALSE), FALSE)
         ELSE IF IsOom(r.v) THEN ROom
         ELSE IF ~WhollyKnownV(r.v) THEN R(Unk(TBool), FALSE)
         ELSE R(Bool(TRUE), FALSE)

EvalCall(e, env) ==
    IF e.s \notin FnNames THEN RErrDyn                       \* call to unknown function
    ELSE IF e.s \in LazyFns THEN
        (IF e.n = 1 THEN ROom                               \* expanded closure arguments: no statement
         ELSE IF e.s = "try" THEN TryFold(e.sub, env, 1) ELSE EvalCan(e.sub, env))
    ELSE
    LET nargs == Len(e.sub)
        fixed == IF e.n = 1 THEN SubSeq(e.sub, 1, nargs - 1) ELSE e.sub
        fr == EvalSeq(fixed, env, 1)
        ex == IF e.n = 1 THEN Eval(e.sub[nargs], env) ELSE R(Tup(<<>>), FALSE)
    IN IF IsROom(ex) THEN ROom
       ELSE IF ex.err THEN RErrDyn
       ELSE IF TypeOf(ex.v) = OomType THEN ROom
       ELSE IF TypeOf(ex.v) = TDyn THEN (IF ex.v.k = "null" THEN RErrDyn ELSE R(DynVal, FALSE))
       ELSE IF TypeOf(ex.v).k \notin {"tup", "list", "set"} THEN RErrDyn
       ELSE IF ex.v.k = "null" THEN RErrDyn
       ELSE IF ex.v.k = "unk" THEN R(DynVal, FALSE)
       ELSE
       LET allv == fr.vs \o ex.v.e
           np == Len(FnParams(Canon(e.s)))
           hasVar == FnVarParam(Canon(e.s)) # <<>>
       IN IF Len(allv) < np THEN RErrDyn                     \* not enough arguments (before arguments are evaluated)
          ELSE IF ~hasVar /\ Len(allv) > np THEN RErrDyn     \* too many arguments
          ELSE IF fr.oom THEN ROom
          ELSE
          LET a == CallArgs(Canon(e.s), allv, 1, [vs |-> <<>>, err |-> fr.err, oom |-> FALSE, unk |-> FALSE])
          IN IF a.oom THEN ROom
             ELSE IF a.err THEN RErrDyn
             ELSE IF a.unk THEN R(Unk(FnRet(Canon(e.s))), FALSE)
             ELSE FnImpl(Canon(e.s), a.vs)

\* --- templates ---
\* Strip markers (hclsyntax/spec.md "Template Interpolations"): a "~" trims the
\* whitespace of the ADJACENT LITERAL only.  Effective literal text of part i:
NextStripL(parts, i) ==     \* does the part after i strip leftwards (marker right after its opening)?
    i < Len(parts) /\ parts[i+1].k \in {"interp", "tif", "tfor"} /\
        (CASE parts[i+1].k = "interp" -> Bit(parts[i+1].n, 0)
           [] parts[i+1].k = "tif"    -> Bit(parts[i+1].n, 0)
           [] parts[i+1].k = "tfor"   -> Bit(parts[i+1].n \div 4, 0))
PrevStripR(parts, i) ==     \* does the part before i strip rightwards (marker right before its final closing)?
    i > 1 /\ parts[i-1].k \in {"interp", "tif", "tfor"} /\
        (CASE parts[i-1].k = "interp" -> Bit(parts[i-1].n, 1)
           [] parts[i-1].k = "tif"    -> Bit(parts[i-1].n, 5)
           [] parts[i-1].k = "tfor"   -> Bit(parts[i-1].n \div 4, 3))

\* literal text of part i of `parts`, given whether the enclosing directive strips at the
\* beginning (lead) / end (trail) of this part list
LitText(parts, i, lead, trail) ==
    LET s0 == parts[i].s
        s1 == IF PrevStripR(parts, i) \/ (i = 1 /\ lead) THEN
                  (IF s0 \in DOMAIN TrimLTab THEN TrimLTab[s0] ELSE "#oom") ELSE s0
        s2 == IF s1 = "#oom" THEN s1
              ELSE IF NextStripL(parts, i) \/ (i = Len(parts) /\ trail) THEN
                  (IF s1 \in DOMAIN TrimRTab THEN TrimRTab[s1] ELSE "#oom") ELSE s1
    IN s2

\* evaluate a part list as a template body: acc = [s, err, known, oom]
\* tp = [parts, lead, trail]
TplFold(tp, env, i, acc) ==
    IF i > Len(tp.parts) \/ acc.oom THEN acc
    ELSE
    LET p == tp.parts[i] IN
    IF p.k = "tlit" THEN
        LET s == LitText(tp.parts, i, tp.lead, tp.trail) IN
        IF s = "#oom" THEN [acc EXCEPT !.oom = TRUE]
        ELSE TplFold(tp, env, i + 1, [acc EXCEPT !.s = IF acc.known /\ ~acc.err THEN @ \o s ELSE @])
    ELSE
    LET r == CASE p.k = "interp" -> Eval(p.sub[1], env)
               [] p.k = "tif"    -> Eval(N("cond", "", "", 0,
                                       <<p.sub[1],
                                         N("tplbody", "", "", (IF Bit(p.n, 1) THEN 1 ELSE 0) + (IF Bit(p.n, 2) \/ (p.sub[3].k = "none" /\ Bit(p.n, 4)) THEN 2 ELSE 0), p.sub[2].sub),
                                         IF p.sub[3].k = "none" THEN NTpl("q", <<NTLit("")>>)
                                         ELSE N("tplbody", "", "", (IF Bit(p.n, 3) THEN 1 ELSE 0) + (IF Bit(p.n, 4) THEN 2 ELSE 0), p.sub[3].sub)>>), env)
               [] p.k = "tfor"   -> Eval(N("tjoin", "", p.s2, p.n % 4,
                                       <<p.sub[1], N("tplbody", "", "", (IF Bit(p.n \div 4, 1) THEN 1 ELSE 0) + (IF Bit(p.n \div 4, 2) THEN 2 ELSE 0), p.sub[2].sub)>>), env)
    IN IF IsROom(r) \/ TypeOf(r.v) = OomType THEN [acc EXCEPT !.oom = TRUE]
       ELSE IF r.v.k = "null" THEN TplFold(tp, env, i + 1, [acc EXCEPT !.err = TRUE])
       ELSE IF r.v.k = "unk" THEN TplFold(tp, env, i + 1, [acc EXCEPT !.err = @ \/ r.err, !.known = FALSE])
       ELSE LET c == Convert(r.v, TStr) IN
            IF ~c.ok THEN TplFold(tp, env, i + 1, [acc EXCEPT !.err = TRUE])
            ELSE IF IsOom(c.v) THEN [acc EXCEPT !.oom = TRUE]
            ELSE TplFold(tp, env, i + 1,
                   [acc EXCEPT !.err = @ \/ r.err,
                               !.s = IF acc.known /\ ~(acc.err \/ r.err) THEN @ \o c.v.s ELSE @])

EvalTplBody(parts, lead, trail, env) ==
    LET a == TplFold([parts |-> parts, lead |-> lead, trail |-> trail], env, 1,
                     [s |-> "", err |-> FALSE, known |-> TRUE, oom |-> FALSE])
    IN IF a.oom THEN ROom
       ELSE IF ~a.known THEN R(Unk(TStr), a.err)
       ELSE R(Str(a.s), a.err)

\* %{for}: the body evaluated per element, results converted to string and concatenated
RECURSIVE JoinFold(_, _, _)
JoinFold(vs, i, acc) ==
    IF i > Len(vs) \/ acc.oom \/ acc.unk THEN acc
    ELSE IF TypeOf(vs[i]) = OomType THEN [acc EXCEPT !.oom = TRUE]
    ELSE IF vs[i].k = "null" THEN JoinFold(vs, i + 1, [acc EXCEPT !.err = TRUE])
    ELSE IF TypeOf(vs[i]) = TDyn THEN [acc EXCEPT !.unk = TRUE]
    ELSE LET c == Convert(vs[i], TStr) IN
         IF ~c.ok THEN JoinFold(vs, i + 1, [acc EXCEPT !.err = TRUE])
         ELSE IF IsOom(c.v) THEN [acc EXCEPT !.oom = TRUE]
         ELSE IF c.v.k = "unk" THEN [acc EXCEPT !.unk = TRUE]
         ELSE JoinFold(vs, i + 1, [acc EXCEPT !.s = @ \o c.v.s])

EvalTJoin(e, env) ==
    LET t == EvalFor(N("for", "tuple", e.s2, e.n, <<e.sub[1], NNone, e.sub[2], NNone>>), env) IN
    IF IsROom(t) \/ TypeOf(t.v) = OomType THEN ROom
    ELSE IF TypeOf(t.v) = TDyn THEN R(Unk(TStr), t.err)
    ELSE IF t.v.k = "unk" THEN R(Unk(TStr), t.err)
    ELSE LET a == JoinFold(t.v.e, 1, [s |-> "", err |-> t.err, oom |-> FALSE, unk |-> FALSE]) IN
         IF a.oom THEN ROom
         ELSE IF a.unk THEN R(Unk(TStr), a.err)
         ELSE R(Str(a.s), a.err)

\* --- heredoc templates ---
\* sub = lines; line = N("hline", "", "", indent, parts) with parts literal (no newline) or interp.
\* The template text is, per line, the indentation, the parts and a newline.  For a flush heredoc
\* ("<<-") the smallest indentation of the non-blank lines is removed from every non-blank line;
\* this is computed on the static text, so an interpolated value cannot change it
\* (DEV_FlushLineStartingWithInterpolationCountsZero: a line that starts with an interpolation
\* has indentation 0, as the implementation reads the specification's "line-leading literal").
Spaces(n) == CASE n = 0 -> "" [] n = 1 -> " " [] n = 2 -> "  " [] n = 3 -> "   " [] n = 4 -> "    " [] OTHER -> "#oom"
IsBlankLine(ln) == Len(ln.sub) = 0
MinIndent(lines) ==
    LET nb == {i \in 1..Len(lines) : ~IsBlankLine(lines[i])} IN
    IF nb = {} THEN 0 ELSE CHOOSE m \in {lines[i].n : i \in nb} : \A i \in nb : m <= lines[i].n

RECURSIVE HeredocParts(_, _, _)
HeredocParts(lines, i, cut) ==
    IF i > Len(lines) THEN <<>>
    ELSE LET ln == lines[i]
             ind == IF IsBlankLine(ln) THEN ln.n ELSE ln.n - cut
         IN (IF ind > 0 THEN <<NTLit(Spaces(ind))>> ELSE <<>>) \o ln.sub \o <<NTLit("\n")>> \o HeredocParts(lines, i + 1, cut)

EvalHeredoc(e, env) ==
    LET cut == IF e.s = "hf" THEN MinIndent(e.sub) ELSE 0
        parts == HeredocParts(e.sub, 1, cut)
    IN IF \E i \in 1..Len(parts) : parts[i].k = "tlit" /\ parts[i].s = "#oom" THEN ROom
       ELSE EvalTplBody(parts, FALSE, FALSE, env)

EvalTpl(e, env) ==
    IF e.s \in {"h", "hf"} THEN EvalHeredoc(e, env)
    \* a template that is exactly one interpolation denotes that expression's value unchanged
    ELSE IF Len(e.sub) = 1 /\ e.sub[1].k = "interp" THEN Eval(e.sub[1].sub[1], env)
    ELSE EvalTplBody(e.sub, FALSE, FALSE, env)

\* --- the evaluator ---
Eval(e, env) ==
    CASE e.k = "num"    -> R(Num(e.n), FALSE)
      [] e.k = "bool"   -> R(Bool(e.n = 1), FALSE)
      [] e.k = "null"   -> R(Null(TDyn), FALSE)
      [] e.k = "var"    -> IF e.s \in DOMAIN env THEN R(env[e.s], FALSE) ELSE RErrDyn
      [] e.k = "anon"   -> IF "#anon" \in DOMAIN env THEN R(env["#anon"], FALSE) ELSE R(DynVal, FALSE)
      [] e.k = "paren"  -> Eval(e.sub[1], env)
      [] e.k = "un"     -> EvalUn(e, env)
      [] e.k = "bin"    -> EvalBin(e, env)
      [] e.k = "cond"   -> EvalCond(e, env)
      [] e.k = "tuple"  -> LET r == EvalSeq(e.sub, env, 1) IN IF r.oom THEN ROom ELSE R(Tup(r.vs), r.err)
      [] e.k = "object" -> EvalObject(e, env)
      [] e.k = "index"  -> LET c == Eval(e.sub[1], env)
                               k == Eval(e.sub[2], env)
                               r == IndexVal(c.v, k.v)
                           IN IF IsROom(c) \/ IsROom(k) \/ IsROom(r) THEN ROom ELSE R(r.v, c.err \/ k.err \/ r.err)
      [] e.k = "attr"   -> LET c == Eval(e.sub[1], env)
                               r == AttrVal(c.v, e.s)
                           IN IF IsROom(c) \/ IsROom(r) THEN ROom ELSE R(r.v, c.err \/ r.err)
      [] e.k = "legacy" -> LET c == Eval(e.sub[1], env)
                               r == IndexVal(c.v, Num(e.n))     \* n is the literal index, scaled like every number
                           IN IF IsROom(c) \/ IsROom(r) THEN ROom ELSE R(r.v, c.err \/ r.err)
      [] e.k = "splat"  -> EvalSplat(e, env)
      [] e.k = "for"    -> EvalFor(e, env)
      [] e.k = "call"   -> EvalCall(e, env)
      [] e.k = "tpl"    -> EvalTpl(e, env)
      [] e.k = "tplbody" -> EvalTplBody(e.sub, Bit(e.n, 0), Bit(e.n, 1), env)
      [] e.k = "tjoin"  -> EvalTJoin(e, env)
      [] OTHER          -> ROom

---------------------------------------------------------------------------
(* Free variables (hclsyntax/spec.md: for-expressions bind their iterator  *)
(* names in key, value and condition but not in the collection; object     *)
(* constructor keys that are bare identifiers are not references).         *)
RECURSIVE FreeVars(_)
FreeVars(e) ==
    CASE e.k = "var" -> {e.s}
      [] e.k \in {"for", "tjoin"} ->
            LET bound == {e.s2} \cup (IF e.n % 4 = 0 THEN {} ELSE {KeyVarNames[e.n % 4]})
            IN FreeVars(e.sub[1]) \cup
               (UNION {FreeVars(e.sub[j]) : j \in 2..Len(e.sub)} \ bound)
      [] e.k = "tfor" ->
            LET bound == {e.s2} \cup (IF e.n % 4 = 0 THEN {} ELSE {KeyVarNames[e.n % 4]})
            IN FreeVars(e.sub[1]) \cup (FreeVars(e.sub[2]) \ bound)
      [] OTHER -> UNION {FreeVars(e.sub[j]) : j \in 1..Len(e.sub)}

=============================================================================
