------------------------------- MODULE Peeker -------------------------------
(***************************************************************************)
(* The newline-sensitivity stack of the native-syntax parser and its       *)
(* recovery flag (hclsyntax/peeker.go, parser.go; property C15).           *)
(*                                                                         *)
(* A parse starts with the stack <<TRUE>> (newlines significant) and       *)
(* recovery off.  Every grammar production that changes newline            *)
(* sensitivity pushes on entry and pops on exit; error recovery only ever  *)
(* turns the recovery flag on.  When the parse ends the entry point        *)
(* asserts that the stack is back to its initial single element - on       *)
(* EVERY input, including damaged ones.                                    *)
(***************************************************************************)
EXTENDS Integers, Sequences, TLC

VARIABLES stack, recovery, ended

pvars == <<stack, recovery, ended>>

PInit == stack = <<TRUE>> /\ recovery = FALSE /\ ended = FALSE

Push(b) == /\ ~ended
           /\ stack' = Append(stack, b)
           /\ UNCHANGED <<recovery, ended>>

\* a pop returns the flag pushed by the matching push; the initial element is never popped
Pop(ret) == /\ ~ended
            /\ Len(stack) > 1
            /\ ret = stack[Len(stack)]
            /\ stack' = SubSeq(stack, 1, Len(stack) - 1)
            /\ UNCHANGED <<recovery, ended>>

SetRecovery == /\ ~ended /\ recovery' = TRUE /\ UNCHANGED <<stack, ended>>

\* end of parse: the stack must be exactly the initial one
AssertEmpty(depth) == /\ ~ended
                      /\ depth = Len(stack)
                      /\ stack = <<TRUE>>
                      /\ ended' = TRUE
                      /\ UNCHANGED <<stack, recovery>>

PNext == (\E b \in BOOLEAN : Push(b) \/ Pop(b)) \/ SetRecovery \/ (\E n \in 1..64 : AssertEmpty(n))
PSpec == PInit /\ [][PNext]_pvars

NeverEmpty == Len(stack) >= 1
RecoveryMonotone == [][recovery => recovery']_pvars
=============================================================================
