SPECIFICATION Spec
INVARIANT TravIsFold
CHECK_DEADLOCK FALSE
