------------------------------ MODULE DynBlock ------------------------------
(***************************************************************************)
(* ext/dynblock: expansion of `dynamic` blocks (README.md of the           *)
(* extension; property C18).                                               *)
(*                                                                         *)
(* A body with dynamic blocks denotes the static body obtained by writing  *)
(* out, in place, one block per element of each for_each collection in     *)
(* iteration order, with the iterator object {key, value} bound under the  *)
(* iterator name (default: the block type) together with all enclosing     *)
(* iterators, labels evaluated per element, and content expanded           *)
(* recursively.  WrittenOut computes that static body with every attribute *)
(* expression replaced by the literal of its value.                        *)
(*                                                                         *)
(* Items: [k, name, labels, val, body, iter, each, lab]                    *)
(*   attr   : name, val (HclExpr AST)                                      *)
(*   block  : name = type, labels (strings), body                          *)
(*   dyn    : name = generated block type, iter = iterator name or "",     *)
(*            each = for_each AST, lab = label ASTs, body = content items  *)
(***************************************************************************)
EXTENDS HclDec

DI(k, name, labels, val, body, iter, each, lab) ==
    [k |-> k, name |-> name, labels |-> labels, val |-> val, body |-> body, iter |-> iter, each |-> each, lab |-> lab]
DAttr(name, val)            == DI("attr", name, <<>>, val, <<>>, "", NNone, <<>>)
DBlock(type, labels, body)  == DI("block", type, labels, NNone, body, "", NNone, <<>>)
DDyn(type, iter, each, lab, body) == DI("dyn", type, <<>>, NNone, body, iter, each, lab)

\* literal AST of a primitive value (attribute values in generated bodies are primitives)
LitOf(v) ==
    CASE v.k = "num"  -> IF v.n >= 0 THEN NNum(v.n) ELSE NUn("-", NNum(-v.n))
      [] v.k = "str"  -> NTpl("q", <<NTLit(v.s)>>)
      [] v.k = "bool" -> NBool(v.n = 1)
      [] v.k = "null" -> NNull
      [] OTHER        -> NNone      \* not a primitive: the vector is out of model

IterObj(k, v) == Obj(<<"key", "value">>, <<k, v>>)

RECURSIVE WrittenOut(_, _), OutDyn(_, _, _, _, _), LabelStrs(_, _, _)

\* result: [items, err, oom]; items are HclDec items (IAttr / IBlock)
NoOut == [items |-> <<>>, err |-> FALSE, oom |-> FALSE]
Cat(a, b) == [items |-> a.items \o b.items, err |-> a.err \/ b.err, oom |-> a.oom \/ b.oom]

LabelStrs(labs, env, i) ==      \* [ss, err, oom]
    IF i > Len(labs) THEN [ss |-> <<>>, err |-> FALSE, oom |-> FALSE]
    ELSE LET r == Eval(labs[i], env)
             t == LabelStrs(labs, env, i + 1)
         IN IF IsROom(r) \/ TypeOf(r.v) = OomType THEN [ss |-> <<>>, err |-> FALSE, oom |-> TRUE]
            ELSE LET c == Convert(r.v, TStr) IN
                 IF r.err \/ ~c.ok \/ (c.ok /\ c.v.k \in {"null", "unk"}) THEN [ss |-> <<>>, err |-> TRUE, oom |-> t.oom]
                 ELSE IF IsOom(c.v) THEN [ss |-> <<>>, err |-> FALSE, oom |-> TRUE]
                 ELSE [ss |-> <<c.v.s>> \o t.ss, err |-> t.err, oom |-> t.oom]

\* one generated block per element j.. of the collection
OutDyn(d, env, keys, elems, j) ==
    IF j > Len(elems) THEN NoOut
    ELSE LET itName == IF d.iter = "" THEN d.name ELSE d.iter
             env2 == Bind(env, itName, IterObj(keys[j], elems[j]))
             ls == LabelStrs(d.lab, env2, 1)
             inner == WrittenOut(d.body, env2)
             rest == OutDyn(d, env, keys, elems, j + 1)
         IN IF ls.err THEN [rest EXCEPT !.err = TRUE]           \* a block whose labels are invalid is not generated
            ELSE Cat([items |-> <<IBlock(d.name, ls.ss, inner.items)>>, err |-> inner.err, oom |-> inner.oom \/ ls.oom], rest)

WrittenOut(items, env) ==
    IF items = <<>> THEN NoOut
    ELSE LET it == items[1]
             rest == WrittenOut(Tail(items), env)
         IN CASE it.k = "attr" ->
                    LET r == Eval(it.val, env) IN
                    IF IsROom(r) \/ LitOf(r.v).k = "none" THEN [rest EXCEPT !.oom = TRUE]
                    ELSE Cat([items |-> <<IAttr(it.name, LitOf(r.v))>>, err |-> r.err, oom |-> FALSE], rest)
              [] it.k = "block" ->
                    LET inner == WrittenOut(it.body, env) IN
                    Cat([items |-> <<IBlock(it.name, it.labels, inner.items)>>, err |-> inner.err, oom |-> inner.oom], rest)
              [] it.k = "dyn" ->
                    LET c == Eval(it.each, env) IN
                    IF IsROom(c) \/ TypeOf(c.v) = OomType THEN [rest EXCEPT !.oom = TRUE]
                    ELSE IF c.err \/ c.v.k = "null" THEN [rest EXCEPT !.err = TRUE]
                    ELSE IF c.v.k = "unk" THEN [rest EXCEPT !.oom = TRUE]        \* unknown for_each: see the replayer's type relation
                    ELSE IF c.v.k \notin {"tup", "obj", "list", "set", "map"} THEN [rest EXCEPT !.err = TRUE]
                    ELSE Cat(OutDyn(it, env, IterKeys(c.v), c.v.e, 1), rest)
=============================================================================
