SPECIFICATION Spec
CONSTANTS
  G <- MCG
  Ctx <- Shared
  Kind <- AllFull
  NOuter = 2
  NInner = 1
INVARIANTS ReadOwn
VIEW View
CHECK_DEADLOCK FALSE
