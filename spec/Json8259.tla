------------------------------ MODULE Json8259 ------------------------------
(***************************************************************************)
(* RFC 8259 as a deterministic pushdown recogniser over BYTE CLASSES       *)
(* (property C13).  A JSON text is a sequence of classes; Feed consumes    *)
(* one class.  The replayer maps every class to concrete bytes (several    *)
(* representatives each) and demands that the JSON front end reports an    *)
(* error exactly when the recogniser rejects.                              *)
(*                                                                         *)
(* classes:  LB RB  { }      LK RK  [ ]     COMMA COLON                    *)
(*           DQ  "           BS  \          SP  space      NLWS  tab / LF / CR *)
(*           (both are whitespace between tokens; inside a string only SP  *)
(*            may appear unescaped, NLWS are control characters there)     *)
(*           CH  an ordinary character that is no valid escape letter     *)
(*           ESCL a character that is also a valid escape letter (n t ...) *)
(*           U4  four hex digits prefixed by u (only meaningful after BS;  *)
(*               elsewhere ordinary characters)   U2  "u" + two hex digits *)
(*           N0 digit zero   N1 a digit 1-9   MINUS PLUS DOT EXP (e / E)   *)
(*           LIT one of the words true / false / null                      *)
(*           CTRL a raw control character (< 0x20)                         *)
(*           PRE an ordinary character of the Unicode "prepend" class,     *)
(*               which forms one grapheme cluster with whatever FOLLOWS it *)
(*               (to JSON it is a character like any other; a scanner that *)
(*               counts columns by clusters must not lose the next byte)   *)
(*           BADUTF a byte sequence that is not valid UTF-8                *)
(***************************************************************************)
EXTENDS Integers, Sequences, FiniteSets, TLC

AllClasses == {"LB", "RB", "LK", "RK", "COMMA", "COLON", "DQ", "BS", "SP", "NLWS", "CH", "PRE", "ESCL", "U4", "U2",
               "N0", "N1", "MINUS", "PLUS", "DOT", "EXP", "LIT", "CTRL", "BADUTF"}

WSC == {"SP", "NLWS"}

\* PDA configuration: mode, stack of open containers ("obj" / "arr"), key = is the current string an object key?
Cfg(mode, stack, key) == [mode |-> mode, stack |-> stack, key |-> key]
Start == Cfg("value", <<>>, FALSE)
Dead  == Cfg("dead", <<>>, FALSE)

Top(st) == IF st.stack = <<>> THEN "none" ELSE st.stack[Len(st.stack)]
Pop(st) == SubSeq(st.stack, 1, Len(st.stack) - 1)

\* a complete value has just been read inside the current container
AfterValue(st) == IF st.key THEN Cfg("colon", st.stack, FALSE) ELSE Cfg("after", st.stack, FALSE)

NumModes == {"minus", "zero", "int", "dot", "frac", "e", "esign", "exp"}
NumDone  == {"zero", "int", "frac", "exp"}      \* number modes in which the number may end

\* characters allowed unescaped inside a string
PlainInString == {"LB", "RB", "LK", "RK", "COMMA", "COLON", "SP", "CH", "PRE", "ESCL", "U4", "U2",
                  "N0", "N1", "MINUS", "PLUS", "DOT", "EXP", "LIT"}

RECURSIVE Feed(_, _)
Feed(st, c) ==
    CASE st.mode = "dead" -> Dead
      [] st.mode = "value" ->       \* a value is expected
            (CASE c \in WSC -> st
               [] c = "LB" -> Cfg("key", Append(st.stack, "obj"), FALSE)
               [] c = "LK" -> Cfg("first", Append(st.stack, "arr"), FALSE)
               [] c = "DQ" -> Cfg("str", st.stack, FALSE)
               [] c = "LIT" -> AfterValue(st)
               [] c = "MINUS" -> Cfg("minus", st.stack, FALSE)
               [] c = "N0" -> Cfg("zero", st.stack, FALSE)
               [] c = "N1" -> Cfg("int", st.stack, FALSE)
               [] OTHER -> Dead)
      [] st.mode = "first" ->       \* just after "[": a value or "]"
            IF c = "RK" THEN AfterValue(Cfg("x", Pop(st), FALSE))
            ELSE IF c \in WSC THEN st
            ELSE Feed(Cfg("value", st.stack, FALSE), c)
      [] st.mode = "key" ->         \* just after "{": a key string or "}"
            (CASE c \in WSC -> st
               [] c = "RB" -> AfterValue(Cfg("x", Pop(st), FALSE))
               [] c = "DQ" -> Cfg("str", st.stack, TRUE)
               [] OTHER -> Dead)
      [] st.mode = "key2" ->        \* after "," in an object: a key string
            (CASE c \in WSC -> st
               [] c = "DQ" -> Cfg("str", st.stack, TRUE)
               [] OTHER -> Dead)
      [] st.mode = "colon" ->
            (CASE c \in WSC -> st
               [] c = "COLON" -> Cfg("value", st.stack, FALSE)
               [] OTHER -> Dead)
      [] st.mode = "str" ->
            (CASE c = "DQ" -> AfterValue(st)
               [] c = "BS" -> Cfg("esc", st.stack, st.key)
               [] c \in PlainInString -> st
               [] OTHER -> Dead)            \* raw control characters and invalid UTF-8 are not allowed
      [] st.mode = "esc" ->
            \* the words true / false / null all begin with a valid escape letter (t f n)
            IF c \in {"DQ", "BS", "ESCL", "U4", "LIT"} THEN Cfg("str", st.stack, st.key) ELSE Dead
      [] st.mode = "after" ->       \* after a value: "," / closing bracket / end
            (CASE c \in WSC -> st
               [] c = "COMMA" -> (IF Top(st) = "obj" THEN Cfg("key2", st.stack, FALSE)
                                  ELSE IF Top(st) = "arr" THEN Cfg("value", st.stack, FALSE)
                                  ELSE Dead)
               [] c = "RB" -> IF Top(st) = "obj" THEN AfterValue(Cfg("x", Pop(st), FALSE)) ELSE Dead
               [] c = "RK" -> IF Top(st) = "arr" THEN AfterValue(Cfg("x", Pop(st), FALSE)) ELSE Dead
               [] OTHER -> Dead)
      \* numbers:  [minus] int [frac] [exp]
      [] st.mode = "minus" -> (CASE c = "N0" -> Cfg("zero", st.stack, FALSE) [] c = "N1" -> Cfg("int", st.stack, FALSE) [] OTHER -> Dead)
      [] st.mode = "zero" ->
            (CASE c = "DOT" -> Cfg("dot", st.stack, FALSE)
               [] c = "EXP" -> Cfg("e", st.stack, FALSE)
               [] c \in {"N0", "N1"} -> Dead                                 \* no leading zeros
               [] OTHER -> Feed(AfterValue(st), c))
      [] st.mode = "int" ->
            (CASE c \in {"N0", "N1"} -> st
               [] c = "DOT" -> Cfg("dot", st.stack, FALSE)
               [] c = "EXP" -> Cfg("e", st.stack, FALSE)
               [] OTHER -> Feed(AfterValue(st), c))
      [] st.mode = "dot" -> IF c \in {"N0", "N1"} THEN Cfg("frac", st.stack, FALSE) ELSE Dead
      [] st.mode = "frac" ->
            (CASE c \in {"N0", "N1"} -> st
               [] c = "EXP" -> Cfg("e", st.stack, FALSE)
               [] OTHER -> Feed(AfterValue(st), c))
      [] st.mode = "e" ->
            (CASE c \in {"PLUS", "MINUS"} -> Cfg("esign", st.stack, FALSE)
               [] c \in {"N0", "N1"} -> Cfg("exp", st.stack, FALSE)
               [] OTHER -> Dead)
      [] st.mode = "esign" -> IF c \in {"N0", "N1"} THEN Cfg("exp", st.stack, FALSE) ELSE Dead
      [] st.mode = "exp" ->
            IF c \in {"N0", "N1"} THEN st ELSE Feed(AfterValue(st), c)
      [] OTHER -> Dead

\* a configuration is accepting iff exactly one complete value has been read
Accepting(st) == st.stack = <<>> /\ (st.mode = "after" \/ st.mode \in NumDone) /\ ~st.key

RECURSIVE Run(_, _, _)
Run(st, s, i) == IF i > Len(s) THEN st ELSE Run(Feed(st, s[i]), s, i + 1)
Accepts(s) == Accepting(Run(Start, s, 1))

\* what kind of value is at the root (for entry points that require a container)
RootClass(s) == LET nonws == {i \in 1..Len(s) : s[i] \notin WSC} IN
                IF nonws = {} THEN "none" ELSE s[CHOOSE i \in nonws : \A j \in nonws : i <= j]
=============================================================================
