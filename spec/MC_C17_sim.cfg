SPECIFICATION Spec
CONSTANTS
  G <- MCG
  Ctx <- Distinct
  Kind <- MixedKinds
  NOuter = 2
  NInner = 1
INVARIANTS ReadOwn NoLeak
CHECK_DEADLOCK FALSE
