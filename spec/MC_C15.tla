------------------------------ MODULE MC_C15 ------------------------------
(***************************************************************************)
(* HclDamage: near-valid inputs for the totality property C15.  A vector   *)
(* is a grammar-derived base program (an MC_E1 AST, embedded by the        *)
(* replayer into native and JSON configurations) together with up to MaxK  *)
(* damage operations on its token sequence:                                *)
(*     ins(pos, tok)  del(pos)  rep(pos, tok)  trunc(pos)                  *)
(* with tok from the damage alphabet (brackets, quotes, template           *)
(* introducers, heredoc markers, keywords, operators, invalid bytes).      *)
(***************************************************************************)
EXTENDS MC_E1

CONSTANTS MaxK, BaseMode,   \* BaseMode: "tiny" | "few" | "mid" | "all"; "tiny" also selects the small damage alphabet (for MaxK = 2)
          MaxPos            \* damage positions 0..MaxPos (the replayer takes them modulo the token count)

VARIABLES dmg

\* the base program is MC_E1's variable e; its other variables are unused here
dvars == <<e, d, pred, last, fv, dmg>>

DamageToks == {"(", ")", "[", "]", "{", "}", "DQ", "${", "%{", "~}", "<<EOT NL", "<<-EOT NL", "NL EOT NL",
               "for", "in", "if", "else", "endif", "endfor", "null",
               "+", "-", "*", "/", "%", "!", "==", "=", "=>", "...", "::", "?", ":", ",", ".", "&&",
               "BADUTF", "NUL", "CR", "BACKTICK", "AMP", "BS", "NL", "#", "/*", "1e", "0x1"}


\* text inserted INSIDE the first quoted string literal of the input (kind "instr")
InStringToks == {"\\ud800", "\\udfff", "\\U0000d800", "\\U00110000", "\\u12", "\\x41", "\\", "${", "%{", "$${", "~}", "NL", "DQ", "BADUTF", "NUL", "\\U0001F600"}

Dmg(k, p, t) == [k |-> k, p |-> p, t |-> t]
SmallToks == {"(", "]", "{", "}", "DQ", "${", "%{", "<<EOT NL", "NL", ",", "BADUTF", "for"}
SmallDamages ==
    {Dmg("ins", p, t) : p \in 0..MaxPos, t \in SmallToks}
    \cup {Dmg("rep", p, t) : p \in 0..MaxPos, t \in SmallToks}
    \cup {Dmg("del", p, "") : p \in 0..MaxPos}
    \cup {Dmg("trunc", p, "") : p \in 0..MaxPos}
    \cup {Dmg("instr", 0, t) : t \in {"\\ud800", "${", "NL", "DQ"}}
Damages == IF BaseMode = "tiny" THEN SmallDamages ELSE
    {Dmg("ins", p, t) : p \in 0..MaxPos, t \in DamageToks}
    \cup {Dmg("rep", p, t) : p \in 0..MaxPos, t \in DamageToks}
    \cup {Dmg("del", p, "") : p \in 0..MaxPos}
    \cup {Dmg("trunc", p, "") : p \in 0..MaxPos}
    \cup {Dmg("instr", p, t) : p \in 0..2, t \in InStringToks}

AllWraps(x) == WUn(x) \cup WArith(x) \cup WCmp(x) \cup WEq(x) \cup WLogic(x) \cup WCond(x) \cup WParen(x) \cup WTuple(x)
               \cup WObject(x) \cup WIndex(x) \cup WAttr(x) \cup WLegacy(x) \cup WSplat(x) \cup WFor(x) \cup WCall(x) \cup WTpl(x)

FewLeaves == {NVar("l"), NNum(2), StrLit("a")}
MidLeaves == {NVar("l"), NNum(2), StrLit("a"), NVar("o"), NVar("s"), NNull, NVar("zz"), NVar("m")}
Bases == IF BaseMode = "tiny" THEN Core(NVar("l")) \cup WTpl(NVar("l")) \cup WFor(NVar("l"))
         ELSE IF BaseMode = "mid" THEN UNION {Core(x) \cup WTpl(x) \cup WFor(x) \cup WSplat(x) \cup WCall(x) \cup WIndex(x) \cup WObject(x) : x \in MidLeaves}
         ELSE IF BaseMode = "few" THEN UNION {Core(x) : x \in FewLeaves} \cup UNION {WTpl(x) \cup WFor(x) \cup WSplat(x) : x \in {NVar("l")}}
         ELSE UNION {AllWraps(x) : x \in Leaves}

BaseSeq == SetToSeq(Bases)
DInit == (\E i \in 1..Len(BaseSeq) : i % NParts = Part /\ e = BaseSeq[i]) /\ dmg = <<>> /\ d = 0 /\ pred = ROom /\ last = "base" /\ fv = {}
DNext == /\ Len(dmg) < MaxK
         /\ \E x \in Damages : dmg' = Append(dmg, x)
         /\ UNCHANGED <<e, d, pred, last, fv>>
DSpec == DInit /\ [][DNext]_dvars

\* every damage addresses a position of the bounded token window
DamageInWindow == \A i \in 1..Len(dmg) : dmg[i].p \in 0..MaxPos
=============================================================================
