---------------------------- MODULE Trace_Peeker ----------------------------
(* Validates recorded peeker events (one parse after the other, separated by "reset"). *)
(*   ev: "push" | "pop" | "recovery" | "assert" | "reset"     b: the newline flag (0/1)   n: stack depth *)
EXTENDS Peeker, Json

Trace == ndJsonDeserialize("trace_peeker.ndjson")

VARIABLE l

tvars == <<stack, recovery, ended, l>>

TraceInit == PInit /\ l = 1
Ev == Trace[l]
Is(e) == l <= Len(Trace) /\ Ev.ev = e

TPush == Is("push") /\ Push(Ev.b = 1) /\ l' = l + 1
TPop == Is("pop") /\ Pop(Ev.b = 1) /\ l' = l + 1
TRecovery == Is("recovery") /\ SetRecovery /\ l' = l + 1
TAssert == Is("assert") /\ AssertEmpty(Ev.n) /\ l' = l + 1
\* the next parse starts from scratch; the previous one must have ended properly
TReset == Is("reset") /\ ended /\ stack' = <<TRUE>> /\ recovery' = FALSE /\ ended' = FALSE /\ l' = l + 1

TraceNext == TPush \/ TPop \/ TRecovery \/ TAssert \/ TReset
TraceSpec == TraceInit /\ [][TraceNext]_tvars
TraceAccepted == TLCGet("stats").diameter - 1 = Len(Trace)
=============================================================================
