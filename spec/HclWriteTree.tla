--------------------------- MODULE HclWriteTree ---------------------------
(***************************************************************************)
(* The hclwrite syntax tree as an edit-history machine (property C12).     *)
(*                                                                         *)
(* Abstract state: a heap of items (attributes and blocks) and, for every  *)
(* body, the ordered list of the item ids it contains.  Body 0 is the      *)
(* file's root body; body i (i > 0) is the body of block item i.  A block  *)
(* whose parent is -1 is detached: the client still holds its handle (it   *)
(* was created with NewBlock, or removed with RemoveBlock) and may edit    *)
(* it, edit its body, or attach it with AppendBlock.                       *)
(*                                                                         *)
(* Each action is one call of the public writer API.  `hist` records the   *)
(* calls so that every reachable state is a complete replayable history    *)
(* together with the file the "simple map/list model" predicts.            *)
(***************************************************************************)
EXTENDS Integers, Sequences, FiniteSets, TLC

CONSTANTS
    Names,      \* attribute names
    Types,      \* block type names
    LabelSets,  \* set of label sequences
    Vals,       \* set of [vk, vn]: expression payloads (value / traversal / raw tokens)
    MaxH,       \* history length bound
    MaxDepth,   \* maximal block nesting
    Inits       \* initial file kinds: subset of {"empty", "parsed"}

VARIABLES
    body,    \* [0..MaxId -> Seq(item id)]
    item,    \* [1..MaxId -> item record]
    nextId,  \* next unallocated item id
    hist,    \* sequence of operation records
    init     \* which initial file this behaviour started from

vars == <<body, item, nextId, hist, init>>

NInit == 3                      \* items in the parsed initial file
MaxId == NInit + MaxH

NoItem == [k |-> "none", name |-> "", vk |-> "", vn |-> 0, labels |-> <<>>,
           orig |-> FALSE, parent |-> -1]

Attr(name, v, orig, parent) ==
    [k |-> "attr", name |-> name, vk |-> v.vk, vn |-> v.vn, labels |-> <<>>,
     orig |-> orig, parent |-> parent]

Block(type, labels, orig, parent) ==
    [k |-> "block", name |-> type, vk |-> "", vn |-> 0, labels |-> labels,
     orig |-> orig, parent |-> parent]

Op(op, b, name, name2, v, labels, h) ==
    [op |-> op, b |-> b, name |-> name, name2 |-> name2, vk |-> v.vk, vn |-> v.vn,
     labels |-> labels, h |-> h]

NoVal == [vk |-> "", vn |-> 0]

(***************************************************************************)
(* The parsed initial file (the Go replayer holds the matching source):    *)
(*     # lead a                                                            *)
(*     a = 1 # line a                                                      *)
(*     # lead t                                                            *)
(*     t "x" {                                                             *)
(*       # lead b                                                          *)
(*       b = 2 # line b                                                    *)
(*     }                                                                   *)
(* a = item 1, block t = item 2, b = item 3.  The payloads [vk |-> "src"]  *)
(* denote "whatever the source said".                                      *)
(***************************************************************************)
ParsedItems ==
    [i \in 1..MaxId |->
        CASE i = 1 -> Attr("a", [vk |-> "src", vn |-> 1], TRUE, 0)
          [] i = 2 -> Block("t", <<"x">>, TRUE, 0)
          [] i = 3 -> Attr("b", [vk |-> "src", vn |-> 2], TRUE, 2)
          [] OTHER -> NoItem]
ParsedBodies ==
    [b \in 0..MaxId |-> CASE b = 0 -> <<1, 2>> [] b = 2 -> <<3>> [] OTHER -> <<>>]

\* Two more loaded files with the same abstract content in other layouts:
\*   "oneline":   a = 1 / t "x" { b = 2 }      (the block is written on one line)
\*   "emptyblk":  a = 1 / t "x" {}             (an empty block on one line; no item 3)
EmptyBlkItems == [ParsedItems EXCEPT ![3] = NoItem]
EmptyBlkBodies == [ParsedBodies EXCEPT ![2] = <<>>]
LoadedInits == {"parsed", "oneline", "emptyblk"}
ItemsOf(i) == IF i = "emptyblk" THEN EmptyBlkItems ELSE IF i \in LoadedInits THEN ParsedItems ELSE [j \in 1..MaxId |-> NoItem]
BodiesOf(i) == IF i = "emptyblk" THEN EmptyBlkBodies ELSE IF i \in LoadedInits THEN ParsedBodies ELSE [b \in 0..MaxId |-> <<>>]

Init ==
    /\ init \in Inits
    /\ hist = <<>>
    /\ nextId = NInit + 1
    /\ item = ItemsOf(init) /\ body = BodiesOf(init)

---------------------------------------------------------------------------
(* Helpers *)

IsBlock(i) == i \in 1..MaxId /\ item[i].k = "block"
ValidBody(b) == b = 0 \/ IsBlock(b)

\* index (1-based) in body b of the attribute called name, 0 if absent
AttrIdx(b, name) ==
    LET S == {j \in 1..Len(body[b]) : item[body[b][j]].k = "attr" /\ item[body[b][j]].name = name}
    IN IF S = {} THEN 0 ELSE CHOOSE j \in S : \A j2 \in S : j <= j2

RemoveAt(s, j) == SubSeq(s, 1, j-1) \o SubSeq(s, j+1, Len(s))

IdxOf(s, x) ==
    LET S == {j \in 1..Len(s) : s[j] = x}
    IN IF S = {} THEN 0 ELSE CHOOSE j \in S : TRUE

RECURSIVE Depth(_)
Depth(b) == IF b = 0 THEN 0
            ELSE IF item[b].parent = -1 THEN 1   \* detached: counted as if at top level
            ELSE 1 + Depth(item[b].parent)

RECURSIVE Height(_)
Height(h) ==
    LET kids == {body[h][j] : j \in 1..Len(body[h])}
        bk == {c \in kids : item[c].k = "block"}
    IN IF bk = {} THEN 1
       ELSE 1 + (CHOOSE m \in {Height(c) : c \in bk} : \A c \in bk : Height(c) <= m)

RECURSIVE Within(_, _)
\* body b lies inside block h (or is h's own body)
Within(b, h) == IF b = h THEN TRUE
                ELSE IF b = 0 THEN FALSE
                ELSE IF item[b].parent = -1 THEN FALSE
                ELSE Within(item[b].parent, h)

Record(o) == hist' = Append(hist, o)

---------------------------------------------------------------------------
(* Actions: one per public writer call *)

\* Body.SetAttributeValue / SetAttributeTraversal / SetAttributeRaw, chosen by v.vk
SetAttr(b, name, v) ==
    /\ ValidBody(b)
    /\ Record(Op("SetAttr", b, name, "", v, <<>>, 0))
    /\ LET j == AttrIdx(b, name) IN
       IF j # 0
       THEN /\ item' = [item EXCEPT ![body[b][j]] = [@ EXCEPT !.vk = v.vk, !.vn = v.vn, !.orig = FALSE]]
            /\ UNCHANGED <<body, nextId>>
       ELSE /\ item' = [item EXCEPT ![nextId] = Attr(name, v, FALSE, b)]
            /\ body' = [body EXCEPT ![b] = Append(@, nextId)]
            /\ nextId' = nextId + 1
    /\ UNCHANGED init

\* Body.RemoveAttribute: a no-op for an absent name
RemoveAttr(b, name) ==
    /\ ValidBody(b)
    /\ Record(Op("RemoveAttr", b, name, "", NoVal, <<>>, 0))
    /\ LET j == AttrIdx(b, name) IN
       IF j # 0
       THEN /\ item' = [item EXCEPT ![body[b][j]] = NoItem]
            /\ body' = [body EXCEPT ![b] = RemoveAt(@, j)]
       ELSE UNCHANGED <<item, body>>
    /\ UNCHANGED <<nextId, init>>

\* Body.RenameAttribute: only if `from` exists and `to` does not
RenameAttr(b, from, to) ==
    /\ ValidBody(b)
    /\ Record(Op("RenameAttr", b, from, to, NoVal, <<>>, 0))
    /\ LET j == AttrIdx(b, from) IN
       IF j # 0 /\ AttrIdx(b, to) = 0
       THEN item' = [item EXCEPT ![body[b][j]] = [@ EXCEPT !.name = to, !.orig = FALSE]]
       ELSE UNCHANGED item
    /\ UNCHANGED <<body, nextId, init>>

\* Body.AppendNewBlock
AppendNewBlock(b, t, ls) ==
    /\ ValidBody(b)
    /\ Depth(b) < MaxDepth
    /\ Record(Op("AppendNewBlock", b, t, "", NoVal, ls, nextId))
    /\ item' = [item EXCEPT ![nextId] = Block(t, ls, FALSE, b)]
    /\ body' = [body EXCEPT ![b] = Append(@, nextId)]
    /\ nextId' = nextId + 1
    /\ UNCHANGED init

\* hclwrite.NewBlock: a detached block whose handle the client keeps
NewBlock(t, ls) ==
    /\ Record(Op("NewBlock", 0, t, "", NoVal, ls, nextId))
    /\ item' = [item EXCEPT ![nextId] = Block(t, ls, FALSE, -1)]
    /\ nextId' = nextId + 1
    /\ UNCHANGED <<body, init>>

\* Body.AppendBlock(handle): precondition "not already attached"
AppendBlock(b, h) ==
    /\ ValidBody(b) /\ IsBlock(h)
    /\ item[h].parent = -1
    /\ ~Within(b, h)
    /\ Depth(b) + Height(h) <= MaxDepth
    /\ Record(Op("AppendBlock", b, "", "", NoVal, <<>>, h))
    /\ item' = [item EXCEPT ![h] = [@ EXCEPT !.parent = b]]
    /\ body' = [body EXCEPT ![b] = Append(@, h)]
    /\ UNCHANGED <<nextId, init>>

\* Body.RemoveBlock(handle): a no-op when the block is not in that body
RemoveBlock(b, h) ==
    /\ ValidBody(b) /\ IsBlock(h)
    /\ Record(Op("RemoveBlock", b, "", "", NoVal, <<>>, h))
    /\ IF item[h].parent = b
       THEN /\ item' = [item EXCEPT ![h] = [@ EXCEPT !.parent = -1]]
            /\ body' = [body EXCEPT ![b] = RemoveAt(@, IdxOf(@, h))]
       ELSE UNCHANGED <<item, body>>
    /\ UNCHANGED <<nextId, init>>

\* Block.SetType
SetType(h, t) ==
    /\ IsBlock(h)
    /\ Record(Op("SetType", 0, t, "", NoVal, <<>>, h))
    /\ item' = [item EXCEPT ![h] = [@ EXCEPT !.name = t, !.orig = FALSE]]
    /\ UNCHANGED <<body, nextId, init>>

\* Block.SetLabels
SetLabels(h, ls) ==
    /\ IsBlock(h)
    /\ Record(Op("SetLabels", 0, "", "", NoVal, ls, h))
    /\ item' = [item EXCEPT ![h] = [@ EXCEPT !.labels = ls, !.orig = FALSE]]
    /\ UNCHANGED <<body, nextId, init>>

\* Body.Clear: every item of the body goes; attributes cease to exist, blocks become detached
\* (the client may still hold their handles and append them again)
Clear(b) ==
    /\ ValidBody(b)
    /\ Record(Op("Clear", b, "", "", NoVal, <<>>, 0))
    /\ item' = [i \in 1..MaxId |->
                   IF item[i].parent = b /\ item[i].k = "attr" /\ (\E j \in 1..Len(body[b]) : body[b][j] = i) THEN NoItem
                   ELSE IF item[i].parent = b /\ item[i].k = "block" THEN [item[i] EXCEPT !.parent = -1]
                   ELSE item[i]]
    /\ body' = [body EXCEPT ![b] = <<>>]
    /\ UNCHANGED <<nextId, init>>

\* Body.AppendNewline / Body.AppendUnstructuredTokens(a comment line): layout only, no item changes
Decorate(b, kind) ==
    /\ ValidBody(b)
    /\ Record(Op("Decorate", b, kind, "", NoVal, <<>>, 0))
    /\ UNCHANGED <<item, body, nextId, init>>

Next ==
    /\ Len(hist) < MaxH
    /\ \/ \E b \in 0..MaxId, n \in Names, v \in Vals : SetAttr(b, n, v)
       \/ \E b \in 0..MaxId, n \in Names : RemoveAttr(b, n)
       \/ \E b \in 0..MaxId, n1 \in Names, n2 \in Names : RenameAttr(b, n1, n2)
       \/ \E b \in 0..MaxId, t \in Types, ls \in LabelSets : AppendNewBlock(b, t, ls)
       \/ \E t \in Types, ls \in LabelSets : NewBlock(t, ls)
       \/ \E b \in 0..MaxId, h \in 1..MaxId : AppendBlock(b, h)
       \/ \E b \in 0..MaxId, h \in 1..MaxId : RemoveBlock(b, h)
       \/ \E h \in 1..MaxId, t \in Types : SetType(h, t)
       \/ \E h \in 1..MaxId, ls \in LabelSets : SetLabels(h, ls)
       \/ \E b \in 0..MaxId : Clear(b)
       \/ \E b \in 0..MaxId, kind \in {"newline", "comment"} : Decorate(b, kind)

Spec == Init /\ [][Next]_vars

---------------------------------------------------------------------------
(* Model-level properties (what "a simple map/list model" guarantees) *)

Attached(b) == b = 0 \/ (IsBlock(b) /\ Depth(b) >= 1 /\ Within(b, b))

\* attribute names are unique within every body
UniqueAttrNames ==
    \A b \in 0..MaxId :
        \A j1, j2 \in 1..Len(body[b]) :
            (j1 # j2 /\ item[body[b][j1]].k = "attr" /\ item[body[b][j2]].k = "attr")
                => item[body[b][j1]].name # item[body[b][j2]].name

\* the heap is a forest: every listed item names its body as parent, no item is listed twice
Forest ==
    /\ \A b \in 0..MaxId : \A j \in 1..Len(body[b]) :
          /\ item[body[b][j]].k # "none"
          /\ item[body[b][j]].parent = b
    /\ \A b1, b2 \in 0..MaxId : \A j1 \in 1..Len(body[b1]), j2 \in 1..Len(body[b2]) :
          (body[b1][j1] = body[b2][j2]) => (b1 = b2 /\ j1 = j2)
    /\ \A b \in 1..MaxId : body[b] # <<>> => IsBlock(b)

DepthBound == \A b \in 1..MaxId : (IsBlock(b) /\ item[b].parent # -1) => Depth(b) <= MaxDepth

\* an edit never changes an item it does not name: original items stay original
\* unless the operation just recorded addresses them
Last == hist[Len(hist)]
UntouchedKeepTokens ==
    [][\A i \in 1..NInit :
          (item[i].orig /\ ~item'[i].orig) =>
              LET o == hist'[Len(hist')] IN
                 \/ (o.op \in {"SetType", "SetLabels"} /\ o.h = i)
                 \/ (o.op \in {"SetAttr", "RemoveAttr", "RenameAttr"} /\ o.b = item[i].parent /\ o.name = item[i].name)
                 \/ (o.op = "Clear" /\ o.b = item[i].parent)]_vars

TypeOK ==
    /\ nextId \in (NInit+1)..(MaxId+1)
    /\ Len(hist) <= MaxH
=============================================================================
