SPECIFICATION Spec
CONSTANTS
  AttrNames <- MCAttrNames
  BlockTypes <- MCBlockTypes
  MaxDepth = 2
INVARIANTS WellFormed Balanced Bounded
CHECK_DEADLOCK FALSE
