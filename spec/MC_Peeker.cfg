SPECIFICATION PSpec
INVARIANT NeverEmpty
PROPERTY RecoveryMonotone
CONSTRAINT Bounded
CHECK_DEADLOCK FALSE
