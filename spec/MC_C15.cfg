SPECIFICATION DSpec
INVARIANT DamageInWindow
CONSTANTS
  MaxD = 0
  Level2 = "core"
CHECK_DEADLOCK FALSE
