SPECIFICATION DSpec
INVARIANT DamageInWindow
CONSTANTS
  NeedPred = FALSE
  MaxD = 0
  Level2 = "core"
CHECK_DEADLOCK FALSE
