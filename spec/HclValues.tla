----------------------------- MODULE HclValues -----------------------------
(***************************************************************************)
(* The value and type universe of HCL (spec.md "Values and Value Types",   *)
(* "Type Conversions and Unification") in a form TLC can enumerate.        *)
(*                                                                         *)
(* All values are MONOMORPHIC records (TLC cannot compare values of        *)
(* different TLA+ types): unused fields hold neutral fillers.              *)
(*                                                                         *)
(*   numbers : half-integers, field n holds twice the value (n = 3 is 1.5) *)
(*   strings : TLA+ strings                                                *)
(*   oom     : "out of model" - an absorbing value meaning the spec makes  *)
(*             no statement (result outside the representable universe)   *)
(***************************************************************************)
EXTENDS Integers, Sequences, FiniteSets, TLC

---------------------------------------------------------------------------
(* Types *)
T(k, e, a) == [k |-> k, e |-> e, a |-> a]
TNum  == T("num",  <<>>, <<>>)
TStr  == T("str",  <<>>, <<>>)
TBool == T("bool", <<>>, <<>>)
TDyn  == T("dyn",  <<>>, <<>>)
TList(t) == T("list", <<t>>, <<>>)
TSet(t)  == T("set",  <<t>>, <<>>)
TMap(t)  == T("map",  <<t>>, <<>>)
TTup(ts) == T("tup", ts, <<>>)
TObj(names, ts) == T("obj", ts, names)     \* names sorted, ts aligned

IsPrimT(t) == t.k \in {"num", "str", "bool"}
IsCollT(t) == t.k \in {"list", "set", "map"}

---------------------------------------------------------------------------
(* Values *)
V(k, n, s, e, ks, ty) == [k |-> k, n |-> n, s |-> s, e |-> e, ks |-> ks, ty |-> ty]
Num(n2)   == V("num", n2, "", <<>>, <<>>, TDyn)
Str(s)    == V("str", 0, s, <<>>, <<>>, TDyn)
Bool(b)   == V("bool", IF b THEN 1 ELSE 0, "", <<>>, <<>>, TDyn)
Null(ty)  == V("null", 0, "", <<>>, <<>>, ty)
Unk(ty)   == V("unk", 0, "", <<>>, <<>>, ty)
Tup(es)   == V("tup", 0, "", es, <<>>, TDyn)
Obj(ks, es) == V("obj", 0, "", es, ks, TDyn)           \* ks sorted
List(ty, es) == V("list", 0, "", es, <<>>, ty)         \* ty = element type
SetV(ty, es) == V("set", 0, "", es, <<>>, ty)          \* es in the set's iteration order
Map(ty, ks, es) == V("map", 0, "", es, ks, ty)         \* ks sorted
Oom       == V("oom", 0, "", <<>>, <<>>, TDyn)
DynVal    == Unk(TDyn)
True  == Bool(TRUE)
False == Bool(FALSE)

IsOom(v)  == v.k = "oom"
IsNull(v) == v.k = "null"
IsUnk(v)  == v.k = "unk"
IsTrue(v) == v.k = "bool" /\ v.n = 1

RECURSIVE TypeOf(_)
TypeOf(v) ==
    CASE v.k = "num"  -> TNum
      [] v.k = "str"  -> TStr
      [] v.k = "bool" -> TBool
      [] v.k \in {"null", "unk"} -> v.ty
      [] v.k = "tup"  -> TTup([i \in 1..Len(v.e) |-> TypeOf(v.e[i])])
      [] v.k = "obj"  -> TObj(v.ks, [i \in 1..Len(v.e) |-> TypeOf(v.e[i])])
      [] v.k = "list" -> TList(v.ty)
      [] v.k = "set"  -> TSet(v.ty)
      [] v.k = "map"  -> TMap(v.ty)
      [] OTHER -> TDyn

RECURSIVE AnyOom(_)
AnyOom(v) == v.k = "oom" \/ \E i \in 1..Len(v.e) : AnyOom(v.e[i])

RECURSIVE HasDynT(_)
HasDynT(t) == t.k = "dyn" \/ \E i \in 1..Len(t.e) : HasDynT(t.e[i])

---------------------------------------------------------------------------
(* String tables.  TLC has no character-level string operators, so the   *)
(* facts the language definition needs about individual strings are given *)
(* as explicit tables over the representative strings of the universe;    *)
(* anything outside a table is "oom".                                      *)

\* bytewise lexicographic order of the strings that may be used as keys
KeyOrder == <<"", " ", "-1", "0", "0.5", "1", "1.5", "2", "3", "4", "A", "B", "a", "aa", "ab", "b", "ba", "bb", "c",
              "false", "k", "true", "v", "x", "y", "z">>
Rank(s) == LET S == {i \in 1..Len(KeyOrder) : KeyOrder[i] = s}
           IN IF S = {} THEN 0 ELSE CHOOSE i \in S : TRUE

\* decimal text of a half-integer (spec.md: number -> string, no exponent)
NumStrTab == [n \in -8..16 |->
    CASE n = -8 -> "-4" [] n = -7 -> "-3.5" [] n = -6 -> "-3" [] n = -5 -> "-2.5" [] n = -4 -> "-2"
      [] n = -3 -> "-1.5" [] n = -2 -> "-1" [] n = -1 -> "-0.5" [] n = 0 -> "0" [] n = 1 -> "0.5"
      [] n = 2 -> "1" [] n = 3 -> "1.5" [] n = 4 -> "2" [] n = 5 -> "2.5" [] n = 6 -> "3"
      [] n = 7 -> "3.5" [] n = 8 -> "4" [] n = 9 -> "4.5" [] n = 10 -> "5" [] n = 11 -> "5.5" [] n = 12 -> "6"
      [] n = 13 -> "6.5" [] n = 14 -> "7" [] n = 15 -> "7.5" [] n = 16 -> "8"]
NumInRange(n) == n \in DOMAIN NumStrTab

\* strings known NOT to be numbers / booleans (so that a failed conversion is predicted, not guessed)
NotNumeric == {"", " ", "a", "b", "c", "aa", "ab", "ba", "bb", "A", "B", "x", "y", "z", "k", "v", "true", "false", " a ", "a ", " a"}
StrToNum(s) ==       \* returns a value: Num, or Null(TDyn) for "not a number", or Oom
    IF \E n \in DOMAIN NumStrTab : NumStrTab[n] = s
    THEN Num(CHOOSE n \in DOMAIN NumStrTab : NumStrTab[n] = s)
    ELSE IF s \in NotNumeric THEN Null(TDyn) ELSE Oom
NotBoolean == (NotNumeric \ {"true", "false"}) \cup {"-1", "2", "0.5", "1.5", "3", "4"}
StrToBool(s) ==
    IF s \in {"true", "1"} THEN True
    ELSE IF s \in {"false", "0"} THEN False
    ELSE IF s \in NotBoolean THEN Null(TDyn) ELSE Oom

UpperTab == [s \in {"", "a", "b", "ab", "A", "1", "x"} |->
    CASE s = "a" -> "A" [] s = "b" -> "B" [] s = "ab" -> "AB" [] s = "x" -> "X" [] OTHER -> s]

---------------------------------------------------------------------------
(* Conversion (spec.md "Type Conversions"; always the "unsafe" form used  *)
(* by the evaluator).  Result: [ok |-> BOOLEAN, v |-> value]; v = Oom      *)
(* when the model cannot tell.                                             *)
Ok(v)  == [ok |-> TRUE, v |-> v]
Fail   == [ok |-> FALSE, v |-> DynVal]
OomR   == [ok |-> TRUE, v |-> Oom]

\* conversion of a primitive-or-null-or-unknown value to a primitive type
ConvPrim(v, t) ==
    IF IsOom(v) THEN OomR
    ELSE IF TypeOf(v) = t THEN Ok(v)
    ELSE IF v.k = "null" THEN (IF v.ty = TDyn \/ IsPrimT(v.ty) THEN
                                   (IF v.ty.k \in {"dyn", "str"} \/ t = TStr \/ v.ty = t THEN Ok(Null(t)) ELSE Fail)
                               ELSE Fail)
    ELSE IF v.k = "unk" THEN (IF v.ty = TDyn THEN Ok(Unk(t))
                              ELSE IF IsPrimT(v.ty) /\ (v.ty = TStr \/ t = TStr) THEN Ok(Unk(t))
                              ELSE Fail)
    ELSE IF t = TStr THEN
        (CASE v.k = "num"  -> IF NumInRange(v.n) THEN Ok(Str(NumStrTab[v.n])) ELSE OomR
           [] v.k = "bool" -> Ok(Str(IF v.n = 1 THEN "true" ELSE "false"))
           [] OTHER -> Fail)
    ELSE IF t = TNum THEN
        (CASE v.k = "str" -> LET r == StrToNum(v.s) IN
                               IF IsOom(r) THEN OomR ELSE IF r.k = "null" THEN Fail ELSE Ok(r)
           [] OTHER -> Fail)
    ELSE IF t = TBool THEN
        (CASE v.k = "str" -> LET r == StrToBool(v.s) IN
                               IF IsOom(r) THEN OomR ELSE IF r.k = "null" THEN Fail ELSE Ok(r)
           [] OTHER -> Fail)
    ELSE Fail

\* Convert(v, t) for the target types the evaluator itself asks for:
\* primitive targets, the dynamic pseudo-type (identity) and identical types.
Convert(v, t) ==
    IF IsOom(v) THEN OomR
    ELSE IF t = TDyn THEN Ok(v)
    ELSE IF TypeOf(v) = t THEN Ok(v)
    ELSE IF IsPrimT(t) THEN
        (IF v.k \in {"num", "str", "bool"} THEN ConvPrim(v, t)
         ELSE IF v.k \in {"null", "unk"} THEN
             (IF v.ty = TDyn \/ IsPrimT(v.ty) THEN ConvPrim(v, t) ELSE Fail)
         ELSE Fail)
    ELSE OomR      \* structural targets: see Unify2 / ConvertStruct below

---------------------------------------------------------------------------
(* Unification of two types as used by the conditional operator.          *)
(* Returns a type, or NoType (no unification), or OomType (not modelled). *)
NoType  == T("none", <<>>, <<>>)
OomType == T("oom", <<>>, <<>>)

Unify2(t1, t2) ==
    IF t1 = t2 THEN t1
    ELSE IF IsPrimT(t1) /\ IsPrimT(t2) THEN
        (IF t1 = TStr \/ t2 = TStr THEN TStr ELSE NoType)
    ELSE IF (IsPrimT(t1) /\ t2.k \in {"tup", "obj", "list", "set", "map"})
         \/ (IsPrimT(t2) /\ t1.k \in {"tup", "obj", "list", "set", "map"}) THEN NoType
    ELSE IF (t1.k = "obj" /\ t2.k = "tup") \/ (t1.k = "tup" /\ t2.k = "obj") THEN NoType
    ELSE OomType

---------------------------------------------------------------------------
(* Equality (spec.md: "==" compares type and value; nulls of any type are *)
(* equal to each other).                                                   *)
RECURSIVE DeepHasNullDyn(_)
DeepHasNullDyn(v) == (v.k \in {"null", "unk"} /\ HasDynT(v.ty)) \/ \E i \in 1..Len(v.e) : DeepHasNullDyn(v.e[i])

Equals(a, b) ==
    IF AnyOom(a) \/ AnyOom(b) THEN Oom
    ELSE IF a.k = "unk" \/ b.k = "unk" THEN Oom
    ELSE IF a.k = "null" /\ b.k = "null" THEN True
    ELSE IF a.k = "null" \/ b.k = "null" THEN False
    ELSE IF DeepHasNullDyn(a) \/ DeepHasNullDyn(b) THEN Oom    \* cty answers "unknown" here; not stated by spec.md
    ELSE IF TypeOf(a) # TypeOf(b) THEN False
    ELSE Bool(a = b)

---------------------------------------------------------------------------
(* Building sorted objects / maps from key-value pairs.  Later pairs win.  *)
RECURSIVE InsertKV(_, _, _, _)
\* insert (k, v) into parallel sorted sequences (ks, es); returns [ks, es] or "oom" marker in ks
InsertKV(ks, es, k, v) ==
    IF Rank(k) = 0 \/ (\E i \in 1..Len(ks) : Rank(ks[i]) = 0) THEN [ks |-> <<"#oom">>, es |-> <<>>]
    ELSE IF \E i \in 1..Len(ks) : ks[i] = k
         THEN LET i == CHOOSE i \in 1..Len(ks) : ks[i] = k IN [ks |-> ks, es |-> [es EXCEPT ![i] = v]]
    ELSE LET lt == {i \in 1..Len(ks) : Rank(ks[i]) < Rank(k)}
             p  == Cardinality(lt)
         IN [ks |-> SubSeq(ks, 1, p) \o <<k>> \o SubSeq(ks, p+1, Len(ks)),
             es |-> SubSeq(es, 1, p) \o <<v>> \o SubSeq(es, p+1, Len(es))]

RECURSIVE BuildKV(_, _, _)
\* fold pairs (parallel sequences pk, pv) from index i
BuildKV(pk, pv, i) ==
    IF i = 0 THEN [ks |-> <<>>, es |-> <<>>]
    ELSE LET r == BuildKV(pk, pv, i-1) IN
         IF r.ks = <<"#oom">> THEN r ELSE InsertKV(r.ks, r.es, pk[i], pv[i])

MkObj(pk, pv) == LET r == BuildKV(pk, pv, Len(pk)) IN
                 IF r.ks = <<"#oom">> THEN Oom ELSE Obj(r.ks, r.es)

KeyIdx(ks, k) == LET S == {i \in 1..Len(ks) : ks[i] = k} IN IF S = {} THEN 0 ELSE CHOOSE i \in S : TRUE

=============================================================================
