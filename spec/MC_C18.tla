------------------------------ MODULE MC_C18 ------------------------------
(***************************************************************************)
(* Generator for C18: bodies mixing static and dynamic blocks (templates   *)
(* below) paired with decoding specifications; the state carries the       *)
(* model's written-out static body and its decoded value.                  *)
(***************************************************************************)
EXTENDS DynBlock

CONSTANTS MaxItems, NestMode   \* NestMode: "flat" | "nested"

VARIABLES body, spec, out, pred

vars == <<body, spec, out, pred>>

StrLit(s) == NTpl("q", <<NTLit(s)>>)

ScopeNames == {"l", "ls", "m", "st", "e", "nul", "s", "p", "ll"}
Scope == [x \in ScopeNames |->
    CASE x = "l"   -> List(TNum, <<Num(2), Num(4)>>)
      [] x = "ls"  -> List(TStr, <<Str("a"), Str("b")>>)
      [] x = "m"   -> Map(TStr, <<"a", "b">>, <<Str("x"), Str("y")>>)
      [] x = "st"  -> SetV(TStr, <<Str("a"), Str("b")>>)
      [] x = "e"   -> List(TStr, <<>>)
      [] x = "nul" -> Null(TDyn)
      [] x = "s"   -> Str("a")
      [] x = "p"   -> List(TStr, <<Str("g1"), Str("g2")>>)   \* a global with the name of the default iterator of `dynamic "p"`
      [] x = "ll"  -> List(TList(TNum), <<List(TNum, <<Num(2)>>), List(TNum, <<Num(4), Num(6)>>)>>)]

IV(x, f) == NAttr(NVar(x), f)       \* x.key / x.value

Colls == {NVar("p"), NVar("l"), NVar("ls"), NVar("m"), NVar("st"), NVar("e"), NVar("nul"), NVar("s"),
          NTuple(<<NNum(2), NNum(4)>>), NTuple(<<>>), NObject(<<NKeyId("k"), StrLit("v")>>)}

\* content templates for `dynamic "p"` with iterator name it (the default is the block type)
Content(it) ==
    {<<DAttr("a", IV(it, "value"))>>,
     <<DAttr("a", IV(it, "key"))>>,
     <<DAttr("a", NNum(2)), DAttr("b", NBool(TRUE))>>,
     <<DAttr("a", NTpl("q", <<NInterp(0, IV(it, "key")), NTLit("-"), NInterp(0, IV(it, "value"))>>))>>,
     <<>>}

NestedContent(it) ==
    {<<DAttr("a", IV(it, "key")), DBlock("p", <<>>, <<DAttr("a", IV(it, "value"))>>)>>,
     \* inner dynamic over a fixed collection, referring to the OUTER iterator by its name
     <<DDyn("p", "inner", NTuple(<<NNum(2), NNum(4)>>), <<>>, <<DAttr("a", NTpl("q", <<NInterp(0, IV(it, "key")), NTLit("-"), NInterp(0, IV("inner", "value"))>>))>>)>>}

DynTemplates ==
    {DDyn("p", "", c, <<>>, b) : c \in Colls, b \in Content("p")}
    \cup {DDyn("p", "it", c, <<>>, b) : c \in {NVar("l"), NVar("m"), NVar("st")}, b \in Content("it")}
    \cup {DDyn("q", "", c, <<IV("q", "key")>>, b) : c \in {NVar("m"), NVar("ls"), NVar("l")}, b \in Content("q")}
    \cup {DDyn("q", "", NVar("l"), <<NNull>>, <<>>)}
    \* two labels (one from the iterator, one constant), for the two-label map / object specs
    \cup {DDyn("q", "", c, <<IV("q", "key"), StrLit("w")>>, b) : c \in {NVar("m"), NVar("ls")},
                                                                  b \in {<<DAttr("a", IV("q", "value"))>>, <<>>}}
    \* a CUSTOM iterator whose key is the label
    \cup {DDyn("q", "it", c, <<IV("it", "key")>>, <<DAttr("a", IV("it", "value"))>>) : c \in {NVar("m"), NVar("ls")}}
    \* ... and two constant labels (still well defined when the for_each collection is unknown)
    \cup {DDyn("q", "", c, <<StrLit("x"), StrLit("w")>>, <<DAttr("a", IV("q", "value"))>>) : c \in {NVar("m"), NVar("ls")}}

NestedTemplates ==
    {DDyn("p", "it", c, <<>>, b) : c \in {NVar("l"), NVar("m")}, b \in NestedContent("it")}
    \cup {\* inner for_each over the outer iterator's value; inner default iterator shadows the outer one of the same name
          DDyn("p", "", NVar("ll"), <<>>, <<DAttr("a", IV("p", "key")), DDyn("p", "", IV("p", "value"), <<>>, <<DAttr("a", IV("p", "value"))>>)>>),
          DDyn("p", "o", NVar("ll"), <<>>, <<DDyn("p", "", IV("o", "value"), <<>>, <<DAttr("a", NBin("+", IV("o", "key"), IV("p", "value")))>>)>>),
          \* three levels; levels 1 and 2 share the iterator name x, level 3 refers to x (must be level 2's)
          DDyn("p", "x", NVar("ll"), <<>>,
               <<DDyn("p", "x", IV("x", "value"), <<>>,
                      <<DDyn("p", "y", NTuple(<<NNum(2), NNum(4)>>), <<>>,
                             <<DAttr("a", NTpl("q", <<NInterp(0, IV("x", "key")), NTLit("-"), NInterp(0, IV("x", "value")), NTLit("-"), NInterp(0, IV("y", "value"))>>))>>)>>)>>),
          DDyn("p", "", NVar("ll"), <<>>,
               <<DDyn("p", "", IV("p", "value"), <<>>,
                      <<DAttr("a", IV("p", "key")), DDyn("p", "z", NVar("st"), <<>>, <<DAttr("a", NTpl("q", <<NInterp(0, IV("p", "value")), NInterp(0, IV("z", "key"))>>))>>)>>)>>)}

\* the SAME block type name at two nesting levels with DIFFERENT content: the inner blocks have an
\* argument (b) that the outer ones do not, and the only reference to a variable sits there
TwoLevelTemplates ==
    {DBlock("p", <<>>, <<DAttr("a", NNum(6)), DBlock("p", <<>>, <<DAttr("b", NVar("s"))>>)>>),
     DDyn("p", "it", NVar("l"), <<>>, <<DAttr("a", IV("it", "key")), DBlock("p", <<>>, <<DAttr("b", NVar("s"))>>)>>),
     DDyn("p", "it", NVar("l"), <<>>, <<DDyn("p", "inner", NVar("m"), <<>>, <<DAttr("b", IV("inner", "value"))>>)>>)}

Statics == {DBlock("p", <<>>, <<DAttr("a", NNum(6))>>), DBlock("p", <<>>, <<>>), DBlock("q", <<"z">>, <<DAttr("a", StrLit("s"))>>),
            DAttr("a", NNum(2))}

\* a small pool for longer bodies (NestMode = "mix"): three statics, dynamics over a list, a map, an
\* empty list and null with two contents, a custom iterator, a labelled dynamic and two nested ones
MixPool ==
    {DBlock("p", <<>>, <<DAttr("a", NNum(6))>>), DBlock("q", <<"z">>, <<DAttr("a", StrLit("s"))>>), DAttr("a", NNum(2))}
    \cup {DDyn("p", "", c, <<>>, b) : c \in {NVar("l"), NVar("m"), NVar("e"), NVar("nul")},
                                     b \in {<<DAttr("a", IV("p", "value"))>>, <<DAttr("a", IV("p", "key"))>>}}
    \cup {DDyn("p", "it", NVar("m"), <<>>, <<DAttr("a", IV("it", "key"))>>),
          DDyn("q", "", NVar("m"), <<IV("q", "key")>>, <<DAttr("a", IV("q", "value"))>>),
          DDyn("q", "", NVar("ls"), <<IV("q", "key")>>, <<>>)}
    \cup {DDyn("p", "it", NVar("l"), <<>>, b) : b \in NestedContent("it")}

ItemPool == IF NestMode = "mix" THEN MixPool
            ELSE Statics \cup DynTemplates \cup (IF NestMode = "nested" THEN NestedTemplates \cup TwoLevelTemplates ELSE {})

InnerList == SBlockList("p", 0, 0, SAttr("a", TDyn, FALSE))
Specs == {SBlockList("p", 0, 0, SAttr("a", TStr, FALSE)),
          SBlockTuple("p", 0, 0, SObject(<<"a", "b">>, <<SAttr("a", TDyn, FALSE), SAttr("b", TBool, FALSE)>>)),
          SBlockSet("p", 0, 0, SAttr("a", TStr, FALSE)),
          SBlock("p", FALSE, SAttr("a", TDyn, FALSE)),
          SBlockMap("q", 1, SAttr("a", TStr, FALSE)),
          SBlockObject("q", 1, SAttr("a", TDyn, FALSE)),
          SBlockMap("q", 2, SAttr("a", TStr, FALSE)),
          SBlockObject("q", 2, SAttr("a", TDyn, FALSE)),
          SObject(<<"a", "ps">>, <<SAttr("a", TNum, FALSE), SBlockTuple("p", 0, 0, SObject(<<"a", "inner">>, <<SAttr("a", TDyn, FALSE), SBlockTuple("p", 0, 0, SAttr("a", TDyn, FALSE))>>))>>),
          SBlockTuple("p", 1, 2, SAttr("a", TDyn, TRUE)),
          \* one block type name, two nesting levels, different nested specifications
          SBlockTuple("p", 0, 0, SObject(<<"a", "inner">>, <<SAttr("a", TDyn, FALSE), SBlockTuple("p", 0, 0, SAttr("b", TDyn, FALSE))>>)),
          SBlockTuple("p", 0, 0, SObject(<<"a", "l2">>, <<SAttr("a", TDyn, FALSE),
              SBlockTuple("p", 0, 0, SObject(<<"a", "l3">>, <<SAttr("a", TDyn, FALSE), SBlockTuple("p", 0, 0, SAttr("a", TDyn, FALSE))>>))>>))}

NoPred == R(Oom, FALSE)

Result(b, s) ==
    LET w == WrittenOut(b, Scope) IN
    [out |-> w,
     pred |-> IF w.oom THEN NoPred
              ELSE LET r == Decode(s, w.items, Scope) IN IF IsROom(r) THEN NoPred ELSE R(r.v, r.err \/ w.err)]

Init == /\ body = <<>> /\ spec \in Specs
        /\ out = Result(<<>>, spec).out /\ pred = Result(<<>>, spec).pred

AddItem == /\ Len(body) < MaxItems
           /\ \E it \in ItemPool :
                 /\ (it.k = "attr" => ~\E i \in 1..Len(body) : body[i].k = "attr" /\ body[i].name = it.name)
                 /\ body' = Append(body, it)
                 /\ out' = Result(body', spec).out
                 /\ pred' = Result(body', spec).pred
           /\ UNCHANGED spec

Next == AddItem
Spec == Init /\ [][Next]_vars

\* static blocks are preserved in source order and dynamic blocks expand in place:
\* the written-out body never has fewer items than the source has static items
StaticsPreserved ==
    out.oom \/ Cardinality({i \in 1..Len(body) : body[i].k # "dyn"}) <= Len(out.items)
=============================================================================
