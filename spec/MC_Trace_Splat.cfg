SPECIFICATION TraceSpec
CONSTANTS
  NOuter = 2
  NInner = 1
INVARIANTS ReadOwn
POSTCONDITION TraceAccepted
CHECK_DEADLOCK FALSE
