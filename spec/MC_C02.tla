------------------------------ MODULE MC_C02 ------------------------------
EXTENDS HclStruct
MCAttrNames == {"a", "b"}
\* the block type shares its name with an attribute (separate namespaces)
MCBlockTypes == {"a"}
MCValuesFull == {"1", "\"v\"", "[1, 2]", "{ k = 1 }"}
MCValuesFew == {"1"}
=============================================================================
