SPECIFICATION Spec
INVARIANT Incremental
PROPERTY DeadIsFinal
CHECK_DEADLOCK FALSE
