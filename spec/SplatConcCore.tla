--------------------------- MODULE SplatConcCore ---------------------------
(***************************************************************************)
(* Concurrent evaluation of one shared, parsed splat expression (property  *)
(* C17).  The syntax tree holds per-evaluation state: every anonymous      *)
(* symbol of a splat has a map  values : EvalContext -> Value  protected   *)
(* by a read/write lock.  Each goroutine g evaluates the expression in its *)
(* own context; the methods setValue / Value / clearValue hold the lock    *)
(* for their whole body, so each is one atomic action here, and the        *)
(* actions of different goroutines interleave freely.                      *)
(*                                                                         *)
(* Program of one evaluation of  src[*][*]  (two nested symbols) when the  *)
(* source of goroutine g is non-empty (Kind[g] = "full"):                  *)
(*   for each outer item i:   Set(outer, i); Read(outer)      -- inner src *)
(*        for each inner item j: Set(inner, j); Read(inner)                *)
(*        Clear(inner)                                                     *)
(*   Clear(outer)                                                          *)
(* and when it is an EMPTY list (Kind[g] = "empty") - the evaluator then   *)
(* probes the result type with unknown values in child contexts:           *)
(*   Clear(outer)                       -- the loop ran zero times         *)
(*   Set(outer, probe) in child context p1;  Read(outer) in p1             *)
(*        Set(inner, probe) in child context p2;  Read(inner) in p2;  Clear(inner) in p2 *)
(*   Clear(outer) in p1                                                    *)
(***************************************************************************)
EXTENDS Integers, Sequences, FiniteSets, TLC

CONSTANTS G,        \* set of goroutines (positive integers)
          Ctx,      \* function goroutine -> evaluation context id (positive integer < 100)
          Kind,     \* function goroutine -> "full" | "empty"
          NOuter, NInner

VARIABLES values,   \* [sym -> [ctx -> value or Absent]]
          pc,       \* [g -> program counter record]
          got,      \* [g -> sequence of values read so far]
          sched     \* sequence of <<op, g>>: the interleaving taken (the schedule to replay)

vars == <<values, pc, got, sched>>

Syms == {"outer", "inner"}
P1(g) == 100 + g            \* child context of the type probe
P2(g) == 200 + g            \* its child (probe of the inner splat)
CtxIds == {Ctx[g] : g \in G} \cup {P1(g) : g \in G} \cup {P2(g) : g \in G}
Absent == <<"absent">>
Item(g, sym, i, j) == <<g, sym, i, j>>      \* values are tagged with their goroutine
Probe(g, sym) == <<g, sym, -1, -1>>         \* the unknown value used by the type probe

\* pc: [ph, i, j]
PC(ph, i, j) == [ph |-> ph, i |-> i, j |-> j]
StartPC(g) == IF Kind[g] = "empty" THEN PC("e_clear_o", 0, 0)
              ELSE IF NOuter = 0 THEN PC("clear_o", 0, 0) ELSE PC("set_o", 1, 0)

Init == /\ values = [s \in Syms |-> [c \in CtxIds |-> Absent]]
        /\ pc = [g \in G |-> StartPC(g)]
        /\ got = [g \in G |-> <<>>]
        /\ sched = <<>>

Log(op, g) == sched' = Append(sched, <<op, g>>)

\* generic map operations (the three methods of the anonymous symbol)
DoSet(g, sym, c, v, nextpc) ==
    /\ values' = [values EXCEPT ![sym][c] = v]
    /\ pc' = [pc EXCEPT ![g] = nextpc]
    /\ Log("set", g) /\ UNCHANGED got
DoRead(g, sym, c, nextpc) ==
    /\ got' = [got EXCEPT ![g] = Append(@, values[sym][c])]
    /\ pc' = [pc EXCEPT ![g] = nextpc]
    /\ Log("read", g) /\ UNCHANGED values
DoClear(g, sym, c, nextpc) ==
    /\ values' = [values EXCEPT ![sym][c] = Absent]
    /\ pc' = [pc EXCEPT ![g] = nextpc]
    /\ Log("clear", g) /\ UNCHANGED got

\* --- non-empty source ---
SetOuter(g) == pc[g].ph = "set_o" /\ DoSet(g, "outer", Ctx[g], Item(g, "outer", pc[g].i, 0), PC("read_o", pc[g].i, 0))
ReadOuter(g) == pc[g].ph = "read_o" /\
    DoRead(g, "outer", Ctx[g], IF NInner > 0 THEN PC("set_i", pc[g].i, 1)
                               ELSE IF pc[g].i < NOuter THEN PC("set_o", pc[g].i + 1, 0) ELSE PC("clear_o", pc[g].i, 0))
SetInner(g) == pc[g].ph = "set_i" /\ DoSet(g, "inner", Ctx[g], Item(g, "inner", pc[g].i, pc[g].j), PC("read_i", pc[g].i, pc[g].j))
ReadInner(g) == pc[g].ph = "read_i" /\
    DoRead(g, "inner", Ctx[g], IF pc[g].j < NInner THEN PC("set_i", pc[g].i, pc[g].j + 1) ELSE PC("clear_i", pc[g].i, pc[g].j))
ClearInner(g) == pc[g].ph = "clear_i" /\
    DoClear(g, "inner", Ctx[g], IF pc[g].i < NOuter THEN PC("set_o", pc[g].i + 1, 0) ELSE PC("clear_o", pc[g].i, 0))
ClearOuter(g) == pc[g].ph = "clear_o" /\ DoClear(g, "outer", Ctx[g], PC("done", 0, 0))

\* --- empty source: clear, then the type probe in child contexts ---
EClearOuter(g)  == pc[g].ph = "e_clear_o"  /\ DoClear(g, "outer", Ctx[g], PC("e_set_o", 0, 0))
ESetOuter(g)    == pc[g].ph = "e_set_o"    /\ DoSet(g, "outer", P1(g), Probe(g, "outer"), PC("e_read_o", 0, 0))
EReadOuter(g)   == pc[g].ph = "e_read_o"   /\ DoRead(g, "outer", P1(g), PC("e_set_i", 0, 0))
ESetInner(g)    == pc[g].ph = "e_set_i"    /\ DoSet(g, "inner", P2(g), Probe(g, "inner"), PC("e_read_i", 0, 0))
EReadInner(g)   == pc[g].ph = "e_read_i"   /\ DoRead(g, "inner", P2(g), PC("e_clear_i", 0, 0))
EClearInner(g)  == pc[g].ph = "e_clear_i"  /\ DoClear(g, "inner", P2(g), PC("e_clear_o2", 0, 0))
EClearOuter2(g) == pc[g].ph = "e_clear_o2" /\ DoClear(g, "outer", P1(g), PC("done", 0, 0))

Next == \E g \in G : \/ SetOuter(g) \/ ReadOuter(g) \/ SetInner(g) \/ ReadInner(g) \/ ClearInner(g) \/ ClearOuter(g)
                     \/ EClearOuter(g) \/ ESetOuter(g) \/ EReadOuter(g) \/ ESetInner(g) \/ EReadInner(g)
                     \/ EClearInner(g) \/ EClearOuter2(g)
Spec == Init /\ [][Next]_vars
=============================================================================
