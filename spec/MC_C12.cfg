SPECIFICATION Spec
CONSTANTS
  Names <- MCNames
  Types <- MCTypes
  LabelSets <- MCLabelSets
  Vals <- MCVals
  Inits <- MCInits
  MaxDepth = 2
INVARIANTS UniqueAttrNames Forest DepthBound TypeOK
PROPERTIES UntouchedKeepTokens
CHECK_DEADLOCK FALSE
