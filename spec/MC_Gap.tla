------------------------------- MODULE MC_Gap -------------------------------
(***************************************************************************)
(* HclGap: the "whitespace and comments between every pair of adjacent     *)
(* tokens" quantifier of C09 / C10 / C14 as a layout machine over tokens.  *)
(*                                                                         *)
(* A vector is a grammar-derived base program (an MC_E1 AST rendered       *)
(* canonically as an attribute value inside a block) together with up to   *)
(* MaxK gap edits: the inter-token material at token boundary p (boundary  *)
(* p lies between token p and token p+1 of the rendered configuration) is  *)
(* replaced by one of the gap texts.  The grammar admits a gap at a        *)
(* boundary when the edited text still lexes to the same significant       *)
(* tokens and still parses without errors; the replayer decides that with  *)
(* the real lexer and parser and drops the other vectors (they are outside *)
(* the statements, which quantify over error-free configurations).         *)
(***************************************************************************)
EXTENDS MC_E1

CONSTANTS MaxK, BaseMode, MaxPos

VARIABLES gaps

gvars == <<e, d, pred, last, fv, gaps>>

\* "" removes whatever separates the two tokens
AllGapTexts == {"", " ", "   ", "TAB", "/* c */", "/*c*/", " /* c\nd */ ", "NL", "CRLF", " # c NL", "// c NL", "NL NL"}
\* BaseMode "spaced": the base is rendered with a blank between EVERY pair of tokens and the edits REMOVE
\* blanks (any subset of up to MaxK boundaries): the layouts in which only some neighbours touch
GapTexts == IF BaseMode = "spaced" THEN {""} ELSE AllGapTexts

Gap(p, t) == [p |-> p, t |-> t]
GapEdits == {Gap(p, t) : p \in 0..MaxPos, t \in GapTexts}

AllWraps(x) == WUn(x) \cup WArith(x) \cup WCmp(x) \cup WEq(x) \cup WLogic(x) \cup WCond(x) \cup WParen(x) \cup WTuple(x)
               \cup WObject(x) \cup WIndex(x) \cup WAttr(x) \cup WLegacy(x) \cup WSplat(x) \cup WFor(x) \cup WCall(x) \cup WTpl(x)

FewLeaves == {NVar("l"), NNum(2), StrLit("a")}
MidLeaves == {NVar("l"), NNum(2), StrLit("a"), NVar("o"), NNull, NVar("m")}
SpacedBases == {NLegacy(NLegacy(NVar("t"), 0), 2), NLegacy(NAttr(NLegacy(NVar("lo"), 0), "a"), 0), NAttr(NNum(2), "a"), NLegacy(NNum(2), 0),
                NBin("-", NNum(2), NUn("-", NNum(2))), NBin("-", NVar("n1"), NUn("-", NVar("n1"))), NUn("-", NUn("-", NNum(2))), NUn("!", NUn("!", NVar("b"))),
                NIndex(NLegacy(NVar("t"), 0), NNum(0)), NSplat("attr", NVar("lo"), NLegacy(NAttr(NAnon, "a"), 0)),
                NCall("ns::id", FALSE, <<NUn("-", NNum(2))>>), NCond(NVar("b"), NUn("-", NNum(2)), NLegacy(NVar("t"), 0))}
Bases == IF BaseMode = "spaced" THEN SpacedBases
         ELSE IF BaseMode = "few" THEN UNION {AllWraps(x) : x \in {NVar("l")}} \cup UNION {WUn(x) \cup WArith(x) \cup WTpl(x) : x \in {NNum(2), StrLit("a")}}
         ELSE IF BaseMode = "mid" THEN UNION {AllWraps(x) : x \in MidLeaves}
         ELSE UNION {AllWraps(x) : x \in Leaves}

BaseSeq == SetToSeq(Bases)
GInit == (\E i \in 1..Len(BaseSeq) : i % NParts = Part /\ e = BaseSeq[i]) /\ gaps = <<>> /\ d = 0 /\ pred = ROom /\ last = "base" /\ fv = {}
\* edits are applied left to right at strictly increasing boundaries (a set of edits, not a history)
GNext == /\ Len(gaps) < MaxK
         /\ \E x \in GapEdits : /\ (gaps # <<>> => x.p > gaps[Len(gaps)].p)
                                /\ gaps' = Append(gaps, x)
         /\ UNCHANGED <<e, d, pred, last, fv>>
GSpec == GInit /\ [][GNext]_gvars

GapInWindow == \A i \in 1..Len(gaps) : gaps[i].p \in 0..MaxPos
Increasing == \A i \in 1..(Len(gaps) - 1) : gaps[i].p < gaps[i + 1].p
=============================================================================
