------------------------------ MODULE MC_C20 ------------------------------
(***************************************************************************)
(* Generator for property C20 (static analysis agrees with evaluation).    *)
(* Two families of vectors, told apart by `mode`:                          *)
(*   "trav": a root name followed by traversal steps; the specification's  *)
(*           value is Eval of the corresponding attr/index/legacy chain    *)
(*   "type": a type of the type-constraint language (hcl spec.md "Type     *)
(*           Expressions"), built one constructor per action               *)
(***************************************************************************)
EXTENDS HclExpr

CONSTANTS MaxSteps, MaxTD

VARIABLES mode, root, steps, ty, d, pred

vars == <<mode, root, steps, ty, d, pred>>

\* the scope is the E1 scope (kept in sync with harness/e1.Scope)
ScopeNames == {"n1", "s", "nul", "l", "t", "o", "m", "st", "lo", "oo"}
Scope == [x \in ScopeNames |->
    CASE x = "n1"  -> Num(2)
      [] x = "s"   -> Str("a")
      [] x = "nul" -> Null(TDyn)
      [] x = "l"   -> List(TNum, <<Num(2), Num(4)>>)
      [] x = "t"   -> Tup(<<Num(2), Str("a")>>)
      [] x = "o"   -> Obj(<<"a", "b">>, <<Num(2), Str("x")>>)
      [] x = "m"   -> Map(TStr, <<"a", "b">>, <<Str("x"), Str("y")>>)
      [] x = "st"  -> SetV(TStr, <<Str("a"), Str("b")>>)
      [] x = "lo"  -> List(TObj(<<"a">>, <<TNum>>), <<Obj(<<"a">>, <<Num(2)>>), Obj(<<"a">>, <<Num(4)>>)>>)
      [] x = "oo"  -> Obj(<<"a">>, <<Obj(<<"b">>, <<Num(2)>>)>>)]

Roots == ScopeNames \cup {"zz"}

\* a step: [k, s, n]
StepRec(k, s, n) == [k |-> k, s |-> s, n |-> n]
Steps == {StepRec("attr", "a", 0), StepRec("attr", "b", 0), StepRec("attr", "c", 0),
          StepRec("idxs", "a", 0), StepRec("idxs", "b", 0), StepRec("idxs", "0", 0),
          StepRec("idxn", "", 0), StepRec("idxn", "", 2), StepRec("idxn", "", 4),
          StepRec("legacy", "", 0), StepRec("legacy", "", 2)}

StrLit(s) == NTpl("q", <<NTLit(s)>>)

RECURSIVE AstOf(_, _, _)
AstOf(r, ss, i) ==
    IF i = 0 THEN NVar(r)
    ELSE LET x == AstOf(r, ss, i - 1)
             st == ss[i]
         IN CASE st.k = "attr"   -> NAttr(x, st.s)
              [] st.k = "idxs"   -> NIndex(x, StrLit(st.s))
              [] st.k = "idxn"   -> NIndex(x, NNum(st.n))
              [] st.k = "legacy" -> NLegacy(x, st.n)

TravResult(r, ss) == Eval(AstOf(r, ss, Len(ss)), Scope)

NoPred == R(Oom, FALSE)

---------------------------------------------------------------------------
(* Types of the type-constraint language *)
AttrNames == <<"a", "b_1", "for", "null">>     \* in KeyOrder-independent lexical order

PrimTypes == {TNum, TStr, TBool, TDyn}

WrapType(t) ==
    {TList(t), TSet(t), TMap(t), TTup(<<t>>), TTup(<<t, TStr>>), TTup(<<TDyn, t>>), TTup(<<>>)}
    \cup {TObj(<<AttrNames[i]>>, <<t>>) : i \in 1..Len(AttrNames)}
    \cup {TObj(<<"a", "b_1">>, <<t, TNum>>), TObj(<<"a", "for">>, <<TBool, t>>), TObj(<<>>, <<>>)}

Init ==
    \/ /\ mode = "trav" /\ root \in Roots /\ steps = <<>> /\ ty = TDyn /\ d = 0
       /\ pred = TravResult(root, <<>>)
    \/ /\ mode = "type" /\ root = "" /\ steps = <<>> /\ ty \in PrimTypes /\ d = 0 /\ pred = NoPred

AddStep ==
    /\ mode = "trav" /\ Len(steps) < MaxSteps
    /\ \E st \in Steps :
          \* the legacy index syntax cannot be chained directly (spec: "does not support chaining"): a
          \* text with two legacy steps in a row is outside the grammar (`t.0.2` scans 0.2 as ONE number);
          \* such vectors are generated once, for the implication "accepted by the stand-alone traversal
          \* parser => accepted, with the same meaning, by the expression parser", and not extended further
          /\ ~(Len(steps) > 1 /\ steps[Len(steps)].k = "legacy" /\ steps[Len(steps) - 1].k = "legacy")
          /\ steps' = Append(steps, st)
          /\ pred' = TravResult(root, steps')
    /\ UNCHANGED <<mode, root, ty, d>>

WrapTy ==
    /\ mode = "type" /\ d < MaxTD
    /\ ty' \in WrapType(ty)
    /\ d' = d + 1
    /\ UNCHANGED <<mode, root, steps, pred>>

Next == AddStep \/ WrapTy
Spec == Init /\ [][Next]_vars

\* the static view and evaluation coincide on the model: a traversal is the fold of its steps
TravIsFold == mode = "trav" => pred = TravResult(root, steps)
=============================================================================
