------------------------------- MODULE HclDec -------------------------------
(***************************************************************************)
(* hcldec: decoding specifications, their implied type and schema, and the *)
(* value they describe for a body (properties C08, C03, C18).              *)
(*                                                                         *)
(* Spec trees are monomorphic records [k, name, ty, flag, n, m, sub]:      *)
(*   attr(name, ty, flag = required)        literal(n = index in LitVals)  *)
(*   block(name = type, flag = required; nested)                           *)
(*   blocklist / blocktuple / blockset(name = type, n = min, m = max; nested) *)
(*   blockmap / blockobject(name = type, n = number of labels; nested)     *)
(*   blockattrs(name = type, ty = element type, flag = required)           *)
(*   label(n = index)   default(primary, default)                          *)
(*   object(fields: sub, names in `names`)   tuple(sub)                    *)
(*   transform(wrapped) -- the harness function wraps the value in a 1-tuple *)
(*   validate(wrapped)  -- the harness function rejects the number 13      *)
(*   refine(wrapped)    -- refines the value as not-null                   *)
(*                                                                         *)
(* Bodies are item sequences; item = [k, name, labels, val, body] where    *)
(* val is an HclExpr literal AST and body the nested item sequence.        *)
(***************************************************************************)
EXTENDS HclExpr

S(k, name, ty, flag, n, m, names, sub) ==
    [k |-> k, name |-> name, ty |-> ty, flag |-> flag, n |-> n, m |-> m, names |-> names, sub |-> sub]
SAttr(name, ty, req)      == S("attr", name, ty, req, 0, 0, <<>>, <<>>)
SLit(i)                   == S("literal", "", TDyn, FALSE, i, 0, <<>>, <<>>)
SBlock(t, req, x)         == S("block", t, TDyn, req, 0, 0, <<>>, <<x>>)
SBlockList(t, mn, mx, x)  == S("blocklist", t, TDyn, FALSE, mn, mx, <<>>, <<x>>)
SBlockTuple(t, mn, mx, x) == S("blocktuple", t, TDyn, FALSE, mn, mx, <<>>, <<x>>)
SBlockSet(t, mn, mx, x)   == S("blockset", t, TDyn, FALSE, mn, mx, <<>>, <<x>>)
SBlockMap(t, nl, x)       == S("blockmap", t, TDyn, FALSE, nl, 0, <<>>, <<x>>)
SBlockObject(t, nl, x)    == S("blockobject", t, TDyn, FALSE, nl, 0, <<>>, <<x>>)
SBlockAttrs(t, ety, req)  == S("blockattrs", t, ety, req, 0, 0, <<>>, <<>>)
SLabel(i)                 == S("label", "", TDyn, FALSE, i, 0, <<>>, <<>>)
SDefault(p, d)            == S("default", "", TDyn, FALSE, 0, 0, <<>>, <<p, d>>)
SObject(names, subs)      == S("object", "", TDyn, FALSE, 0, 0, names, subs)
STuple(subs)              == S("tuple", "", TDyn, FALSE, 0, 0, <<>>, subs)
STransform(x)             == S("transform", "", TDyn, FALSE, 0, 0, <<>>, <<x>>)
SValidate(x)              == S("validate", "", TDyn, FALSE, 0, 0, <<>>, <<x>>)
SRefine(x)                == S("refine", "", TDyn, FALSE, 0, 0, <<>>, <<x>>)

LitVals == <<Num(14), Str("dflt")>>

BlockKinds == {"block", "blocklist", "blocktuple", "blockset", "blockmap", "blockobject", "blockattrs"}
PassKinds  == {"default", "object", "tuple", "transform", "validate", "refine"}   \* same-body children

IAttr(name, val)            == [k |-> "attr", name |-> name, labels |-> <<>>, val |-> val, body |-> <<>>]
IBlock(type, labels, body)  == [k |-> "block", name |-> type, labels |-> labels, val |-> NNone, body |-> body]

---------------------------------------------------------------------------
(* Implied type (hcldec.ImpliedType) *)
RECURSIVE ImpliedType(_)
ImpliedType(s) ==
    CASE s.k = "attr"        -> s.ty
      [] s.k = "literal"     -> TypeOf(LitVals[s.n])
      [] s.k = "block"       -> ImpliedType(s.sub[1])
      [] s.k = "blocklist"   -> TList(ImpliedType(s.sub[1]))
      [] s.k = "blockset"    -> TSet(ImpliedType(s.sub[1]))
      [] s.k = "blocktuple"  -> TDyn
      [] s.k = "blockmap"    -> IF s.n = 1 THEN TMap(ImpliedType(s.sub[1])) ELSE TMap(TMap(ImpliedType(s.sub[1])))
      [] s.k = "blockobject" -> TDyn
      [] s.k = "blockattrs"  -> TMap(s.ty)
      [] s.k = "label"       -> TStr
      [] s.k = "default"     -> ImpliedType(s.sub[1])
      [] s.k = "object"      -> TObj(s.names, [i \in 1..Len(s.sub) |-> ImpliedType(s.sub[i])])
      [] s.k = "tuple"       -> TTup([i \in 1..Len(s.sub) |-> ImpliedType(s.sub[i])])
      [] s.k = "transform"   -> TTup(<<ImpliedType(s.sub[1])>>)
      [] s.k \in {"validate", "refine"} -> ImpliedType(s.sub[1])

\* does value type vt conform to implied type it?  (equal outside dynamic positions)
RECURSIVE Conforms(_, _)
Conforms(vt, it) ==
    IF it = TDyn THEN TRUE
    ELSE IF vt.k # it.k THEN FALSE
    ELSE IF vt.k = "obj" THEN vt.a = it.a /\ \A i \in 1..Len(it.e) : Conforms(vt.e[i], it.e[i])
    ELSE Len(vt.e) = Len(it.e) /\ \A i \in 1..Len(it.e) : Conforms(vt.e[i], it.e[i])

---------------------------------------------------------------------------
(* Implied schema (hcldec.ImpliedSchema): attribute and block-header       *)
(* requirements a spec places on ITS OWN body.                             *)
RECURSIVE AttrSchemata(_), BlockSchemata(_), MaxLabelIdx(_)

AttrSchemata(s) ==      \* set of [name, req]
    CASE s.k = "attr" -> {[name |-> s.name, req |-> s.flag]}
      [] s.k \in PassKinds -> UNION {AttrSchemata(s.sub[i]) : i \in 1..Len(s.sub)}
      [] OTHER -> {}

\* highest label index used by label specs that read THIS block's labels (not nested blocks')
MaxLabelIdx(s) ==
    CASE s.k = "label" -> s.n
      [] s.k \in PassKinds ->
            LET xs == {MaxLabelIdx(s.sub[i]) : i \in 1..Len(s.sub)} IN
            IF xs = {} THEN -1 ELSE CHOOSE x \in xs : \A y \in xs : y <= x
      [] OTHER -> -1

\* number of labels a block spec requires on its blocks
LabelsWanted(s) ==
    CASE s.k \in {"blockmap", "blockobject"} -> s.n + (MaxLabelIdx(s.sub[1]) + 1)
      [] s.k = "blockattrs" -> 0
      [] OTHER -> MaxLabelIdx(s.sub[1]) + 1

BlockSchemata(s) ==     \* set of [type, nl]
    CASE s.k \in BlockKinds -> {[type |-> s.name, nl |-> LabelsWanted(s)]}
      [] s.k \in PassKinds -> UNION {BlockSchemata(s.sub[i]) : i \in 1..Len(s.sub)}
      [] OTHER -> {}

\* a spec is well-formed (documented preconditions) if no block type is requested with two
\* different label counts in one body, label specs only occur inside block specs, a default has
\* the type of its primary, and label-keyed collections contain no dynamic types
\* a spec whose value can never be null
RECURSIVE NeverNull(_)
NeverNull(s) ==
    CASE s.k \in {"literal", "label", "blocklist", "blocktuple", "blockset", "blockmap", "blockobject",
                  "transform", "object", "tuple"} -> TRUE
      [] s.k = "default" -> NeverNull(s.sub[2])
      [] s.k \in {"validate", "refine"} -> NeverNull(s.sub[1])
      [] OTHER -> FALSE

RECURSIVE WellFormedSpec(_, _)
WellFormedSpec(s, inBlock) ==
    /\ (s.k = "label" => inBlock)
    \* RefineValueSpec: "applications must guarantee that any value passing through will always be
    \* consistent with the refinements" (the harness refines as not-null)
    /\ (s.k = "refine" => NeverNull(s.sub[1]))
    /\ (s.k = "default" => ImpliedType(s.sub[1]) = ImpliedType(s.sub[2]))
    /\ (s.k = "blockmap" => ~HasDynT(ImpliedType(s.sub[1])))   \* documented: "may not be used inside a BlockMapSpec"
    /\ (\A b1, b2 \in BlockSchemata(s) : b1.type = b2.type => b1.nl = b2.nl)
    /\ \A i \in 1..Len(s.sub) : WellFormedSpec(s.sub[i], inBlock \/ s.k \in BlockKinds)

---------------------------------------------------------------------------
(* Decoding.  Result [v, err]; v = Oom where the model makes no statement. *)

\* schema-level problems of a body under a spec (hcl.Body.Content with the implied schema)
ContentErr(s, body) ==
    LET as == AttrSchemata(s)
        bs == BlockSchemata(s)
        present(n) == \E i \in 1..Len(body) : body[i].k = "attr" /\ body[i].name = n
    IN \/ \E a \in as : a.req /\ ~present(a.name)
       \/ \E i \in 1..Len(body) : body[i].k = "attr" /\ ~\E a \in as : a.name = body[i].name
       \/ \E i \in 1..Len(body) : body[i].k = "block" /\ ~\E b \in bs : b.type = body[i].name
       \/ \E i \in 1..Len(body) : body[i].k = "block" /\ \E b \in bs : b.type = body[i].name /\ b.nl # Len(body[i].labels)

\* the blocks of a type that Content returns (label-count mismatches are dropped)
BlocksOf(s, body) ==
    LET nl == LabelsWanted(s)
        idx == {i \in 1..Len(body) : body[i].k = "block" /\ body[i].name = s.name /\ Len(body[i].labels) = nl}
    IN [j \in 1..Cardinality(idx) |-> body[CHOOSE i \in idx : Cardinality({x \in idx : x < i}) = j - 1]]

AttrItem(body, name) ==
    LET S0 == {i \in 1..Len(body) : body[i].k = "attr" /\ body[i].name = name}
    IN IF S0 = {} THEN 0 ELSE CHOOSE i \in S0 : TRUE

RECURSIVE Dec(_, _, _, _), DecAll(_, _, _, _, _), MapFold(_, _, _, _, _)

\* decode every block of bs (index i..) with nested spec x; [vs, err, oom]
DecAll(x, bs, drop, env, i) ==
    IF i > Len(bs) THEN [vs |-> <<>>, err |-> FALSE, oom |-> FALSE]
    ELSE LET b == bs[i]
             h == LET r == Dec(x, b.body, SubSeq(b.labels, drop + 1, Len(b.labels)), env)
                  IN R(r.v, r.err \/ ContentErr(x, b.body))
             t == DecAll(x, bs, drop, env, i + 1)
         IN [vs |-> <<h.v>> \o t.vs, err |-> h.err \/ t.err, oom |-> IsOom(h.v) \/ t.oom]

AllSameType(vs) == \A i \in 1..Len(vs) : TypeOf(vs[i]) = TypeOf(vs[1])

\* blocks -> (possibly nested) map/object keyed by the first nl labels; acc = [ks, es, err]
\* (one or two label levels)
MapFold(bs, vs, nl, i, acc) ==
    IF i > Len(bs) THEN acc
    ELSE LET l1 == bs[i].labels[1]
             j == KeyIdx(acc.ks, l1)
         IN IF nl = 1 THEN
               (IF j # 0 THEN MapFold(bs, vs, nl, i + 1, [acc EXCEPT !.err = TRUE])
                ELSE MapFold(bs, vs, nl, i + 1, [acc EXCEPT !.ks = Append(@, l1), !.es = Append(@, vs[i])]))
            ELSE
               LET l2 == bs[i].labels[2] IN
               IF j = 0 THEN MapFold(bs, vs, nl, i + 1,
                                [acc EXCEPT !.ks = Append(@, l1), !.es = Append(@, [ks |-> <<l2>>, es |-> <<vs[i]>>])])
               ELSE IF KeyIdx(acc.es[j].ks, l2) # 0 THEN MapFold(bs, vs, nl, i + 1, [acc EXCEPT !.err = TRUE])
               ELSE MapFold(bs, vs, nl, i + 1,
                        [acc EXCEPT !.es[j] = [ks |-> Append(@.ks, l2), es |-> Append(@.es, vs[i])]])

Dec(s, body, labels, env) ==
    CASE s.k = "attr" ->
            LET i == AttrItem(body, s.name) IN
            IF i = 0 THEN R(Null(s.ty), FALSE)
            ELSE LET r == Eval(body[i].val, env) IN
                 IF IsROom(r) \/ TypeOf(r.v) = OomType THEN ROom
                 ELSE LET c == Convert(r.v, s.ty) IN
                      IF ~c.ok THEN R(Unk(s.ty), TRUE)
                      ELSE IF IsOom(c.v) THEN ROom
                      ELSE R(c.v, r.err)
      [] s.k = "literal" -> R(LitVals[s.n], FALSE)
      [] s.k = "label"   -> IF s.n + 1 <= Len(labels) THEN R(Str(labels[s.n + 1]), FALSE) ELSE ROom
      [] s.k = "block" ->
            LET bs == BlocksOf(s, body) IN
            IF Len(bs) = 0 THEN R(Null(ImpliedType(s.sub[1])), s.flag)
            ELSE LET r == Dec(s.sub[1], bs[1].body, bs[1].labels, env) IN
                 IF IsROom(r) THEN ROom
                 ELSE R(r.v, r.err \/ ContentErr(s.sub[1], bs[1].body) \/ Len(bs) > 1)
      [] s.k \in {"blocklist", "blocktuple", "blockset"} ->
            LET bs == BlocksOf(s, body)
                a == DecAll(s.sub[1], bs, 0, env, 1)
                cntErr == Len(bs) < s.n \/ (s.m > 0 /\ Len(bs) > s.m)
                ety == ImpliedType(s.sub[1])
            IN IF a.oom THEN ROom
               ELSE IF s.k = "blocktuple" THEN R(Tup(a.vs), a.err \/ cntErr)
               ELSE IF Len(bs) = 0 THEN
                    R(IF s.k = "blocklist" THEN List(ety, <<>>) ELSE SetV(ety, <<>>), a.err \/ cntErr)
               ELSE IF ~AllSameType(a.vs) THEN ROom       \* element types are unified by the dependency layer
               ELSE IF \E i \in 1..Len(a.vs) : a.vs[i].k = "unk" THEN ROom
               ELSE R(IF s.k = "blocklist" THEN List(TypeOf(a.vs[1]), a.vs) ELSE SetV(TypeOf(a.vs[1]), a.vs), a.err \/ cntErr)
      [] s.k \in {"blockmap", "blockobject"} ->
            LET bs == BlocksOf(s, body)
                a == DecAll(s.sub[1], bs, s.n, env, 1)
                ety == ImpliedType(s.sub[1])
            IN IF a.oom THEN ROom
               ELSE LET f == MapFold(bs, a.vs, s.n, 1, [ks |-> <<>>, es |-> <<>>, err |-> FALSE]) IN
                    IF s.k = "blockmap" THEN
                        (IF Len(bs) = 0 THEN R(Map(IF s.n = 1 THEN ety ELSE TMap(ety), <<>>, <<>>), a.err)
                         ELSE IF ~AllSameType(a.vs) \/ (\E i \in 1..Len(a.vs) : a.vs[i].k = "unk") THEN ROom
                         ELSE IF s.n = 1 THEN R(Map(TypeOf(a.vs[1]), f.ks, f.es), a.err \/ f.err)
                         ELSE R(Map(TMap(TypeOf(a.vs[1])), f.ks,
                                    [j \in 1..Len(f.es) |-> Map(TypeOf(a.vs[1]), f.es[j].ks, f.es[j].es)]), a.err \/ f.err))
                    ELSE
                        (IF s.n = 1 THEN R(Obj(f.ks, f.es), a.err \/ f.err)
                         ELSE R(Obj(f.ks, [j \in 1..Len(f.es) |-> Obj(f.es[j].ks, f.es[j].es)]), a.err \/ f.err))
      [] s.k = "blockattrs" ->
            LET bs == BlocksOf(s, body) IN
            IF Len(bs) = 0 THEN R(Null(TMap(s.ty)), s.flag)
            ELSE LET b == bs[1].body
                     hasBlock == \E i \in 1..Len(b) : b[i].k = "block"
                     attrs == {i \in 1..Len(b) : b[i].k = "attr"}
                     ev(i) == Eval(b[i].val, env)
                     cv(i) == Convert(ev(i).v, s.ty)
                 IN IF \E i \in attrs : IsROom(ev(i)) \/ TypeOf(ev(i).v) = OomType \/ IsOom(cv(i).v) THEN ROom
                    ELSE LET names == [j \in 1..Cardinality(attrs) |-> b[CHOOSE i \in attrs : Cardinality({x \in attrs : x < i}) = j - 1].name]
                             vals  == [j \in 1..Cardinality(attrs) |->
                                          LET i == CHOOSE i \in attrs : Cardinality({x \in attrs : x < i}) = j - 1
                                          IN IF cv(i).ok THEN cv(i).v ELSE Unk(s.ty)]
                             err == hasBlock \/ Len(bs) > 1 \/ \E i \in attrs : ev(i).err \/ ~cv(i).ok
                         IN IF s.ty = TDyn THEN
                                (IF Len(vals) = 0 THEN R(Map(TDyn, <<>>, <<>>), err)
                                 ELSE IF AllSameType(vals) THEN R(Map(TypeOf(vals[1]), names, vals), err)
                                 ELSE ROom)      \* a map needs one element type: left to the dependency layer
                            ELSE R(Map(s.ty, names, vals), err)
      [] s.k = "default" ->
            LET p == Dec(s.sub[1], body, labels, env) IN
            IF IsROom(p) THEN ROom
            ELSE IF p.v.k = "null" THEN
                 (LET d == Dec(s.sub[2], body, labels, env) IN IF IsROom(d) THEN ROom ELSE R(d.v, p.err \/ d.err))
            ELSE p
      [] s.k \in {"object", "tuple"} ->
            LET rs == [i \in 1..Len(s.sub) |-> Dec(s.sub[i], body, labels, env)] IN
            IF \E i \in 1..Len(rs) : IsROom(rs[i]) THEN ROom
            ELSE LET vs == [i \in 1..Len(rs) |-> rs[i].v]
                     err == \E i \in 1..Len(rs) : rs[i].err
                 IN IF s.k = "object" THEN R(Obj(s.names, vs), err) ELSE R(Tup(vs), err)
      [] s.k = "transform" ->
            LET w == Dec(s.sub[1], body, labels, env) IN
            IF IsROom(w) THEN ROom
            ELSE IF w.err THEN R(Unk(ImpliedType(s)), TRUE)
            ELSE R(Tup(<<w.v>>), FALSE)
      [] s.k = "validate" ->
            LET w == Dec(s.sub[1], body, labels, env) IN
            IF IsROom(w) THEN ROom
            ELSE IF w.err THEN R(Unk(ImpliedType(s)), TRUE)
            ELSE R(w.v, w.v = Num(26))            \* the harness validator rejects the number 13
      [] s.k = "refine" ->
            LET w == Dec(s.sub[1], body, labels, env) IN
            IF IsROom(w) THEN ROom
            ELSE IF w.err THEN R(Unk(ImpliedType(s)), TRUE)
            ELSE IF w.v.k = "null" THEN ROom       \* refining a null as not-null: outside the documented use
            ELSE w

\* Is the JSON syntax able to express this body under this spec?  JSON derives the label
\* structure (and attribute-vs-block) from the schema, so a body is expressible only if every
\* block of a requested type has the requested number of labels (recursively) and blocks read
\* as attribute maps contain attributes only.
RECURSIVE JsonExpressible(_, _)
JsonExpressible(s, body) ==
    CASE s.k \in BlockKinds ->
            \A i \in 1..Len(body) :
                (body[i].k = "block" /\ body[i].name = s.name) =>
                    /\ Len(body[i].labels) = LabelsWanted(s)
                    /\ IF s.k = "blockattrs"
                       THEN \A j \in 1..Len(body[i].body) : body[i].body[j].k = "attr"
                       ELSE JsonExpressible(s.sub[1], body[i].body)
      [] s.k \in PassKinds -> \A j \in 1..Len(s.sub) : JsonExpressible(s.sub[j], body)
      [] OTHER -> TRUE

\* hcldec.Decode(body, spec, ctx)
Decode(s, body, env) ==
    LET r == Dec(s, body, <<>>, env) IN
    IF IsROom(r) THEN ROom ELSE R(r.v, r.err \/ ContentErr(s, body))
=============================================================================
