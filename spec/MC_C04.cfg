SPECIFICATION Spec
CONSTANTS
  AttrNames <- MCAttrNames
  BlockTypes <- MCBlockTypes
  MaxLabels = 1
INVARIANTS TwoStep ExactlyOnce Accounted
CHECK_DEADLOCK FALSE
