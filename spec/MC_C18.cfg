SPECIFICATION Spec
INVARIANT StaticsPreserved
CHECK_DEADLOCK FALSE
