SPECIFICATION Spec
INVARIANTS BoundsOK Monotone
CHECK_DEADLOCK FALSE
