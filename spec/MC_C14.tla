------------------------------ MODULE MC_C14 ------------------------------
(* every class string up to MaxN with the reference positions at each boundary *)
EXTENDS HclLexPos

CONSTANTS MaxN, Alphabet, StartKind   \* StartKind: "initial" | "offset"

VARIABLES s, bounds, cst

vars == <<s, bounds, cst>>

P0 == IF StartKind = "initial" THEN Pos(0, 1, 1) ELSE Pos(100, 7, 5)

Init == s = <<>> /\ bounds = <<P0>> /\ cst = "ctrl"
Next == /\ Len(s) < MaxN
        /\ \E c \in Alphabet :
              /\ s' = Append(s, c)
              /\ LET r == AdvanceSt(bounds[Len(bounds)], cst, IF s = <<>> THEN "" ELSE s[Len(s)], c)
                 IN bounds' = Append(bounds, r.pos) /\ cst' = r.st
Spec == Init /\ [][Next]_vars

\* the incrementally maintained positions are the specification's Boundaries
BoundsOK == bounds = Boundaries(s, 1, P0, "")
\* positions are monotone in byte offset and line
Monotone == \A i \in 1..(Len(bounds) - 1) : bounds[i].byte < bounds[i+1].byte /\ bounds[i].line <= bounds[i+1].line

Core == {"a", "1", "SP", "TAB", "NL", "CR", "DQ", "BS", "DOLLAR", "LBRACE", "RBRACE", "HASH", "SLASH", "STAR", "LT", "MINUS", "MB", "COMB", "BAD", "ASTRAL", "EXT3", "ZWJ", "VS"}
\* grapheme-cluster alphabet for longer strings: base letter, emoji, joiner, three kinds of Extend, newline
Clusters == {"a", "ASTRAL", "ZWJ", "COMB", "VS", "EXT3", "NL", "DQ"}
\* heredoc alphabet: an introducer line, the marker letter, blanks, Unicode white space that is not a blank,
\* line ends, template introducers
Heredocs == {"HOPEN", "a", "SP", "TAB", "NBSP", "FF", "NL", "CR", "MB", "DOLLAR", "LBRACE", "RBRACE", "MINUS"}
=============================================================================
