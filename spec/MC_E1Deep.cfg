SPECIFICATION DSpec
INVARIANTS Total KnownInKnownOut DependsOnlyOnFreeVars
CHECK_DEADLOCK FALSE
