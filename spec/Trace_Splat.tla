---------------------------- MODULE Trace_Splat ----------------------------
(***************************************************************************)
(* Trace validation for SplatConc: events recorded from the real           *)
(* AnonSymbolExpr (hook family "anon", emitted under the values lock,      *)
(* ordered by a sequence number taken under that lock) are replayed        *)
(* against the specification's actions.  One ndjson file holds many runs;  *)
(* a "reset" event starts the next run.                                    *)
(*   ev  : "set" | "read" | "clear" | "reset"     g : goroutine               *)
(*   sym : "outer" | "inner"     i, j : outer / inner index of the value     *)
(*   vg  : goroutine tag of the value (0 = absent)                            *)
(***************************************************************************)
EXTENDS SplatConc, Json

Trace == ndJsonDeserialize("trace_splat.ndjson")

VARIABLE l

tvars == <<values, pc, got, sched, l>>

TraceInit == Init /\ l = 1

Ev == Trace[l]
Is(e) == l <= Len(Trace) /\ Ev.ev = e

\* the value the event carries, in the specification's representation
Logged == IF Ev.vg = 0 THEN Absent ELSE Item(Ev.vg, Ev.sym, Ev.i, Ev.j)

TSet == /\ Is("set")
        /\ \/ (Ev.sym = "outer" /\ SetOuter(Ev.g) /\ values'["outer"][Ctx[Ev.g]] = Logged)
           \/ (Ev.sym = "inner" /\ SetInner(Ev.g) /\ values'["inner"][Ctx[Ev.g]] = Logged)
        /\ l' = l + 1

TRead == /\ Is("read")
         /\ \/ (Ev.sym = "outer" /\ ReadOuter(Ev.g))
            \/ (Ev.sym = "inner" /\ ReadInner(Ev.g))
         \* the implementation returned exactly what the specification's map holds
         /\ got'[Ev.g][Len(got'[Ev.g])] = Logged
         /\ l' = l + 1

TClear == /\ Is("clear")
          /\ \/ (Ev.sym = "outer" /\ ClearOuter(Ev.g))
             \/ (Ev.sym = "inner" /\ ClearInner(Ev.g))
          /\ l' = l + 1

\* next run: the previous one must have completed and left nothing behind
TReset == /\ Is("reset")
          /\ AllDone
          /\ \A s \in Syms, c \in CtxIds : values[s][c] = Absent
          /\ values' = [s \in Syms |-> [c \in CtxIds |-> Absent]]
          /\ pc' = [g \in G |-> IF NOuter = 0 THEN PC("clear_o", 0, 0) ELSE PC("set_o", 1, 0)]
          /\ got' = [g \in G |-> <<>>]
          /\ sched' = <<>>
          /\ l' = l + 1

TraceNext == TSet \/ TRead \/ TClear \/ TReset
TraceSpec == TraceInit /\ [][TraceNext]_tvars

\* every line of the trace was consumed
TraceAccepted == TLCGet("stats").diameter - 1 = Len(Trace)
\* for diagnosis: how far did we get
Progress == l
=============================================================================
