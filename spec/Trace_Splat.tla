---------------------------- MODULE Trace_Splat ----------------------------
(***************************************************************************)
(* Trace validation for SplatConc: events recorded from the real           *)
(* AnonSymbolExpr (hook family "anon", emitted under the values lock,      *)
(* ordered by a sequence number taken under that lock) are replayed        *)
(* against the specification's actions.  One ndjson file holds many runs;  *)
(* a "reset" event starts the next run.                                    *)
(*   ev  : "set" | "read" | "clear" | "reset"     g : goroutine               *)
(*   sym : "outer" | "inner"     i, j : outer / inner index of the value     *)
(*   vg  : goroutine tag of the value (0 = absent, -1 = the unknown probe value) *)
(*   c   : 0 = the goroutine's own context, 1 / 2 = the type probe's child contexts *)
(***************************************************************************)
EXTENDS SplatConc, Json

Trace == ndJsonDeserialize("trace_splat.ndjson")

VARIABLE l

tvars == <<values, pc, got, sched, l>>

TraceInit == Init /\ l = 1

Ev == Trace[l]
Is(e) == l <= Len(Trace) /\ Ev.ev = e

\* the value the event carries, in the specification's representation
Logged == IF Ev.vg = 0 THEN Absent
          ELSE IF Ev.vg = -1 THEN Probe(Ev.g, Ev.sym)
          ELSE Item(Ev.vg, Ev.sym, Ev.i, Ev.j)

\* the context the event happened in
EvCtx == IF Ev.c = 0 THEN Ctx[Ev.g] ELSE IF Ev.c = 1 THEN P1(Ev.g) ELSE P2(Ev.g)

TSet == /\ Is("set")
        /\ \/ (Ev.sym = "outer" /\ Ev.c = 0 /\ SetOuter(Ev.g))
           \/ (Ev.sym = "inner" /\ Ev.c = 0 /\ SetInner(Ev.g))
           \/ (Ev.sym = "outer" /\ Ev.c = 1 /\ ESetOuter(Ev.g))
           \/ (Ev.sym = "inner" /\ Ev.c = 2 /\ ESetInner(Ev.g))
        /\ values'[Ev.sym][EvCtx] = Logged
        /\ l' = l + 1

TRead == /\ Is("read")
         /\ \/ (Ev.sym = "outer" /\ Ev.c = 0 /\ ReadOuter(Ev.g))
            \/ (Ev.sym = "inner" /\ Ev.c = 0 /\ ReadInner(Ev.g))
            \/ (Ev.sym = "outer" /\ Ev.c = 1 /\ EReadOuter(Ev.g))
            \/ (Ev.sym = "inner" /\ Ev.c = 2 /\ EReadInner(Ev.g))
         \* the implementation returned exactly what the specification's map holds
         /\ got'[Ev.g][Len(got'[Ev.g])] = Logged
         /\ l' = l + 1

TClear == /\ Is("clear")
          /\ \/ (Ev.sym = "outer" /\ Ev.c = 0 /\ (ClearOuter(Ev.g) \/ EClearOuter(Ev.g)))
             \/ (Ev.sym = "inner" /\ Ev.c = 0 /\ ClearInner(Ev.g))
             \/ (Ev.sym = "inner" /\ Ev.c = 2 /\ EClearInner(Ev.g))
             \/ (Ev.sym = "outer" /\ Ev.c = 1 /\ EClearOuter2(Ev.g))
          /\ l' = l + 1

\* next run: the previous one must have completed and left nothing behind
TReset == /\ Is("reset")
          /\ AllDone
          /\ \A s \in Syms, c \in CtxIds : values[s][c] = Absent
          /\ values' = [s \in Syms |-> [c \in CtxIds |-> Absent]]
          /\ pc' = [g \in G |-> StartPC(g)]
          /\ got' = [g \in G |-> <<>>]
          /\ sched' = <<>>
          /\ l' = l + 1

TraceNext == TSet \/ TRead \/ TClear \/ TReset
TraceSpec == TraceInit /\ [][TraceNext]_tvars

\* every line of the trace was consumed
TraceAccepted == TLCGet("stats").diameter - 1 = Len(Trace)
\* for diagnosis: how far did we get
Progress == l
=============================================================================
