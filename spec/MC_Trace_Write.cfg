SPECIFICATION TraceSpec
CONSTANTS
  Names <- MCNames
  Types <- MCTypes
  LabelSets <- MCLabelSets
  Vals <- MCVals
  Inits <- MCInits
  MaxDepth = 3
  MaxH = 64
INVARIANTS UniqueAttrNames Forest
POSTCONDITION TraceAccepted
CHECK_DEADLOCK FALSE
