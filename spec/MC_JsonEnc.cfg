SPECIFICATION Spec
INVARIANT EncKeepsAttrs
INVARIANT TopShape
CONSTANTS
  MaxItems = 2
  NParts = 1
  Part = 0
CHECK_DEADLOCK FALSE
