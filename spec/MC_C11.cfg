SPECIFICATION Spec
INVARIANT EscapeRoundTrip
CHECK_DEADLOCK FALSE
