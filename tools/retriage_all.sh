#!/bin/bash
# usage: tools/retriage_all.sh <outfile> [parallel]   -- re-checks every seeded change against the current checks
# without touching /repo: each patch is applied in a scratch worktree and the check runs from a scratch copy of /verif.
out=$1; par=${2:-3}
: > $out
one() {
  d=$1; name=$(basename $d); id=${name%%-*}
  wt=/tmp/rt_$name
  git -C /repo worktree remove --force $wt >/dev/null 2>&1
  git -C /repo worktree add -q --detach $wt HEAD || { echo "$name worktree-failed" >> $out; return; }
  if git -C $wt apply $d/patch.diff 2>/dev/null; then
    r=$(/verif/tools/triage.sh $wt $id 2>&1 | tail -1)
    echo "$name $r" | cut -c1-260 >> $out
  else
    echo "$name patch-does-not-apply" >> $out
  fi
  git -C /repo worktree remove --force $wt >/dev/null 2>&1
}
export -f one; export out
ls -d /verif/seeded/*/ | xargs -P $par -I{} bash -c 'one {}'
sort -o $out $out
