#!/bin/bash
# usage: tools/seedtest.sh <dir with patch.diff/demo_test.go/meta.json> <check ids...>
# 1. confirms the seeded change in a scratch worktree (suite passes, demo fails with / passes without)
# 2. applies it to /repo, runs the given checks (quick), restores /repo
set -u
d=$1; shift
checks="$@"
export GOFLAGS=-mod=mod GOPROXY=off
wt=/tmp/wtverify
git -C /repo worktree remove --force $wt >/dev/null 2>&1
git -C /repo worktree add -q --detach $wt HEAD || exit 2
place=$(head -1 $d/demo_test.go | sed -n 's/.*place in: *\([^ ]*\).*/\1/p'); place=${place%/}
[ -z "$place" ] && place="."
name=seeded_demo_test.go
res="{"
# demo without patch
cp $d/demo_test.go $wt/$place/$name
( cd $wt && go test -vet=off -count=1 ./$place/ -run . >/tmp/seed_demo_clean.log 2>&1 ); r0=$?
# with patch
git -C $wt apply $d/patch.diff || { echo "patch does not apply"; git -C /repo worktree remove --force $wt; exit 2; }
( cd $wt && go test -vet=off -count=1 ./$place/ -run . >/tmp/seed_demo_patched.log 2>&1 ); r1=$?
rm -f $wt/$place/$name
( cd $wt && go build ./... && go test -vet=off -count=1 ./... >/tmp/seed_suite.log 2>&1 ); r2=$?
echo "confirm: demo_clean_rc=$r0 (want 0) demo_patched_rc=$r1 (want !=0) suite_patched_rc=$r2 (want 0)"
git -C /repo worktree remove --force $wt
# detection
if [ -n "$(git -C /repo status --porcelain)" ]; then echo "/repo not clean"; exit 2; fi
git -C /repo apply $d/patch.diff || exit 2
for c in $checks; do
  out=$(cd /verif && ./check $c quick 2>&1); rc=$?
  echo "check $c rc=$rc : $(echo "$out" | grep -E '^(VIOLATION|BROKEN|OK)' | head -2 | cut -c1-150 | tr '\n' ' ') $(echo "$out" | grep -A1 '^VIOLATION' | grep signature | head -3 | tr '\n' ' ' | cut -c1-300)"
done
git -C /repo checkout -- .
git -C /repo status --porcelain | head -3
