#!/bin/bash
# usage: tools/runall.sh quick|thorough [ids...]   -- runs the registered checks and prints one line each
cd "$(dirname "$0")/.."
tier=${1:-quick}; shift
ids=${@:-$(python3 -c "import json;print(' '.join(c['property_id'] for c in json.load(open('MANIFEST.json'))['checks']))")}
for id in $ids; do
  s=$(date +%s)
  out=$(./check $id $tier 2>&1); rc=$?
  e=$(date +%s)
  echo "$id rc=$rc $((e-s))s $(echo "$out" | grep -cE '^KNOWN-FINDING') known | $(echo "$out" | grep -E '^(OK|VIOLATION|BROKEN)' | head -3 | cut -c1-160 | tr '\n' ' ')"
done
