#!/bin/bash
# usage: tools/triage_seed.sh <seeded dir name, e.g. C06-r6> [check id]  -- applies the stored patch in a scratch worktree of
# /repo's HEAD and runs the property's quick tier from a scratch copy of /verif (nothing touches /repo)
name=$1; id=${2:-${name%%-*}}
wt=/tmp/ts_$name
git -C /repo worktree remove --force $wt >/dev/null 2>&1
git -C /repo worktree add -q --detach $wt HEAD || exit 2
if git -C $wt apply /verif/seeded/$name/patch.diff; then
  /verif/tools/triage.sh $wt $id 2>&1 | tail -1 | cut -c1-${CUT:-420}
else
  echo "$name patch-does-not-apply"
fi
git -C /repo worktree remove --force $wt >/dev/null 2>&1
