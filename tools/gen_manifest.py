#!/usr/bin/env python3
"""Regenerates /verif/MANIFEST.json from the table below (single source of truth)."""
import json, os
ROOT = os.path.dirname(os.path.dirname(os.path.abspath(__file__)))
ALL = ["C%02d" % i for i in range(1, 21)]

# id -> (engine, technique, level text, level note, design ref)
CLAIMED = {
 "C12": ("spec/HclWriteTree.tla",
         "TLC exhaustive enumeration of writer-API edit histories (HclWriteTree.tla), each history replayed into hclwrite and compared with the model's predicted file",
         "Every history of <= 3 (quick) / <= 4 (thorough) writer calls from an empty and a parsed-with-comments file is enumerated by TLC; the model's invariants (unique attribute names, forest, untouched items keep tokens) are checked on the spec, and every enumerated history is executed against hclwrite: no panic, serialised bytes parse, re-parsed structure equals the model, read accessors (through the root and through retained handles) equal the model, untouched original items keep their comment/token lines.",
         "Bounded: names {a,b}, types {t,u}, 3 label lists, 4 expression payloads, nesting <= 2; AppendBlock only with detached blocks; token preservation is checked line-wise modulo indentation.",
         "DESIGN.md §4 C12"),
}
NOT_YET = "check not built yet in this round (planned per DESIGN.md §4); nothing is claimed for it"

def main():
    checks = []
    for pid in ALL:
        if pid not in CLAIMED: continue
        eng, tech, text, note, ref = CLAIMED[pid]
        checks.append({
            "property_id": pid,
            "quick_cmd": "./check %s quick" % pid,
            "thorough_cmd": "./check %s thorough" % pid,
            "evidence_file": "evidence/%s.json" % pid,
            "replay_cmd_template": "./check %s --replay {path}" % pid,
            "engine": eng,
            "level_claimed": {"category": "model_checking", "text": text, "design_ref": ref},
            "level_note": note,
            "technique": tech,
        })
    na = [{"property_id": p, "reason": NOT_YET} for p in ALL if p not in CLAIMED]
    hooks_commits = []
    hp = os.path.join(ROOT, "hooks_commits.txt")
    if os.path.exists(hp):
        hooks_commits = [l.strip() for l in open(hp) if l.strip()]
    m = {
        "version": 1,
        "setup_cmd": "./setup.sh",
        "hooks": {
            "guard": "verif",
            "enable": "go build -tags verif (the ./check wrapper builds the harness with -tags verif against /repo via a replace directive)",
            "baseline_off_cmd": "cd /repo && GOFLAGS=-mod=mod GOPROXY=off go test -vet=off -count=1 ./...",
            "source_commits": hooks_commits,
            "add_only": True,
        },
        "engines": [
            {"name": "HclWriteTree", "path": "spec/HclWriteTree.tla", "serves_properties": ["C12"], "kind_free_text": "TLA+ edit-history machine of the hclwrite tree; TLC state dump streamed to a Go replayer"},
        ],
        "checks": checks,
        "not_applicable": na,
        "notes": "All checks: explicit TLA+ spec checked by TLC, bound to the Go code by replaying TLC-enumerated behaviours into hashicorp/hcl and/or validating recorded traces with TLC. Exit 0 held / only KNOWN-FINDING lines; exit 1 with VIOLATION line; exit 2 = the check itself is broken (model drift, timeout, build failure).",
    }
    json.dump(m, open(os.path.join(ROOT, "MANIFEST.json"), "w"), indent=1)
    print("MANIFEST.json: %d checks, %d not_applicable" % (len(checks), len(na)))

if __name__ == "__main__":
    main()
