#!/usr/bin/env python3
"""Regenerates /verif/MANIFEST.json from the table below (single source of truth)."""
import json, os
ROOT = os.path.dirname(os.path.dirname(os.path.abspath(__file__)))
ALL = ["C%02d" % i for i in range(1, 21)]

# id -> (engine, technique, level text, level note, design ref)
CLAIMED = {
 "C01": ("spec/HclExpr.tla + spec/HclValues.tla (MC_E1)",
         "TLC enumerates expression ASTs with their specified value (Eval in HclExpr.tla); each is rendered in 4 layouts, parsed and evaluated by hclsyntax, and value/error-ness compared with the specification",
         "The TLA+ module HclExpr is the independent statement of the expression semantics (literals, operators with precedence, conditional with unification, tuple/object constructors, index/attr/legacy index, both splats, for expressions, calls with expansion, templates with interpolation/unwrapping/strip markers/if/for). TLC checks on the spec that Eval is total, yields no unknown from a known scope and depends only on FreeVars; every enumerated AST (depth 2, typed sibling pools) is evaluated by the real parser+evaluator and compared.",
         "Bounded universe (half-integer numbers, representative strings, 17-variable scope); results outside it are 'oom' and only executed for panic-freedom; value-layer behaviour follows go-cty where spec.md is silent; heredoc templates not yet generated.",
         "DESIGN.md §4.0, §4 C01"),
 "C02": ("spec/HclStruct.tla (MC_C02)",
         "TLC enumerates every file the HclStruct layout machine can write (tree + rendering with a bounded number of layout deviations); each is parsed by hclsyntax and compared with the written tree; duplicates must be rejected",
         "Body trees (attributes, multi-line/one-line/empty blocks, nesting <= 2, 0..2 labels in every spelling of the escape table: bare, quoted, \\u/\\U escapes, escaped template introducers, multi-byte) x all renderings with <= 1 (quick) / <= 2 (thorough) deviations from canonical layout among indentation, token gaps, inline and line comments in every legal position, blank lines, CRLF, BOM, missing final newline. TLC checks WellFormed/Balanced on the spec; the replayer checks acceptance iff no duplicate attribute and exact structure.",
         "Identifier alphabet {a,b,t}; label alphabet by representative spellings; layout deviations bounded by MaxL.",
         "DESIGN.md §4 C02"),
 "C03": ("spec/HclDec.tla (MC_Dec) + spec/JsonEnc.tla (MC_JsonEnc)",
         "TLC enumerates (decoding spec, body) pairs with the JsonExpressible predicate; each pair is rendered in native syntax and 5 fixed admissible JSON encodings; JsonEnc.tla defines the set of ALL admissible encodings of a body as document trees and TLC enumerates every one for a family of 12 specs (the replayer only prints the tree); native and JSON forms are decoded by the real hcldec and compared differentially (and against HclDec.tla via C08)",
         "All well-formed spec trees (17 kinds) of depth <= 1 x bodies <= 2 items and depth <= 2 x bodies <= 1 item (quick; thorough: depth 2 x 2 items); JSON forms: duplicate property names, arrays of block bodies, top-level array of objects, merged label objects with // comments, one object per item; MC_JsonEnc: bodies of <= 2 (thorough 3) items x every combination of body form (object / array of objects), block form (repeated properties / arrays / merged label objects), array placement (type level / innermost label level) and comment properties. Same error-ness, RawEquals decoded values, same Content projection, and the same block sequence across types for order-keeping encodings.",
         "Only JSON-expressible bodies (label counts as requested by the spec) are compared; attribute values are literals of every JSON-expressible type.",
         "DESIGN.md §4 C03"),
 "C04": ("spec/HclBody.tla (MC_C04)",
         "TLC enumerates (body, disjoint schema split) pairs with the model's per-step prediction and checks the C04 laws (TwoStep, ExactlyOnce, Accounted) on the spec; each pair is replayed on native, JSON, merged and dynblock-expanded bodies and compared by the laws and against the model",
         "All bodies of <= 3 (quick) / 4 (thorough) items x all disjoint splits of all well-formed schemas into 2 (quick) / 2..3 (thorough) parts; on each of the four hcl.Body implementations built from the same abstract items: no item returned twice, chain == one-step union (attributes, blocks, error kinds), every item returned or reported, remaining body holds exactly the unmatched items, and step-by-step agreement with HclBody.tla.",
         "Attribute names {a,b}, block types {p,q}, 0..1 labels; JSON rendering only where label counts match; diagnostics compared as sets of (kind, name); dynblock diagnostics compared over the whole chain (it re-reports label problems per step).",
         "DESIGN.md §4 C04"),
 "C05": ("spec/HclExpr.tla (MC_E1 generator)",
         "TLC-enumerated ASTs; for each, abstract (unknown/dynamic/refined) vs concrete evaluations of the real evaluator compared with the soundness relation (cty Range().Includes, type conformance, known parts equal)",
         "Every MC_E1 AST x every non-empty subset of its free variables x 3-5 abstraction kinds x same-typed concrete instantiations; verdict is the property's approximation relation computed on real outputs only; the model-level invariant KnownInKnownOut is checked by TLC on the specified semantics.",
         "Concrete instantiations are a finite table of alternates per variable; refinement tightness is not checked; error pairs are outside the statement.",
         "DESIGN.md §4 C05"),
 "C06": ("spec/HclExpr.tla (MC_E1 generator)",
         "TLC-enumerated ASTs; non-interference relation over pairs of marked contents evaluated by the real evaluator",
         "Every MC_E1 AST x each free variable x (top-level mark, 3 alternate contents | mark nested on first element): if the two error-free results differ, both must carry the mark. Violations are localised to the smallest laundering sub-expression (also inside for bodies).",
         "Expressions only so far (hcldec/dynblock bodies are planned in E2); alternates table finite.",
         "DESIGN.md §4 C06"),
 "C07": ("spec/HclExpr.tla (MC_E1 generator, FreeVars)",
         "TLC-enumerated ASTs with the specification's FreeVars; Variables() of the real code checked for sufficiency by re-evaluating in pruned and perturbed scopes (native, JSON string templates, JSON object-key templates)",
         "TLC checks DependsOnlyOnFreeVars on the specified semantics; for every AST the reported roots R must make evaluation in scope|R, and in scopes with every unreported variable changed or nulled, identical in value and diagnostics; iterator names must not be reported.",
         "hcldec.Variables and the dynblock walkers are not yet covered (planned with E2).",
         "DESIGN.md §4 C07"),
 "C08": ("spec/HclDec.tla (MC_Dec)",
         "TLC enumerates (decoding spec, body) pairs with the specification's ImpliedType and Decode result, checking TypeConforms on the model; each pair is decoded by the real hcldec (Decode and PartialDecode): no panic, type conformance, implied type, error-ness and value against the model",
         "All well-formed spec trees over all spec kinds (attr, literal, block, blocklist/tuple/set, blockmap/object with 1..2 labels, blockattrs, label, default, object, tuple, transform, validate, refine) x conforming and perturbed bodies (missing required, extraneous items, wrong literal types, wrong label counts, zero/one/many blocks, nested blocks).",
         "Documented preconditions respected (see DESIGN); results needing unification of differing element types are oom in the model (type relation still checked on the real output).",
         "DESIGN.md §4 C08"),
 "C09": ("spec/HclExpr.tla (MC_E1) + spec/HclStruct.tla (MC_C02) + spec/MC_Gap.tla",
         "TLC-enumerated expressions (rendered in every layout incl. a space between every pair of tokens) and TLC-enumerated file layouts are formatted by hclwrite.Format; token sequence, parse result, attribute values and idempotence are compared on the real outputs",
         "Quick: every MC_E1 AST of depth 1 in 5 layouts x 2 embeddings + every MC_C02 file (2 items, 1 layout deviation); thorough: depth 2 and 2 deviations. Relation: lex(Format(src)) == lex(src) as (type, bytes) sequences, Format(src) parses error-free with identical attribute values, Format(Format(src)) == Format(src).",
         "MC_Gap.tla adds one (thorough: two) non-canonical gaps (nothing, blanks, tab, inline and line comments, newlines, CRLF) at every token boundary of every base expression; edited texts that do not parse are outside the statement and only counted. No separate HclFormat.tla: the generators are the expression, structure and gap machines.",
         "DESIGN.md §4 C09"),
 "C10": ("spec/HclExpr.tla (MC_E1) + spec/HclStruct.tla (MC_C02) + spec/MC_Gap.tla",
         "same TLC-enumerated sources as C09 loaded with hclwrite.ParseConfig and saved; token sequence, equality with Format, and tree accessors (attributes, blocks, labels, variable references) compared with hclsyntax's view of the source",
         "Every traversal shape of the E1 generator (attribute, string/number/bool/null index keys, legacy index, splat) in every expression position and layout; comments before, inside and after items from the structure machine.",
         "Expression token comparison skipped where string templates or comments make spacing significant.",
         "DESIGN.md §4 C10"),
 "C11": ("spec/HclLexStr.tla (MC_C11)",
         "TLC enumerates abstract values (strings as character-class sequences) and checks the escape law Unescape(Escape(s)) = s on the spec; each value is instantiated with seeded concrete representatives and round-tripped through TokensForValue, SetAttributeValue, block labels and TokensForTraversal",
         "All strings of <= 3 (quick) / 4 (thorough) classes over 16 character classes, 12 numbers incl. 30-digit and extreme exponents, bools, typed nulls, keywords and non-identifier words, nested in tuple/list/set/map/object (depth 1/2) with key strings incl. for/in/if/null/true; generated text must parse and read back RawEquals after conversion to the original type; labels and traversal steps read back exactly.",
         "A character class has 1-6 concrete representatives (seeded choice); numbers come from a fixed list.",
         "DESIGN.md §4 C11"),
 "C12": ("spec/HclWriteTree.tla",
         "TLC exhaustive enumeration of writer-API edit histories (HclWriteTree.tla), each history replayed into hclwrite and compared with the model's predicted file",
         "Every history of <= 3 (quick) / <= 4 (thorough) writer calls from an empty and a parsed-with-comments file is enumerated by TLC; the model's invariants (unique attribute names, forest, untouched items keep tokens) are checked on the spec, and every enumerated history is executed against hclwrite: no panic, serialised bytes parse, re-parsed structure equals the model, read accessors (through the root and through retained handles) equal the model, untouched original items keep their comment/token lines.",
         "Bounded: names {a,b}, types {t,u}, 3 label lists, 4 expression payloads, nesting <= 2; AppendBlock only with detached blocks; token preservation is checked line-wise modulo indentation.",
         "DESIGN.md §4 C12"),
 "C13": ("spec/Json8259.tla (MC_C13) + MC_E1",
         "TLC enumerates every byte-class string up to length N with the verdict of the TLA+ RFC 8259 pushdown recogniser; each is instantiated with seeded concrete bytes and given to json.ParseExpression / json.Parse; accepted documents are evaluated and compared with an independent decoder; JSON template strings are compared with the native template parser on MC_E1 expressions",
         "Quick N=5 (0.5 M strings), thorough N=6 (8.6 M) over 22 classes (structural characters, two whitespace classes, ordinary and escape letters, \\uXXXX units valid and truncated, digit classes, sign, dot, exponent, literal words, raw control characters, invalid UTF-8). Error iff rejected, and every rejected-dead prefix is also checked with its string and containers closed (an extension of a dead prefix must be rejected); literal mapping (strings verbatim after unescaping, exact numbers, arrays as tuples, null as dynamic null, duplicate names rejected at evaluation); full-expression strings equal native templates.",
         "Recogniser calibrated per vector against encoding/json.Valid (drift = exit 2). Deep nesting and extreme numbers beyond length 6 come from the template/E1 part only.",
         "DESIGN.md §4 C13"),
 "C14": ("spec/HclLexPos.tla (MC_C14) + MC_E1 + MC_C02 + MC_Gap",
         "TLC enumerates every class string up to length N with the specification's reference position at each boundary; the three lexer entry points are run on the instantiated bytes and tokens are checked for tiling and position faithfulness (against HclLexPos.tla and an independent textseg counter); recorded ranges of error-free parses of TLC-generated expressions and files are sliced and re-parsed",
         "Quick N=4 (168 k strings x 2 start positions x 3 lexers), thorough N=5; plus every MC_E1 depth-1 (thorough: depth-2) expression in all layouts and every MC_C02 file for range fidelity of names, labels, braces, operators, call parts, traversal steps and expression re-parse.",
         "Position checks apply where token boundaries are grapheme-cluster boundaries (as the statement says); UAX #29 segmentation is the dependency textseg.",
         "DESIGN.md §4 C14"),
 "C15": ("spec/MC_C15.tla (HclDamage over MC_E1)",
         "TLC enumerates base programs x damage operations (insert/replace/delete/truncate with a 47-token damage alphabet); every damaged input is fed to all 9 parsing entry points, twice, under a watchdog; results, diagnostics and follow-up schema application/evaluation are checked",
         "Quick: 146 base ASTs covering every production x 6 positions x 4 damage kinds x 47 tokens (84 k inputs x 3 embeddings); thorough: ~1000 base ASTs x 12 positions (1-2 M). No panic, no hang, deterministic, non-nil result or error diagnostics, diagnostics with severity, summary and in-bounds ranges; partial bodies accept schemas without panic.",
         "Single damages on grammar-derived inputs (MaxK=1). The parser's newline-stack / recovery protocol is recorded through the hooks while the damaged inputs are parsed and validated by TLC against Peeker.tla (Trace_Peeker).",
         "DESIGN.md §4 C15"),
 "C16": ("spec/GoHcl.tla (MC_C16) + MC_Dec bodies",
         "TLC enumerates abstract values of a fixed struct family (checking the abstract round-trip law on the model); each is built as a Go value, encoded with gohcl, parsed, decoded and compared, and decoded again from the equivalent JSON document; arbitrary generated bodies are decoded into every struct type for panic-freedom",
         "Values reachable in <= 2 (quick) / 3 (thorough) field assignments over attributes, optional attributes, pointer attributes, maps, slices, single pointer block, repeated labelled blocks by value and by pointer, nested blocks with two labels; 12 escape-relevant strings / map keys.",
         "Equality modulo nil-vs-empty and NFC; JSON documents are decoded in literal-only mode (no evaluation context).",
         "DESIGN.md §4 C16"),
 "C17": ("spec/SplatConc.tla + spec/Trace_Splat.tla",
         "SplatConc.tla model-checked exhaustively (ReadOwn, NoLeak; shared-context config must fail); TLC simulation behaviours forced onto real goroutines through build-tag hooks used as a scheduler gate; free-running perturbed runs recorded under the values lock and validated by TLC against the spec (trace validation, with a corrupted-trace rejection smoke test); 16-goroutine concurrent decoding of shared native/JSON/dynblock bodies; race detector build",
         "Every interleaving of the lock-protected symbol operations of 3 goroutines on a nested splat is explored on the model; 150 (quick) / 3000 (thorough) TLC schedules replayed deterministically on hclsyntax.AnonSymbolExpr; 300 / 4000 recorded runs of 4 goroutines validated; 300 / 3000 rounds x 16 goroutines x 3 body kinds compared with the sequential result.",
         "Hooks: build tag verif (hclsyntax/verif_hook_on.go). If a code change bypasses the hooks, schedules cannot be forced and the check falls back to 3000 hook-free 8-goroutine rounds judged by the same relation. Weak-memory effects and races inside one operation are left to the Go race detector.",
         "DESIGN.md §4 C17"),
 "C18": ("spec/DynBlock.tla + spec/HclDec.tla (MC_C18)",
         "TLC enumerates bodies mixing static and dynamic blocks with the specification's written-out static body (DynBlock!WrittenOut) and decoded value; the real dynblock.Expand + hcldec.Decode is compared with decoding the written-out body, with the model value, under unknown for_each, and in the scope pruned to the reported variables",
         "Bodies of <= 2 items (quick) / up to 3 (thorough) from ~90 dynamic-block templates (all iterable kinds incl. empty, null, non-iterable; default/custom iterators; labels from the iterator; nested static and dynamic content with outer-iterator references and shadowing) x 8 specs (list, tuple, set, single block, map, object, nested tuple-in-tuple, min/max).",
         "Attribute values in generated blocks are primitives; marked for_each is covered by C06's extension, not here.",
         "DESIGN.md §4 C18"),
 "C19": ("spec/HclExpr.tla (MC_E1 generator)",
         "TLC-enumerated (error-rich) ASTs evaluated by the real evaluator in canary scopes; diagnostics and their text renderings searched for canaries",
         "Every MC_E1 AST evaluated with secrets (high-entropy strings/numbers/map keys) only inside marked values, marks at top level and nested; no summary, detail or text-writer rendering may contain a canary.",
         "Expressions only so far; error kinds reached are those of the depth-2 generator.",
         "DESIGN.md §4 C19"),
 "C20": ("spec/MC_C20.tla + spec/HclExpr.tla",
         "TLC enumerates traversal step sequences (with the specification's fold as value), type-constraint types, and MC_E1 ASTs; static views (AbsTraversalForExpr, ParseTraversalAbs, ExprList/Map/Call, TypeString/TypeConstraint) of the real code compared with evaluation and with each other",
         "Every root x step sequence up to 3 (quick) / 4 (thorough) steps in 3 layouts and as JSON template; every type to depth 2/3 (attribute names incl. `for`, `null`); every MC_E1 AST for list/map/call views. Relations are computed on real outputs; TLC additionally supplies the specified value for each traversal.",
         "Reverse direction (expression-parser traversal accepted stand-alone) only on the stand-alone grammar's domain (no legacy index, no bool/null keys); optional() object attributes not generated.",
         "DESIGN.md §4 C20"),
}
NOT_YET = "check not built yet in this round (planned per DESIGN.md §4); nothing is claimed for it"

def main():
    checks = []
    for pid in ALL:
        if pid not in CLAIMED: continue
        eng, tech, text, note, ref = CLAIMED[pid]
        checks.append({
            "property_id": pid,
            "quick_cmd": "./check %s quick" % pid,
            "thorough_cmd": "./check %s thorough" % pid,
            "evidence_file": "evidence/%s.json" % pid,
            "replay_cmd_template": "./check %s --replay {path}" % pid,
            "engine": eng,
            "level_claimed": {"category": "model_checking", "text": text, "design_ref": ref},
            "level_note": note,
            "technique": tech,
        })
    na = [{"property_id": p, "reason": NOT_YET} for p in ALL if p not in CLAIMED]
    hooks_commits = []
    hp = os.path.join(ROOT, "hooks_commits.txt")
    if os.path.exists(hp):
        hooks_commits = [l.strip() for l in open(hp) if l.strip()]
    m = {
        "version": 1,
        "setup_cmd": "./setup.sh",
        "hooks": {
            "guard": "verif",
            "enable": "go build -tags verif (the ./check wrapper builds the harness with -tags verif against /repo via a replace directive)",
            "baseline_off_cmd": "cd /repo && GOFLAGS=-mod=mod GOPROXY=off go test -vet=off -count=1 ./...",
            "source_commits": hooks_commits,
            "add_only": True,
        },
        "engines": [
            {"name": "HclWriteTree", "path": "spec/HclWriteTree.tla", "serves_properties": ["C12"], "kind_free_text": "TLA+ edit-history machine of the hclwrite tree; TLC state dump streamed to a Go replayer"},
            {"name": "HclDec", "path": "spec/HclDec.tla", "serves_properties": ["C03", "C08", "C18"], "kind_free_text": "TLA+ model of hcldec spec kinds: ImpliedType, implied schema, Decode, JSON expressibility; generator MC_Dec; replayers harness/dec, c03, c08"},
            {"name": "Json8259", "path": "spec/Json8259.tla", "serves_properties": ["C13"], "kind_free_text": "TLA+ pushdown recogniser for RFC 8259 over byte classes; generator MC_C13"},
            {"name": "SplatConc", "path": "spec/SplatConc.tla", "serves_properties": ["C17"], "kind_free_text": "TLA+ model of concurrent splat evaluation over the shared syntax tree; Trace_Splat.tla validates recorded hook traces; schedules replayed through a blocking pre-lock hook"},
            {"name": "GoHcl", "path": "spec/GoHcl.tla", "serves_properties": ["C16"], "kind_free_text": "TLA+ value generator and abstract encode/decode law for the gohcl struct family"},
            {"name": "HclLexPos", "path": "spec/HclLexPos.tla", "serves_properties": ["C14"], "kind_free_text": "TLA+ position-accounting machine (byte, line, grapheme column) over character classes; generator MC_C14"},
            {"name": "HclLexStr", "path": "spec/HclLexStr.tla", "serves_properties": ["C11"], "kind_free_text": "TLA+ model of quoted string literals over character classes (Escape/Unescape law) with value generator MC_C11"},
            {"name": "HclStruct", "path": "spec/HclStruct.tla", "serves_properties": ["C02", "C09", "C10"], "kind_free_text": "TLA+ layout machine writing native-syntax files with their abstract tree; TLC dump replayed into hclsyntax.ParseConfig"},
            {"name": "HclBody", "path": "spec/HclBody.tla", "serves_properties": ["C04"], "kind_free_text": "TLA+ machine of schema-driven body processing (PartialContent/Content with hidden sets); TLC dump replayed on four hcl.Body implementations"},
            {"name": "E1 HclValues+HclExpr+MC_E1", "path": "spec/HclExpr.tla", "serves_properties": ["C01", "C05", "C06", "C07", "C09", "C10", "C13", "C14", "C15", "C19", "C20"], "kind_free_text": "TLA+ denotational semantics of the expression/template language with a production-per-action AST generator; TLC dump streamed to Go replayers (harness/e1, c01, c05, c06, c07, c19)"},
        ],
        "checks": checks,
        "not_applicable": na,
        "notes": "All checks: explicit TLA+ spec checked by TLC, bound to the Go code by replaying TLC-enumerated behaviours into hashicorp/hcl and/or validating recorded traces with TLC. Exit 0 held / only KNOWN-FINDING lines; exit 1 with VIOLATION line; exit 2 = the check itself is broken (model drift, timeout, build failure).",
    }
    json.dump(m, open(os.path.join(ROOT, "MANIFEST.json"), "w"), indent=1)
    print("MANIFEST.json: %d checks, %d not_applicable" % (len(checks), len(na)))

if __name__ == "__main__":
    main()
