#!/bin/bash
# usage: tools/scratchrun.sh <hcl tree> <check id> [tier]  -- like triage.sh but keeps the scratch copy (prints its path)
set -u
tree=$1; id=$2; tier=${3:-quick}
scratch=/tmp/scratchrun_$id
rm -rf $scratch; mkdir -p $scratch
rsync -a --exclude .git --exclude .bin --exclude replays --exclude evidence --exclude seeded /verif/ $scratch/
sed -i "s#=> /repo#=> $tree#" $scratch/harness/go.mod
sed -i "s#cp /repo/go.sum#cp $tree/go.sum#" $scratch/check
mkdir -p $scratch/evidence $scratch/replays
(cd $scratch && VERIF_REPO=$tree ./check $id $tier 2>&1 | cut -c1-2000 | head -${LINES_MAX:-30})
echo "scratch: $scratch"
