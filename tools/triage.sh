#!/bin/bash
# usage: tools/triage.sh <hcl tree (e.g. a patched scratch worktree)> <check id> [tier]
# Runs one check from a scratch copy of /verif against another hcl tree, without touching /repo
# (for triage only; confirmations and evidence come from ./check against /repo).
set -u
tree=$1; id=$2; tier=${3:-quick}
scratch=/tmp/triage_$id.$$
mkdir -p $scratch
rsync -a --exclude .git --exclude .bin --exclude replays --exclude evidence --exclude seeded /verif/ $scratch/
sed -i "s#=> /repo#=> $tree#" $scratch/harness/go.mod
sed -i "s#cp /repo/go.sum#cp $tree/go.sum#" $scratch/check
mkdir -p $scratch/evidence $scratch/replays
out=$(cd $scratch && VERIF_REPO=$tree ./check $id $tier 2>&1); rc=$?
echo "triage $id rc=$rc : $(echo "$out" | grep -E '^(VIOLATION|BROKEN|OK)' | head -2 | cut -c1-160 | tr '\n' ' ') $(echo "$out" | grep signature | head -4 | tr '\n' ' ' | cut -c1-400)"
rm -rf $scratch
