#!/bin/bash
# usage: tools/refix_check.sh <outfile>
# For every "fixed" entry of known_findings.json: revert that fix commit in a scratch worktree of /repo and
# run the property's quick check against it (from a scratch copy of /verif). The defect must be reported again.
out=$1; : > $out
python3 - <<'PY' > /tmp/refix_list.txt
import json
seen=set()
for e in json.load(open('/verif/known_findings.json')):
    if e['status']=='fixed' and e.get('commit') and (e['property'],e['commit']) not in seen:
        seen.add((e['property'],e['commit']))
        print(e['property'], e['commit'])
PY
while read id h; do
  wt=/tmp/refix_${id}_$h
  git -C /repo worktree remove --force $wt >/dev/null 2>&1
  git -C /repo worktree add -q --detach $wt HEAD || { echo "$id $h worktree-failed" >> $out; continue; }
  if git -C $wt revert --no-commit $h >/dev/null 2>&1; then
    r=$(/verif/tools/triage.sh $wt $id 2>&1 | tail -1)
    echo "$id $h $r" | cut -c1-300 >> $out
  else
    echo "$id $h revert-conflicts" >> $out
  fi
  git -C /repo worktree remove --force $wt >/dev/null 2>&1
done < /tmp/refix_list.txt
